"""C03 — plugin output faithfully implements the schema (translation validity).

For generated proto3 schemas (harness/protogen.py) and for the repository's tests/inputs corpus:
  protoc + the plugin from the working tree -> generated package  +  FileDescriptorSet
  (a) correspondence: the descriptor is fed to the Lean model (`PLG` line); the model's predicted
      class list and per-field metadata are diffed against dataclasses.fields + FieldMetadata +
      resolved type hints of the really generated classes;
  (b) oracle: the generated classes are compared with the descriptor directly (the English
      property); the Lean *specification* (`specOf`) is cross-checked against the same oracle.
Sentence 3 of the property (bundled descriptor classes agree with descriptor.proto / plugin.proto)
is the theorem `bundled_descriptors_agree` over the regenerated table; here the plugin's own
reading of a real CodeGeneratorRequest is additionally compared with google.protobuf's."""
import concurrent.futures
import dataclasses
import datetime
import os
import random
import re
import sys
import traceback
import typing

import betterproto
import pluginrun
import protogen
from betterproto.compile import naming as bp_naming

SCALAR_NAME = {1: "double", 2: "float", 3: "int64", 4: "uint64", 5: "int32", 6: "fixed64", 7: "fixed32", 8: "bool",
               9: "string", 11: "message", 12: "bytes", 13: "uint32", 14: "enum", 15: "sfixed32", 16: "sfixed64",
               17: "sint32", 18: "sint64"}
PY_OF = {"double": "float", "float": "float", "bool": "bool", "string": "str", "bytes": "bytes"}
for _t in ("int32", "int64", "uint32", "uint64", "sint32", "sint64", "fixed32", "fixed64", "sfixed32", "sfixed64"):
    PY_OF[_t] = "int"
WRAPPED = {".google.protobuf.DoubleValue": "double", ".google.protobuf.FloatValue": "float",
           ".google.protobuf.Int64Value": "int64", ".google.protobuf.UInt64Value": "uint64",
           ".google.protobuf.Int32Value": "int32", ".google.protobuf.UInt32Value": "uint32",
           ".google.protobuf.BoolValue": "bool", ".google.protobuf.StringValue": "string",
           ".google.protobuf.BytesValue": "bytes"}
TS, DUR = ".google.protobuf.Timestamp", ".google.protobuf.Duration"
SHADOWABLE = {"int", "float", "bool", "str", "bytes", "datetime", "timedelta"}
CORPUS_XFAIL = {"namespace_keywords", "googletypes_struct", "googletypes_value", "import_capitalized_package", "example"}


class Naming:
    """the real naming functions (C19's subject): used to tabulate the model's naming parameters"""
    cls = staticmethod(bp_naming.pythonize_class_name)
    fld = staticmethod(bp_naming.pythonize_field_name)
    mem = staticmethod(bp_naming.pythonize_enum_member_name)


def tok(s):
    return s if s else "-"


# ---------------------------------------------------------------------------------------------
# descriptor -> model line
def enum_tokens(e):
    out = ["E", e.name, str(len(e.value))]
    for v in e.value:
        out += [v.name, str(v.number)]
    return out


def msg_tokens(m):
    out = ["M", m.name, "1" if m.options.map_entry else "0", str(len(m.oneof_decl))]
    out += [o.name for o in m.oneof_decl]
    out.append(str(len(m.field)))
    for f in m.field:
        out += ["F", f.name, str(f.number), str(f.label), str(f.type), tok(f.type_name),
                str(f.oneof_index) if f.HasField("oneof_index") else "-", "1" if f.proto3_optional else "0"]
    out.append(str(len(m.enum_type)))
    for e in m.enum_type:
        out += enum_tokens(e)
    out.append(str(len(m.nested_type)))
    for n in m.nested_type:
        out += msg_tokens(n)
    return out


def walk(fd):
    """yield (kind, path, descriptor) for every message / enum of a file, plugin traversal order"""
    def rec_msgs(path, msgs):
        for m in msgs:
            p = path + [m.name]
            yield "message", p, m
            for e in m.enum_type:
                yield "enum", p + [e.name], e
            yield from rec_msgs(p, m.nested_type)
    for e in fd.enum_type:
        yield "enum", [e.name], e
    yield from rec_msgs([], fd.message_type)


def flat(path):
    return "_" + "_".join(path)


def package_line(files):
    toks = ["PLG", str(len(files))]
    cls, fld, mem = {}, {}, {}
    for fd in files:
        toks += ["FILE", tok(fd.package), str(len(fd.enum_type))]
        for e in fd.enum_type:
            toks += enum_tokens(e)
        toks.append(str(len(fd.message_type)))
        for m in fd.message_type:
            toks += msg_tokens(m)
        for kind, path, d in walk(fd):
            cls[flat(path)] = Naming.cls(flat(path))
            if kind == "message":
                for f in d.field:
                    fld[f.name] = Naming.fld(f.name)
            else:
                for v in d.value:
                    mem[(v.name, flat(path))] = Naming.mem(v.name, flat(path))
    toks += ["NAMES", str(len(cls))]
    for k, v in cls.items():
        toks += [k, tok(v)]
    toks.append(str(len(fld)))
    for k, v in fld.items():
        toks += [k, tok(v)]
    toks.append(str(len(mem)))
    for (a, e), v in mem.items():
        toks += [a, e, tok(v)]
    for t in toks:
        if " " in t or not t:
            raise ValueError("token %r" % t)
    return " ".join(toks)


def parse_reply(reply):
    """-> None (model says the plugin raises) or (guard, [class dict])"""
    if reply == "ERR":
        return None
    t = reply.split(" ")
    n, guard = int(t[0]), t[1] == "1"
    i = 2
    out = []
    for _ in range(n):
        if t[i] == "N":
            k = int(t[i + 2])
            ents = [(t[i + 3 + 2 * j], int(t[i + 4 + 2 * j])) for j in range(k)]
            out.append({"kind": "enum", "name": t[i + 1], "entries": ents})
            i += 3 + 2 * k
        elif t[i] == "K":
            k = int(t[i + 6])
            c = {"kind": "message", "name": t[i + 1], "full": t[i + 2], "valid": t[i + 3] == "1",
                 "mapRefsLocal": t[i + 4] == "1", "noWrapperMapValue": t[i + 5] == "1", "fields": []}
            i += 7
            for _ in range(k):
                assert t[i] == "f", (t[i - 3:i + 3])
                c["fields"].append({"name": t[i + 1], "meta": t[i + 2], "obs": t[i + 3], "spec": t[i + 4]})
                i += 5
            out.append(c)
        else:
            raise ValueError("bad reply at %d: %r" % (i, t[i:i + 4]))
    return guard, out


# ---------------------------------------------------------------------------------------------
# real classes -> canonical strings
class ClassMap:
    """(python module, class name) -> proto full name, for hints"""

    def __init__(self, root, fds):
        self.by_class = {}
        for fd in fds.file:
            if fd.package == "google.protobuf":
                mod = "betterproto.lib.std.google.protobuf"
            else:
                mod = root + ("." + fd.package if fd.package else "")
            for kind, path, d in walk(fd):
                if kind == "message" and d.options.map_entry:
                    continue          # no class is generated for a synthetic map entry type: it must not claim a class name
                full = "." + ".".join(([fd.package] if fd.package else []) + path)
                self.by_class[(mod, Naming.cls(flat(path)))] = full

    def name(self, cls):
        return self.by_class.get((cls.__module__, cls.__name__), "?%s.%s" % (cls.__module__, cls.__name__))


def inner_str(h, cm):
    if h in (int, float, bool, str, bytes):
        return h.__name__
    if h is datetime.datetime:
        return "datetime"
    if h is datetime.timedelta:
        return "timedelta"
    if typing.get_origin(h) is typing.Union:
        args = [a for a in typing.get_args(h) if a is not type(None)]
        if len(args) == 1:
            return "Optional[%s]" % inner_str(args[0], cm)
    if isinstance(h, type):
        return cm.name(h)
    return "?" + repr(h)


def hint_str(h, cm):
    o = typing.get_origin(h)
    a = typing.get_args(h)
    if o is list:
        return "List[%s]" % inner_str(a[0], cm)
    if o is dict:
        return "Dict[%s,%s]" % (inner_str(a[0], cm), inner_str(a[1], cm))
    return inner_str(h, cm)


def real_meta(meta, hint, cm):
    mt = "%s:%s" % meta.map_types if meta.map_types else "-"
    return "%d,%s,%s,%s,%s,%d,%s" % (meta.number, meta.proto_type, mt, tok(meta.group or ""), tok(meta.wraps or ""),
                                      1 if meta.optional else 0, hint_str(hint, cm))


def module_classes(mod):
    msgs, enums = {}, {}
    for name, obj in vars(mod).items():
        if isinstance(obj, type) and obj.__module__ == mod.__name__:
            if issubclass(obj, betterproto.Message):
                msgs[name] = obj
            elif issubclass(obj, betterproto.Enum):
                enums[name] = obj
    return msgs, enums


# ---------------------------------------------------------------------------------------------
# the oracle's own reading of the descriptor (independent of the Lean spec)
class Pool:
    def __init__(self, fds):
        self.msgs, self.enums = {}, {}
        for fd in fds.file:
            for kind, path, d in walk(fd):
                full = "." + ".".join(([fd.package] if fd.package else []) + path)
                (self.msgs if kind == "message" else self.enums)[full] = d


def expected_field(pool, m, f):
    """-> dict(meta=<string as real_meta>, spec=<string as the driver's showSpec>, region=set())"""
    region = set()
    ent = pool.msgs.get(f.type_name) if f.type == 11 else None
    group = ""
    if f.HasField("oneof_index") and not f.proto3_optional:
        group = m.oneof_decl[f.oneof_index].name

    def elem(fld, in_map):
        """(hint text of the element, spec elem text)"""
        if fld.type == 11:
            if fld.type_name in WRAPPED and not in_map:
                py = PY_OF[WRAPPED[fld.type_name]]
                return "Optional[%s]" % py, "o." + py
            if fld.type_name == TS:
                return "datetime", "dt"
            if fld.type_name == DUR:
                return "timedelta", "td"
            return fld.type_name, "r" + fld.type_name
        if fld.type == 14:
            return fld.type_name, "r" + fld.type_name
        py = PY_OF[SCALAR_NAME[fld.type]]
        return py, "p." + py

    if ent is not None and ent.options.map_entry:
        k = [x for x in ent.field if x.number == 1][0]
        v = [x for x in ent.field if x.number == 2][0]
        kt, vt = SCALAR_NAME[k.type], SCALAR_NAME[v.type]
        if v.type == 11 and v.type_name in WRAPPED:
            region.add("map-value-wrapper")
        vh, ve = elem(v, True)
        kpy = PY_OF[kt]
        meta = "%d,map,%s:%s,-,-,0,Dict[%s,%s]" % (f.number, kt, vt, kpy, vh)
        spec = "%d,map,map:%s:%s,-,-,%s,%s" % (f.number, kt, vt, ve, kpy)
        return {"meta": meta, "spec": spec, "region": region}
    ty = SCALAR_NAME[f.type]
    eh, es = elem(f, False)
    wraps = WRAPPED.get(f.type_name, "") if f.type == 11 else ""
    if f.label == 3:
        card, hint, opt = "repeated", "List[%s]" % eh, 0
    elif f.proto3_optional:
        card, hint, opt = "optional", (eh if eh.startswith("Optional[") else "Optional[%s]" % eh), 1
    else:
        card, hint, opt = "singular", eh, 0
    meta = "%d,%s,-,%s,%s,%d,%s" % (f.number, ty, tok(group), tok(wraps), opt, hint)
    spec = "%d,%s,%s,%s,%s,%s,-" % (f.number, ty, card, tok(group), tok(wraps), es)
    return {"meta": meta, "spec": spec, "region": region}


def schema_regions(fds):
    """input features that put a schema into a listed excluded region (computed from the descriptor only)"""
    reg = set()
    for fd in fds.file:
        if fd.package == "google.protobuf":
            continue
        if any(c.isupper() for c in fd.package):
            reg.add("d19-capitalised-package")
        seen = {}
        for kind, path, d in walk(fd):
            if kind == "message" and d.options.map_entry:
                continue
            if path[0][:1].islower():
                reg.add("d19-lowercase-type")
            if kind == "message" and any(Naming.fld(f.name) in ("int", "float", "bool", "str", "bytes") for f in d.field):
                reg.add("builtin-named-field")
    # class-name collisions inside one package
    by_pkg = {}
    for fd in fds.file:
        for kind, path, d in walk(fd):
            if kind == "message" and d.options.map_entry:
                continue
            by_pkg.setdefault(fd.package, []).append(Naming.cls(flat(path)))
    for names in by_pkg.values():
        if len(set(names)) != len(names):
            reg.add("flatten-collision")
    return reg


def message_regions(pool, full, m):
    reg = set()
    names = [Naming.fld(f.name) for f in m.field]
    if len(set(names)) != len(names):
        reg.add("field-name-collision")
    entries = {n.name for n in m.nested_type if n.options.map_entry}
    for f in m.field:
        if f.type == 11 and f.type_name.split(".")[-1] in entries and f.type_name != full + "." + f.type_name.split(".")[-1]:
            reg.add("foreign-type-named-like-map-entry")
    return reg


# ---------------------------------------------------------------------------------------------
def check_generated(chk, drv, g, protos, label, src="generated"):
    """all comparisons for one generation; returns number of fields compared"""
    from google.protobuf import descriptor_pb2
    inp = {"label": label, "protos": protos}

    def fail(kind, where, detail, region=()):
        fl = {"kind": kind, "input": dict(inp, where=where, region=sorted(region)), "detail": detail}
        fid = classify(fl, [e for e in chk.known if e.get("status") == "known"])
        if fid is not None:
            # keep the (capped) failure buffer for unlisted failures: a few examples per listed finding suffice
            chk.count("failures_in_known_class_" + fid)
            if chk.dist["failures_in_known_class_" + fid] > 5:
                return
        chk.fail(kind, fl["input"], detail)

    fds = descriptor_pb2.FileDescriptorSet.FromString(g.descriptor)
    sreg = schema_regions(fds)
    pool = Pool(fds)
    cm = ClassMap(g.root, fds)
    packages = {}
    for fd in fds.file:
        if fd.package == "google.protobuf":
            continue
        packages.setdefault(fd.package, []).append(fd)
    lines = {pkg: package_line(files) for pkg, files in packages.items()}
    replies = dict(zip(lines, drv.ask(list(lines.values())))) if drv else {}
    nfields = 0
    for pkg, files in packages.items():
        where = "package %r" % pkg
        try:
            mod = g.import_module(pkg)
        except BaseException as e:  # noqa
            kind = "import-nameerror-builtins" if isinstance(e, NameError) and "'builtins'" in str(e) else "import-failed"
            fail(kind, where, "%s: %s" % (type(e).__name__, e), sreg)
            continue
        msgs, enums = module_classes(mod)
        hints = {}
        bad = False
        for name, cls in msgs.items():
            try:
                hints[name] = typing.get_type_hints(cls, vars(mod), {})   # as Message._type_hints does
            except BaseException as e:  # noqa
                fail("hints-unresolvable", "%s class %s" % (where, name), "%s: %s" % (type(e).__name__, e), sreg)
                bad = True
        if bad:
            continue
        # ---------------- (b) oracle: classes vs descriptor
        exp_msgs, exp_enums = {}, {}
        for fd in files:
            for kind, path, d in walk(fd):
                full = "." + ".".join(([pkg] if pkg else []) + path)
                if kind == "enum":
                    exp_enums.setdefault(Naming.cls(flat(path)), []).append((full, path, d))
                elif not d.options.map_entry:
                    exp_msgs.setdefault(Naming.cls(flat(path)), []).append((full, path, d))
        for what, exp, got in (("message", exp_msgs, msgs), ("enum", exp_enums, enums)):
            for name, lst in exp.items():
                if len(lst) > 1:
                    fail("class-collision", where, "%s %s all become class %s" % (what, [x[0] for x in lst], name),
                         sreg | {"flatten-collision"})
                if name not in got:
                    fail("missing-class", where, "no %s class %s for %s" % (what, name, lst[0][0]), sreg)
            for name in got:
                if name not in exp:
                    fail("extra-class", where, "%s class %s corresponds to no type of the schema" % (what, name), sreg)
        spec_of = {}
        for name, lst in exp_msgs.items():
            full, path, m = lst[-1]
            cls = msgs.get(name)
            if cls is None:
                continue
            mreg = message_regions(pool, full, m) | sreg
            dfs = {f.name: f for f in dataclasses.fields(cls)}
            if len(dfs) != len(m.field):
                fail("field-count", "%s message %s" % (where, full), "%d dataclass fields for %d schema fields" % (len(dfs), len(m.field)), mreg)
            for fi_, f in enumerate(m.field):
                nfields += 1
                ex = expected_field(pool, m, f)
                reg = mreg | ex["region"]
                earlier = {Naming.fld(x.name) for x in m.field[:fi_ + 1]} & SHADOWABLE
                ann_txt = ",".join(ex["meta"].split(",")[6:])
                if earlier & set(re.findall(r"[A-Za-z_]+", ann_txt)):
                    # D33 is about COMPOSITE annotations (Dict[str, …], Optional[float], List[int]) and datetime / timedelta:
                    # a PLAIN builtin annotation of a LATER field is written `builtins.<type>` by the plugin and works
                    # (seed C03-h lost exactly that), so it is no part of the known class
                    plain_later = ann_txt in (SHADOWABLE - {"datetime", "timedelta"}) and Naming.fld(f.name) != ann_txt
                    reg = reg | ({"builtin-shadowed-plain"} if plain_later else {"builtin-shadowed"})
                w = "%s field %s.%s" % (where, full, f.name)
                df = dfs.get(Naming.fld(f.name))
                if df is None:
                    fail("missing-field", w, "no dataclass field %s" % Naming.fld(f.name), reg)
                    continue
                try:
                    got = real_meta(betterproto.FieldMetadata.get(df), hints[name][df.name], cm)
                except BaseException as e:  # noqa
                    fail("metadata-unreadable", w, repr(e), reg)
                    continue
                spec_of[(name, df.name)] = (ex, got, reg)
                if got != ex["meta"]:
                    e_, g_ = ex["meta"].split(","), got.split(",")
                    idx = [i for i in range(min(len(e_), len(g_))) if e_[i] != g_[i]]
                    kind = {0: "field-number", 1: "field-type", 2: "map-types", 3: "oneof-group", 4: "wrapper-mapping",
                            5: "optional-flag"}.get(idx[0] if idx else 6, "type-annotation")
                    if "map-value-wrapper" in reg and kind == "type-annotation":
                        kind = "map-value-wrapper"
                    fail(kind, w, "generated %s, schema says %s" % (got, ex["meta"]), reg)
        for name, lst in exp_enums.items():
            full, path, e = lst[-1]
            cls = enums.get(name)
            if cls is None:
                continue
            members = {k: int(v.value) for k, v in cls.__members__.items()}
            want = {}
            for v in e.value:
                want.setdefault(Naming.mem(v.name, flat(path)), []).append(v.number)
            for mname, nums in want.items():
                if len(nums) > 1 and len(set(nums)) > 1:
                    fail("enum-member-collision", "%s enum %s" % (where, full), "members %s -> %s" % (mname, nums), sreg | {"enum-member-collision"})
                elif members.get(mname) != nums[0]:
                    fail("enum-number", "%s enum %s member %s" % (where, full, mname),
                         "generated %r, schema says %d" % (members.get(mname), nums[0]), sreg)
            if len(members) != len(want):
                fail("enum-member-count", "%s enum %s" % (where, full), "%d members for %d values" % (len(members), len(want)), sreg)
        # ---------------- (a) correspondence: model prediction vs generated classes
        rep = replies.get(pkg)
        if rep is None:
            continue
        try:
            parsed = parse_reply(rep)
        except Exception as e:  # noqa
            chk.disagree("driver reply unparsable", dict(inp, where=where), rep[:300], repr(e))
            continue
        if parsed is None:
            chk.disagree("model predicts that the plugin raises", dict(inp, where=where), "ERR", "generated %d classes" % (len(msgs) + len(enums)))
            continue
        guard, classes = parsed
        chk.count("guard_noFlattenCollision_" + ("in" if guard else "out"))
        if guard != ("flatten-collision" not in sreg):
            chk.disagree("noFlattenCollision guard", dict(inp, where=where), str(guard), str(sorted(sreg)))
        pred_names = [c["name"] for c in classes]
        real_names = sorted(list(msgs) + list(enums))
        if guard and sorted(pred_names) != real_names:
            chk.disagree("class list", dict(inp, where=where), sorted(pred_names), real_names)
        for c in classes:
            if c["kind"] == "enum":
                cls = enums.get(c["name"])
                if cls is None:
                    continue
                real = [(k, int(v.value)) for k, v in cls.__members__.items()]
                pred = list(dict(c["entries"]).items())   # a repeated name keeps its last value, as in a class body
                if pred != real and "enum-member-collision" not in sreg:
                    chk.disagree("enum members", dict(inp, where="%s enum %s" % (where, c["name"])), pred, real)
                continue
            cls = msgs.get(c["name"])
            if cls is None:
                continue
            for key in ("valid", "mapRefsLocal", "noWrapperMapValue"):
                chk.count("guard_%s_%s" % (key, "in" if c[key] else "out"))
            in_domain = c["valid"] and c["mapRefsLocal"] and c["noWrapperMapValue"]
            for fl in c["fields"]:
                t = spec_of.get((c["name"], fl["name"]))
                if t is None:
                    continue
                ex, got, reg = t
                if reg & {"field-name-collision", "builtin-shadowed", "builtin-shadowed-plain"} or "Field(name=" in got:
                    # Python's class-scope shadowing / field replacement is not part of the model (D33: the evaluated hint
                    # contains a dataclass Field object where a builtin type was meant — the observation itself shows it)
                    chk.count("corr_skipped_in_known_region")
                    continue
                if fl["meta"] != got:
                    chk.disagree("field metadata", dict(inp, where="%s %s.%s" % (where, c["full"], fl["name"])), fl["meta"], got)
                # the Lean specification against the oracle's reading of the descriptor
                if fl["spec"] != ex["spec"]:
                    chk.disagree("specOf vs oracle", dict(inp, where="%s %s.%s" % (where, c["full"], fl["name"])), fl["spec"], ex["spec"])
                if in_domain and fl["obs"] != fl["spec"]:
                    chk.disagree("theorem field_faithful_partial contradicted by the model itself",
                                 dict(inp, where="%s %s.%s" % (where, c["full"], fl["name"])), fl["obs"], fl["spec"])
        # ---------------- (c) plugin -> runtime schema link: the model's `toSchema` vs what the runtime derives (p29)
        if guard:
            from props import c03_schema
            c03_schema.compare_package(chk, drv, inp, where, lines[pkg], classes, mod, msgs, enums, spec_of)
    return nfields


def run_one(chk, drv, protos, label, pre=None, src="generated"):
    """generate + check one schema; returns 'ok' | 'invalid' | 'failed'"""
    g = pre if pre is not None else pluginrun.generate(protos)
    try:
        if not g.ok:
            if "Plugin failed" in g.log or "Traceback" in g.log or "--python_betterproto_out" in g.log:
                chk.fail("plugin-failed", {"label": label, "protos": protos, "where": "protoc", "region": sorted(regions_from_text(protos))},
                         g.log[-1500:])
                return "failed"
            chk.count(src + "_rejected_by_protoc")
            chk.notes.append("%s rejected by protoc: %s" % (label, g.log.strip().split("\n")[0][:200])) if len(chk.notes) < 5 else None
            return "invalid"
        before = len(chk.oracle_failures)
        n = check_generated(chk, drv, g, protos, label, src)
        chk.case(label + repr(sorted(protos.items())), n > 0, {"schema": label, "fields": n, "files": sorted(protos)})
        chk.count(src + "_schemas")
        chk.count(src + "_fields", n)
        return "ok" if len(chk.oracle_failures) == before else "failed"
    finally:
        g.cleanup()


def regions_from_text(protos):
    """fallback region tags when there is no descriptor (the plugin crashed)"""
    import re
    reg = set()
    for text in protos.values():
        for m in re.finditer(r"^\s*package\s+([\w.]+)\s*;", text, re.M):
            if any(c.isupper() for c in m.group(1)):
                reg.add("d19-capitalised-package")
        for m in re.finditer(r"^\s*(?:message|enum)\s+(\w+)", text, re.M):
            if m.group(1)[0].islower():
                reg.add("d19-lowercase-type")
    return reg


def generate_many(jobs, workers=6):
    """run protoc + plugin for many schemas concurrently (the import + comparison stay sequential)"""
    out = [None] * len(jobs)
    with concurrent.futures.ThreadPoolExecutor(max_workers=workers) as ex:
        futs = {ex.submit(pluginrun.generate, protos): i for i, (label, protos) in enumerate(jobs)}
        for fu in concurrent.futures.as_completed(futs):
            out[futs[fu]] = fu.result()
    # the helper numbers its root packages with an unlocked counter: regenerate the rare duplicates
    seen = set()
    for i, g in enumerate(out):
        if g.root in seen:
            g.cleanup()
            out[i] = pluginrun.generate(jobs[i][1])
        seen.add(out[i].root)
    return out


# fixed schema shapes that past property-breaking changes needed (each was first reached by chance or not at all)
FIXED_SHAPES = {
    "two_files_one_package_last_needs_no_typing": {
        "a_first.proto": 'syntax = "proto3";\npackage shapes.one;\nmessage First { repeated int32 xs = 1; map<string, int32> m = 2; optional int32 o = 3; }\n',
        "z_last.proto": 'syntax = "proto3";\npackage shapes.one;\nmessage Last { int32 z = 1; string note = 2; }\n'},
    "well_known_type_only_as_map_value": {
        "m.proto": 'syntax = "proto3";\npackage shapes.two;\nimport "google/protobuf/timestamp.proto";\nimport "google/protobuf/duration.proto";\n'
                   'message Holder { map<string, google.protobuf.Timestamp> seen = 1; }\nmessage Other { map<int32, google.protobuf.Duration> took = 1; }\n'},
    "optional_fields_but_no_oneof_anywhere": {
        "o.proto": 'syntax = "proto3";\npackage shapes.three;\nmessage Opt { optional int32 a = 1; optional string b = 2; }\nmessage Plain { int32 c = 1; }\n'},
    "comment_edge_cases": {
        "c.proto": 'syntax = "proto3";\npackage shapes.four;\n// Install root, e.g. C:\\\nmessage Root { // ends with a quote "\n  string path = 1;\n  // a \\" inside\n  int32 n = 2;\n}\n'},
    "enum_member_names_with_digits_and_leading_underscore": {
        "e.proto": 'syntax = "proto3";\npackage shapes.five;\nenum HttpVersion { HTTP_VERSION_UNSPECIFIED = 0; HTTP_VERSION_1_1 = 1; HTTP_VERSION_2 = 2; }\nmessage Req { HttpVersion v = 1; }\n'},
}


def corpus():
    base = os.path.join(os.environ.get("VERIF_REPO", "/repo"), "tests", "inputs")
    out = [("shape/" + k, dict(v)) for k, v in FIXED_SHAPES.items()]
    for d in sorted(os.listdir(base)):
        p = os.path.join(base, d)
        if not os.path.isdir(p) or d in CORPUS_XFAIL:
            continue
        protos = {f: open(os.path.join(p, f)).read() for f in sorted(os.listdir(p)) if f.endswith(".proto")}
        if protos:
            out.append(("tests/inputs/" + d, protos))
    return out


def bundled_oracle(chk):
    """sentence 3, observed: the bundled classes parse a real descriptor set exactly as google.protobuf does
    (field by field through to_dict-free attribute reads of the fields the plugin uses)"""
    from google.protobuf import descriptor_pb2
    from betterproto.lib.google.protobuf import FileDescriptorSet
    ref = descriptor_pb2.FileDescriptorSet()
    for mod in ("descriptor_pb2", "type_pb2", "struct_pb2", "wrappers_pb2", "api_pb2"):
        m = __import__("google.protobuf." + mod, fromlist=["DESCRIPTOR"])
        m.DESCRIPTOR.CopyToProto(ref.file.add())
    from google.protobuf.compiler import plugin_pb2
    plugin_pb2.DESCRIPTOR.CopyToProto(ref.file.add())
    syn = ref.file.add(name="synthetic.proto", package="syn")   # every scalar field of FieldDescriptorProto populated
    sm = syn.message_type.add(name="S")
    sm.oneof_decl.add(name="_f")
    sm.field.add(name="f", number=7, label=1, type=9, type_name=".syn.T", extendee=".syn.E", default_value="d",
                 oneof_index=0, json_name="jf", proto3_optional=True)
    data = ref.SerializeToString()
    mine = FileDescriptorSet().parse(data)
    n = 0

    def cmp_msg(a, b, where):
        nonlocal n
        for fa, fb in zip(a.field, b.field):
            n += 1
            got = (fa.name, fa.number, int(fa.label), int(fa.type), fa.type_name, fa.proto3_optional, fa.json_name,
                   fa.extendee, fa.default_value, fa.oneof_index)
            want = (fb.name, fb.number, fb.label, fb.type, fb.type_name, fb.proto3_optional, fb.json_name,
                    fb.extendee, fb.default_value, fb.oneof_index)
            if got != want:
                chk.fail("bundled-descriptor-misreads", {"where": where + "." + fb.name, "region": []}, "%r vs %r" % (got, want))
        if len(a.field) != len(b.field) or len(a.nested_type) != len(b.nested_type) or len(a.enum_type) != len(b.enum_type):
            chk.fail("bundled-descriptor-misreads", {"where": where, "region": []}, "child counts differ")
        for ea, eb in zip(a.enum_type, b.enum_type):
            if [(v.name, v.number) for v in ea.value] != [(v.name, v.number) for v in eb.value]:
                chk.fail("bundled-descriptor-misreads", {"where": where + "." + eb.name, "region": []}, "enum values differ")
        for na, nb in zip(a.nested_type, b.nested_type):
            cmp_msg(na, nb, where + "." + nb.name)

    for fa, fb in zip(mine.file, ref.file):
        if (fa.name, fa.package) != (fb.name, fb.package) or len(fa.message_type) != len(fb.message_type):
            chk.fail("bundled-descriptor-misreads", {"where": fb.name, "region": []}, "file header differs")
        for a, b in zip(fa.message_type, fb.message_type):
            cmp_msg(a, b, fb.package + "." + b.name)
    if bytes(mine) != data and len(bytes(mine)) != len(data):
        chk.count("bundled_reencode_differs_in_length")
    chk.count("bundled_fields_read_back", n)
    chk.case("bundled descriptor set", True, {"bundled": "descriptor.proto + plugin.proto + 4 WKT files re-read", "fields": n})


def run(chk, drv):
    quick = chk.tier == "quick"
    chk.extra["rule"] = (
        "schemas from harness/protogen.py (one PRNG; 1-3 files, packages of depth 0-3 in same/child/parent/cousin/root "
        "relation, nesting <= 3, 15 scalars, enums with negative/aliased numbers, maps over all key kinds, oneofs, "
        "proto3 optional, repeated, recursive/mutually recursive messages, WKT + wrappers, keyword/builtin field names, "
        "comments) + tests/inputs (xfails skipped; quick tier: every 4th). A case = one schema, non-trivial when it has "
        ">= 1 field, distinct by its source text; every field's metadata + hint is compared with the model and the descriptor")
    chk.extra["partial"] = ("'imports as a Python package' and the naming functions are observed, not proved; "
                            "class / field / member naming is a parameter of the model (C19)")
    chk.extra["assumptions"] = [
        "protoc (grpc_tools) is the producer of valid descriptors: ProtocValid is what its checks guarantee",
        "Jinja renders one line per FieldCompiler (get_field_string) and one class per MessageCompiler / EnumDefinitionCompiler",
        "ruff is replaced by a pass-through shim (generated modules are unformatted)",
    ]
    bundled_oracle(chk)
    n = 40 if quick else 400
    jobs = []
    feats = {}
    for i in range(n):
        seed = chk.rng.getrandbits(48)
        s = protogen.gen_schema(random.Random(seed), naming=Naming, index=i)
        jobs.append(("gen-%d-%d" % (chk.seed, seed), s.files))
        for k, v in s.features.items():
            feats[k] = feats.get(k, 0) + v
        for k, v in s.filtered.items():
            chk.count("generator_avoided_" + k, v)
    for k, v in sorted(feats.items()):
        chk.count("construct_" + k, v)
    cj = corpus()
    if quick:
        # the fixed shapes always, a quarter of the repository's own inputs
        cj = [x for x in cj if x[0].startswith("shape/")] + [x for x in cj if not x[0].startswith("shape/")][chk.seed % 4::4]
    jobs_all = [(l, p, "generated") for l, p in jobs] + [(l, p, "corpus") for l, p in cj]
    B = 24
    for b in range(0, len(jobs_all), B):
        batch = jobs_all[b:b + B]
        gens = generate_many([(l, p) for l, p, _ in batch])
        for (label, protos, src), g in zip(batch, gens):
            try:
                run_one(chk, drv, protos, label, pre=g, src=src)
            except Exception:  # noqa
                chk.disagree("harness error", {"label": label, "protos": protos}, "n/a", traceback.format_exc()[-1200:])


# ---------------------------------------------------------------------------------------------
# known findings, replay, search
def classify(failure, known):
    inp = failure.get("input") or {}
    reg = set(inp.get("region") or [])
    kind = failure.get("kind", "")
    for e in known:
        cls = e.get("class", "")
        kinds, _, feature = cls.partition(":")
        if feature in reg and kind in kinds.split("|"):
            return e["id"]
    return None


def _still_fails(chk, protos, label="replay"):
    sub = type(chk)(chk.pid, "quick", 0)
    sub.known = []
    from common import Driver
    drv = None
    try:
        drv = Driver()
    except Exception:  # noqa
        drv = None
    try:
        run_one(sub, drv, protos, label)
    finally:
        if drv:
            drv.close()
    return sub


def replay_known(chk, entry):
    w = entry.get("witness") or {}
    if "protos" not in w:
        return False
    sub = _still_fails(chk, w["protos"], entry["id"])
    kinds = entry.get("class", "").partition(":")[0].split("|")
    return any(f["kind"] in kinds for f in sub.oracle_failures)


def replay(chk, rp):
    fl = rp.get("failure") or {}
    inp = fl.get("input") or {}
    if "protos" in inp:
        sub = _still_fails(chk, inp["protos"])
        for f in sub.oracle_failures[:5]:
            print("  still: %s at %s: %s" % (f["kind"], f["input"].get("where"), f["detail"][:200]))
        return bool(sub.oracle_failures)
    if fl.get("kind") == "bundled-descriptor-misreads":
        sub = type(chk)(chk.pid, "quick", 0)
        bundled_oracle(sub)
        return bool(sub.oracle_failures)
    return True


def search(chk):
    """the proof or the correspondence broke without an oracle failure: look harder on the real code"""
    n = 25 * 20 if chk.tier == "quick" else 600
    jobs = []
    for i in range(n):
        seed = chk.rng.getrandbits(48)
        s = protogen.gen_schema(random.Random(seed), naming=Naming, index=i)
        jobs.append(("search-%d" % seed, s.files))
    jobs += corpus()
    B = 24
    for b in range(0, len(jobs), B):
        batch = jobs[b:b + B]
        gens = generate_many(batch)
        for (label, protos), g in zip(batch, gens):
            try:
                run_one(chk, None, protos, label, pre=g, src="search")
            except Exception:  # noqa
                pass
        if any(classify(f, [e for e in chk.known if e.get("status") == "known"]) is None for f in chk.oracle_failures):
            return
