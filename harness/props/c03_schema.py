"""C03 / C17 / C18 — correspondence stage for the plugin → runtime-schema link (lean/BpModel/PluginSchema.lean).

For every package the C03 check generates with the REAL plugin and imports, compare
  * the model:  `toSchema (compilePackage …)` (driver command TOSCHEMA, lean/Driver/PluginSchema.lean), i.e. the
    `FieldD`s every codec theorem quantifies over, with
  * the real runtime: what `ProtoClassMetadata` derives from the generated classes
    (`cls._betterproto.meta_by_field_name / default_gen / cls_by_field / oneof_group_by_field`),
both rendered as the `F <num> <ptype> <rep> <opt> <group> <wraps> <kind> <mapK> <mapV> <mapVKind> …` lines of harness/bpgen.py.
Additive: called from harness/props/c03.py:check_generated; nothing else changes.
"""
import datetime

import betterproto

SKIP_REGIONS = {"field-name-collision", "builtin-shadowed", "builtin-shadowed-plain"}


def toschema_line(plg_line):
    assert plg_line.startswith("PLG ")
    return "TOSCHEMA " + plg_line[4:]


def parse_reply(reply):
    """-> None (plugin raises in the model) or dict(whole, pydsame, classes=[{name, ok, dom, agree, ngroups, fields=[(line, dn, dd, name)]}])"""
    if reply == "ERR":
        return None
    t = reply.split(" ")
    out = {"whole": t[0] == "1", "pydsame": t[1] == "1", "classes": []}
    n = int(t[2])
    i = 3
    for _ in range(n):
        if t[i] == "X":
            out["classes"].append({"name": t[i + 1], "ok": False})
            i += 2
            continue
        assert t[i] == "M", t[i - 2:i + 3]
        c = {"name": t[i + 1], "ok": True, "dom": t[i + 2] == "1", "agree": t[i + 3] == "1", "ngroups": int(t[i + 4]), "fields": []}
        k = int(t[i + 5])
        i += 6
        for _ in range(k):
            assert t[i] == "F", t[i - 2:i + 3]
            c["fields"].append((" ".join(t[i + 1:i + 12]), t[i + 12] == "1", t[i + 13] == "1", t[i + 14]))
            i += 15
        out["classes"].append(c)
    return out


def real_class(cls, mod, midx, eidx):
    """(ngroups, [(line, defNone, defDict, name)]) as the real runtime derives them from a generated class"""
    bp = cls._betterproto

    def kind_str(c):
        if c is datetime.datetime:
            return "ts"
        if c is datetime.timedelta:
            return "dur"
        if isinstance(c, type) and issubclass(c, betterproto.Message) and c.__module__ == mod.__name__ and c.__name__ in midx:
            return "u%d" % midx[c.__name__]
        return "?%r" % (c,)

    def enum_str(c):
        if isinstance(c, type) and issubclass(c, betterproto.Enum) and c.__module__ == mod.__name__ and c.__name__ in eidx:
            return str(eidx[c.__name__])
        return "?%r" % (c,)

    groups = []
    for name in bp.meta_by_field_name:
        g = bp.oneof_group_by_field.get(name)
        if g is not None and g not in groups:
            groups.append(g)
    fields = []
    for name, meta in bp.meta_by_field_name.items():
        dg = bp.default_gen[name]
        c = bp.cls_by_field[name]
        kind, mvk, er = "u0", "u0", "-"
        mk, mv = meta.map_types if meta.map_types else ("int32", "int32")
        if meta.proto_type == "message" and not meta.wraps:
            kind = kind_str(c)
        if meta.proto_type == "map":
            vc = bp.cls_by_field[name + ".value"]
            if mv == "message":
                mvk = kind_str(vc)
            if mv == "enum":
                er = enum_str(vc)
        if meta.proto_type == "enum":
            er = enum_str(c)
        g = bp.oneof_group_by_field.get(name)
        line = "%d %s %d %d %s %s %s %s %s %s %s" % (
            meta.number, meta.proto_type, int(dg is list), int(bool(meta.optional)),
            "-" if g is None else groups.index(g), meta.wraps or "-", kind, mk, mv, mvk, er)
        fields.append((line, dg is type(None), dg is dict, name))
    return len(groups), fields


def compare_package(chk, drv, inp, where, plg_line, pred_classes, mod, msgs, enums, spec_of):
    """model `toSchema` vs the real runtime, for one generated package"""
    rep = drv.ask1(toschema_line(plg_line))
    try:
        parsed = parse_reply(rep)
    except Exception as e:  # noqa
        chk.disagree("TOSCHEMA reply unparsable", dict(inp, where=where), rep[:300], repr(e))
        return
    if parsed is None:
        return      # already reported by the PLG stage
    midx, eidx = {}, {}
    for c in pred_classes:
        d = midx if c["kind"] == "message" else eidx
        d.setdefault(c["name"], len(d))
    chk.count("schema_packages")
    chk.count("schema_packages_whole" if parsed["whole"] else "schema_packages_partial")
    if not parsed["pydsame"]:
        chk.disagree("toSchema of the pydantic variant is not toSchema + optional oneof members", dict(inp, where=where), rep[:200], "")
    for c in parsed["classes"]:
        cls = msgs.get(c["name"])
        if cls is None:
            continue
        if not c["ok"]:
            chk.count("schema_classes_unresolved")      # a reference the model cannot resolve inside the package (cross-package / bundled type)
            continue
        skip = False
        for (cn, fn), (ex, got, reg) in spec_of.items():
            if cn == c["name"] and (reg & SKIP_REGIONS or "Field(name=" in got):
                skip = True
        if skip or len([1 for x in pred_classes if x["name"] == c["name"]]) > 1:
            chk.count("schema_skipped_in_known_region")
            continue
        w = dict(inp, where="%s class %s" % (where, c["name"]))
        try:
            ng, real = real_class(cls, mod, midx, eidx)
        except BaseException as e:  # noqa
            chk.disagree("runtime metadata of the generated class unreadable", w, "%d fields" % len(c["fields"]), repr(e))
            continue
        chk.count("schema_classes")
        chk.count("schema_fields", len(real))
        if c["dom"]:
            chk.count("schema_classes_in_domain")
            if not c["agree"]:
                chk.disagree("theorem schema_faithful_partial contradicted by the model itself", w, "toSchema", "specMsgD")
        if ng != c["ngroups"]:
            chk.disagree("toSchema: number of oneof groups", w, c["ngroups"], ng)
        if [f[3] for f in real] != [f[3] for f in c["fields"]]:
            chk.disagree("toSchema: field names / order", w, [f[3] for f in c["fields"]], [f[3] for f in real])
            continue
        for (ml, mdn, mdd, name), (rl, rdn, rdd, _) in zip(c["fields"], real):
            wf = dict(inp, where="%s class %s field %s" % (where, c["name"], name))
            if ml != rl:
                chk.disagree("toSchema: FieldD", wf, ml, rl)
            if (mdn, mdd) != (rdn, rdd):
                chk.disagree("toSchema: default_gen (None / dict)", wf, (mdn, mdd), (rdn, rdd))
            # the runtime model's `FieldD.defKind` assumes: default is None iff optional or wraps (list / dict first)
            t = rl.split(" ")
            rep_, opt_, wraps_, ty_ = t[2] == "1", t[3] == "1", t[5] != "-", t[1]
            if not rep_ and ty_ != "map" and rdn != (opt_ or wraps_):
                chk.disagree("FieldD.defKind assumption (default None iff optional or wraps) violated by the real class", wf,
                             "optional=%s wraps=%s" % (opt_, wraps_), "default_gen is NoneType: %s" % rdn)
            if rdd != (ty_ == "map" and not rep_):
                chk.disagree("FieldD.defKind assumption (default dict iff map) violated by the real class", wf, ty_, "default_gen is dict: %s" % rdd)
