"""C04 — JSON / dict round trip: from_dict(to_dict(m)) and from_json(to_json(m)) give m
(equal, same bytes, same presence), to_dict(m) is json.dumps-serialisable; both key
casings, class and instance form of from_dict, dict and JSON-text path.

Also the shared JSON machinery of C05 (schema generation with cased field names, the
schema-directed canonical text of a dict, term conversion)."""
import base64
import copy
import json
import re
import struct
from datetime import datetime, timedelta, timezone

import betterproto
from betterproto import Casing
from betterproto.casing import camel_case, snake_case

import bpgen
import wirecases as W
from common import is_err
from props.c01 import presence
from props.c09 import schema_from_desc, parse_term

EPOCH = bpgen.EPOCH
US = bpgen.US
ENUM_MEMBERS = [("ZERO", 0), ("ONE", 1), ("TWO", 2), ("NEG", -5), ("BIG", 2147483647), ("MIN", -2147483648), ("ALIAS_ONE", 1)]
INT64_T = {"int64", "uint64", "sint64", "fixed64", "sfixed64"}
CASINGS = [("camel", Casing.CAMEL), ("snake", Casing.SNAKE)]

# names a generated Python field can have (outputs of pythonize_field_name); the last two are
# the D15 witnesses (safe_snake_case(camel_case(name)) != name)
GOOD_NAMES = ["foo_bar", "http_status", "ipv4_address", "a", "value2", "camel_case_name", "class_", "f0", "my_field_name",
              "x1", "data", "foo", "bar_baz", "from_", "id", "created_at", "int32_value", "ab_cd_ef"]
BAD_NAMES = ["address_line_1", "x_y_z", "a_b", "line_2_text"]
# sibling fields of ONE message whose names differ only in where the underscores are (protoc accepts them: their JSON
# names fileName / filename differ); each name alone maps back to itself
NEAR_PAIRS = [("file_name", "filename"), ("user_id", "userid"), ("a_bc", "ab_c"), ("time_stamp", "timestamp"), ("abc_d", "a_bcd")]


def hexs(b):
    return b.hex() or "-"


def enums_line():
    parts = ["JENUMS", "1", str(len(ENUM_MEMBERS))]
    for n, v in ENUM_MEMBERS:
        parts += [n.encode().hex(), n.encode().hex(), str(v)]
    return " ".join(parts)


def key_invertible(name, casing):
    k = (camel_case(name) if casing == "camel" else snake_case(name)).rstrip("_")
    return betterproto.casing.safe_snake_case(k) == name


# ---------------------------------------------------------------- generation

JSON_T = ["enum", "int64", "uint64", "sint64", "fixed64", "sfixed64", "bytes", "double", "float"]


def rename_fields(rng, schema, bad_prob=0.02):
    for m in schema:
        for f in m.fields:
            # more of the types that have a JSON encoding of their own
            if f.ty not in ("message", "map") and rng.random() < 0.35:
                f.ty = rng.choice(JSON_T)
            elif f.ty == "map" and rng.random() < 0.35:
                f.mapV = rng.choice(JSON_T)
        pool = list(GOOD_NAMES)
        rng.shuffle(pool)
        used = set()
        for f in m.fields:
            if rng.random() < bad_prob:
                cand = rng.choice(BAD_NAMES)
            elif rng.random() < 0.25:
                cand = f.name
            else:
                cand = pool.pop() if pool else f.name
            if cand in used:
                cand = f.name
            used.add(cand)
            f.name = cand
        if len(m.fields) >= 2 and rng.random() < 0.3:
            pair = rng.choice(NEAR_PAIRS)
            if not (set(pair) & used):
                i, j = rng.sample(range(len(m.fields)), 2)
                m.fields[i].name, m.fields[j].name = pair
    return schema


def canon_nan(v):
    """JSON has one NaN: replace NaN payloads by float('nan') (sign and payload of a NaN
    cannot survive any JSON text; not a property of betterproto)"""
    k = v[0]
    if k == "f32" and (v[1] >> 23) & 0xff == 0xff and v[1] & 0x7fffff:
        return ("f32", 0x7fc00000)
    if k == "f64" and (v[1] >> 52) & 0x7ff == 0x7ff and v[1] & ((1 << 52) - 1):
        return ("f64", 0x7ff8000000000000)
    if k == "l":
        return ("l", [canon_nan(x) for x in v[1]])
    if k == "D":
        return ("D", [(a, canon_nan(b)) for a, b in v[1]])
    if k == "c":
        return ("c", v[1], {i: canon_nan(x) for i, x in v[2].items()})
    return v


def has_nan_in_container(v, inside=False):
    k = v[0]
    if k in ("f32", "f64"):
        b = v[1]
        nan = ((b >> 23) & 0xff == 0xff and b & 0x7fffff) if k == "f32" else ((b >> 52) & 0x7ff == 0x7ff and b & ((1 << 52) - 1))
        return bool(nan) and inside
    if k == "l":
        return any(has_nan_in_container(x, True) for x in v[1])
    if k == "D":
        return any(has_nan_in_container(b, True) for a, b in v[1])
    if k == "c":
        return any(has_nan_in_container(x, inside) for x in v[2].values())
    return False


class JBatch:
    """one random schema (cased field names), real classes, optionally reference classes, values"""

    def __init__(self, rng, sid, nvals, with_ref=False, features=None, bad_prob=0.02):
        self.sid = sid
        # repeated wrapper fields are outside the guards of the JSON theorems (`fieldJsonOk`: "a wrapper field is singular";
        # C05.repeated_wrapper_empty_witness says what to_dict does with them): the binary checks generate them, these do not
        features = features or (bpgen.ALL_FEATURES - {"repwrapper"})
        self.schema = rename_fields(rng, bpgen.random_schema(rng, features=features), bad_prob)
        self.classes = bpgen.build_bp(self.schema)
        self.refs = bpgen.build_ref(self.schema) if with_ref else None
        self.values = []
        for _ in range(nvals):
            ci = rng.randrange(len(self.schema))
            v = bpgen.gen_msg(rng, self.schema, ci, depth=rng.choice([1, 2, 3]))
            self.values.append(canon_nan(bias_defaults(rng, self.schema, v)))

    def schema_line(self):
        return bpgen.schema_line(self.sid, self.schema)

    def describe(self):
        return [[f.line() for f in m.fields] for m in self.schema]


ZERO = {"bool": ("b", False), "float": ("f32", 0), "double": ("f64", 0), "string": ("s", b""), "bytes": ("y", b"")}


def bias_defaults(rng, schema, v):
    """more default-valued oneof / optional members and empty sub-messages"""
    if v[0] != "c":
        return v
    md = schema[v[1]]
    kw = {}
    for i, x in v[2].items():
        f = md.fields[i]
        if (f.optional or f.group is not None) and not f.repeated and f.ty != "map" and rng.random() < 0.3:
            if f.ty == "message":
                if f.wraps:
                    x = ZERO.get(f.wraps, ("i", 0))
                elif f.kind == "ts":
                    x = ("t", 0)
                elif f.kind == "dur":
                    x = ("d", 0)
                else:
                    x = ("c", int(f.kind[1:]), {})
            else:
                x = ZERO.get(f.ty, ("i", 0))
        elif x[0] == "c":
            x = bias_defaults(rng, schema, x)
        elif x[0] == "l":
            x = ("l", [bias_defaults(rng, schema, y) for y in x[1]])
        elif x[0] == "D":
            x = ("D", [(a, bias_defaults(rng, schema, b)) for a, b in x[1]])
        kw[i] = x
    return ("c", v[1], kw)


# ---------------------------------------------------------------- canonical text of a dict (see Driver/Json.lean showJV)

_TS_RE = re.compile(r"^(\d{4})-(\d\d)-(\d\d)T(\d\d):(\d\d):(\d\d)(?:\.(\d{1,9}))?Z$")
_DUR_RE = re.compile(r"^(-?)(\d+)(?:\.(\d{1,9}))?s$")


def ts_us(s):
    """microseconds since the epoch of an RFC 3339 UTC string at microsecond resolution, or None"""
    m = _TS_RE.match(s) if isinstance(s, str) else None
    if not m:
        return None
    frac = (m.group(7) or "").ljust(9, "0")
    if frac[6:] != "000":
        return None
    try:
        dt = datetime(int(m.group(1)), int(m.group(2)), int(m.group(3)), int(m.group(4)), int(m.group(5)), int(m.group(6)),
                      tzinfo=timezone.utc)
    except ValueError:
        return None
    return (dt - EPOCH) // US + int(frac[:6])


def dur_us(s):
    m = _DUR_RE.match(s) if isinstance(s, str) else None
    if not m:
        return None
    frac = (m.group(3) or "").ljust(9, "0")
    if frac[6:] != "000":
        return None
    us = int(m.group(2)) * 10**6 + int(frac[:6])
    return -us if m.group(1) else us


def f_tok(ty, x):
    if ty == "float":
        try:
            return "F32:%d" % struct.unpack("<I", struct.pack("<f", x))[0]
        except OverflowError:
            pass
    return "F64:%d" % struct.unpack("<Q", struct.pack("<d", x))[0]


def canon_raw(ty, x):
    """a Python object left in the dict as it is"""
    if x is None:
        return "N"
    if isinstance(x, bool):
        return "B%d" % int(x)
    if isinstance(x, int):
        return "I%d" % int(x)
    if isinstance(x, float):
        return f_tok(ty, x)
    if isinstance(x, str):
        return "S" + hexs(x.encode("utf-8", "surrogatepass"))
    if isinstance(x, (bytes, bytearray)):
        return "RAWy" + hexs(bytes(x))
    if isinstance(x, datetime):
        return "RAWt%d" % ((x - EPOCH) // US)
    if isinstance(x, timedelta):
        return "RAWd%d" % (x // US)
    if isinstance(x, list):
        return " ".join(["A%d" % len(x)] + [canon_raw(ty, y) for y in x])
    if isinstance(x, dict):
        return " ".join(["O%d" % len(x)] + [canon_key(k) + " " + canon_raw(ty, y) for k, y in x.items()])
    return "RAW?"


def canon_key(k):
    if isinstance(k, bool):
        return "kb%d" % int(k)
    if isinstance(k, int):
        return "ki%d" % k
    if isinstance(k, str):
        return "k" + hexs(k.encode("utf-8", "surrogatepass"))
    return "k?"


def canon_item(f, x, schema):
    """one (singular view) value of field f as it appears in a dict"""
    if x is None:
        return "N"
    if f.ty == "message":
        if f.wraps:
            return canon_scalar(f.wraps, x)
        if f.kind == "ts":
            us = ts_us(x)
            return "TS%d" % us if us is not None else canon_raw(None, x)
        if f.kind == "dur":
            us = dur_us(x)
            return "DU%d" % us if us is not None else canon_raw(None, x)
        if isinstance(x, dict):
            return canon_msg(x, schema, int(f.kind[1:]))
        return canon_raw(None, x)
    return canon_scalar(f.ty, x)


def canon_scalar(ty, x):
    if ty in INT64_T and isinstance(x, str) and re.fullmatch(r"-?\d+", x) and str(int(x)) == x:
        return "DS%d" % int(x)
    if ty == "bytes" and isinstance(x, str):
        try:
            b = base64.b64decode(x, validate=True)
            if base64.b64encode(b).decode() == x:
                return "B64" + hexs(b)
        except Exception:
            pass
    if ty in ("float", "double") and isinstance(x, str):
        k = {"Infinity": 0, "-Infinity": 1, "NaN": 2}.get(x)
        if k is not None:
            return "FS%d" % k
    return canon_raw(ty, x)


def field_for_key(md, k):
    if not isinstance(k, str):
        return None
    for f in md.fields:
        if k in (camel_case(f.name).rstrip("_"), snake_case(f.name).rstrip("_"), f.name):
            return f
    return None


def canon_field(f, v, schema):
    if f.ty == "map" and isinstance(v, dict):
        parts = ["O%d" % len(v)]
        for k, x in v.items():
            parts.append(canon_key(k))
            if f.mapV == "message" and isinstance(x, dict) and f.mapVKind.startswith("u"):
                parts.append(canon_msg(x, schema, int(f.mapVKind[1:])))
            elif f.mapV == "message" and isinstance(x, str):
                us = ts_us(x) if f.mapVKind == "ts" else dur_us(x)
                parts.append(("TS%d" if f.mapVKind == "ts" else "DU%d") % us if us is not None else canon_raw(None, x))
            elif f.mapV != "message":
                parts.append(canon_scalar(f.mapV, x))
            else:
                parts.append(canon_raw(f.mapV, x))
        return " ".join(parts)
    if f.repeated and isinstance(v, list):
        return " ".join(["A%d" % len(v)] + [canon_item(f, x, schema) for x in v])
    return canon_item(f, v, schema)


def canon_msg(d, schema, ci):
    md = schema[ci]
    parts = ["O%d" % len(d)]
    for k, v in d.items():
        f = field_for_key(md, k)
        parts.append(canon_key(k))
        parts.append(canon_field(f, v, schema) if f is not None else canon_raw(None, v))
    return " ".join(parts)


# ---------------------------------------------------------------- oracle

def record(chk, kind, inp, detail):
    """chk.fail, but at most 8 failures per known class are kept (the list is capped at 200 and a flood of
    known failures must not hide an unlisted one)"""
    fl = {"kind": kind, "input": inp, "detail": detail}
    try:
        fid = classify(fl, [e for e in chk.known if e.get("status") == "known"])
    except Exception:
        fid = None
    if fid is not None:
        chk.count("known_class_%s" % fid)
        if chk.dist["known_class_%s" % fid] > 8:
            return
    chk.fail(kind, inp, detail)


def build(v, classes):
    return bpgen.to_py(v, classes)


_BYSTANDER = []


def _bystander():
    """a message type without any field"""
    if not _BYSTANDER:
        _BYSTANDER.append(bpgen.build_bp([bpgen.M("Bystander", [])])[0])
    return _BYSTANDER[0]


def oracle(chk, b, v, casings=CASINGS):
    """the English property on the real code for one value; returns list of (casing, form, m2 or exception)"""
    ci = v[1]
    cls = b.classes[ci]
    base = {"schema": b.describe(), "value": bpgen.term(v)}
    m = build(v, b.classes)
    try:
        want_bytes = bytes(build(v, b.classes))
        want_pres = presence(build(v, b.classes), b.schema, ci)
    except Exception as e:       # not a JSON matter (C01 domain: out-of-range values are not generated)
        chk.count("skipped_encode_raises")
        return []
    reflexive = not has_nan_in_container(v)
    out = []
    for cname, casing in casings:
        inp = dict(base, casing=cname)
        try:
            d = build(v, b.classes).to_dict(casing=casing)
        except Exception as e:
            record(chk, "to-dict-raises", inp, repr(e))
            continue
        try:
            text = json.dumps(d)
        except Exception as e:
            record(chk, "not-json-serialisable", inp, "%r: %r" % (e, d))
            text = None
        # the same document is first read by OTHER message types of the process (a field-less one and the other
        # classes of the schema): unknown keys are legally ignored there, and that must not teach the runtime
        # anything about what the keys mean for THIS type
        for other in [_bystander()] + [c for j, c in enumerate(b.classes) if j != ci][:2]:
            try:
                other().from_dict(copy.deepcopy(d))
            except Exception:
                pass
        forms = [("dict-instance", lambda: cls().from_dict(copy.deepcopy(d))),
                 ("dict-class", lambda: cls.from_dict(copy.deepcopy(d)))]
        if text is not None:
            forms.append(("json-instance", lambda: cls().from_json(build(v, b.classes).to_json(casing=casing))))
        for fname, fn in forms:
            inp2 = dict(inp, form=fname)
            try:
                m2 = fn()
            except Exception as e:
                record(chk, "from-dict-raises", inp2, "%r on %r" % (e, d))
                out.append((cname, fname, e))
                continue
            out.append((cname, fname, m2))
            try:
                eq = (m2 == m) if reflexive else True
            except Exception as e:
                eq = repr(e)
            if eq is not True:
                record(chk, "not-equal-after-roundtrip", inp2, "dict=%r result=%r" % (d, m2))
            try:
                b2 = bytes(m2)
            except Exception as e:
                b2 = e
            if b2 != want_bytes:
                record(chk, "bytes-differ-after-roundtrip", inp2,
                         "dict=%r want=%s got=%s" % (d, want_bytes.hex(), b2.hex() if isinstance(b2, bytes) else repr(b2)))
                continue
            try:
                p2 = presence(m2, b.schema, ci)
            except Exception as e:
                p2 = repr(e)
            if p2 != want_pres:
                record(chk, "presence-differs-after-roundtrip", inp2, "dict=%r before=%r after=%r" % (d, want_pres, p2))
    if incl_neutral(b.schema):
        inp = dict(base, casing="camel", form="include-defaults")
        try:
            d = build(v, b.classes).to_dict(include_default_values=True)
            m2 = cls().from_dict(d)
            if reflexive and not (m2 == m):
                record(chk, "not-equal-after-roundtrip", inp, "dict=%r result=%r" % (d, m2))
            elif bytes(m2) != want_bytes:
                record(chk, "bytes-differ-after-roundtrip", inp, "dict=%r want=%s got=%s" % (d, want_bytes.hex(), bytes(m2).hex()))
        except Exception as e:
            record(chk, "from-dict-raises", inp, repr(e))
    return out


def incl_neutral(schema):
    """include_default_values writes every oneof member and every unset sub-message, which changes
    presence by design; without those kinds (and without the D17 kinds) the round trip must still hold"""
    for m in schema:
        if m.ngroups:
            return False
        for f in m.fields:
            if f.ty == "message" and not f.wraps and f.kind.startswith("u"):
                return False
            if f.ty == "map" and (f.mapK != "string" or f.mapV in ("bytes", "message")):
                return False
            if f.wraps == "bytes" or not key_invertible(f.name, "camel"):
                return False
    return True


# ---------------------------------------------------------------- correspondence

def py_ok(ty, x):
    """x has the Python type a value of proto type ty has"""
    if ty == "bool":
        return isinstance(x, bool)
    if ty in ("float", "double"):
        return isinstance(x, float)
    if ty == "string":
        return isinstance(x, str)
    if ty == "bytes":
        return isinstance(x, (bytes, bytearray))
    return isinstance(x, int) and not isinstance(x, bool)


def wrong_typed_keys(m2, schema, ci, depth=0):
    """a map / list / scalar holding values that do not have the Python type of the field (bpgen's observer
    coerces them, e.g. int("5"))"""
    if depth > 6:
        return False
    md = schema[ci]
    for f in md.fields:
        try:
            v = object.__getattribute__(m2, f.name)
        except AttributeError:
            continue
        if v is betterproto.PLACEHOLDER or v is None:
            continue
        if f.ty == "map" and isinstance(v, dict):
            want = {"string": str, "bool": bool}.get(f.mapK, int)
            for k, x in v.items():
                if type(k) is not want and not (want is int and isinstance(k, int) and not isinstance(k, bool)):
                    return True
                if f.mapV == "message" and f.mapVKind.startswith("u") and isinstance(x, betterproto.Message):
                    if wrong_typed_keys(x, schema, int(f.mapVKind[1:]), depth + 1):
                        return True
                elif f.mapV != "message" and not py_ok(f.mapV, x):
                    return True
        elif f.ty == "message" and not f.wraps and f.kind.startswith("u"):
            for x in (v if isinstance(v, list) else [v]):
                if isinstance(x, betterproto.Message) and wrong_typed_keys(x, schema, int(f.kind[1:]), depth + 1):
                    return True
        elif f.ty == "message" and f.wraps:
            if not py_ok(f.wraps, v):
                return True
        elif f.ty not in ("message", "map"):
            for x in (v if isinstance(v, list) else [v]):
                if not py_ok(f.ty, x):
                    return True
    return False


def obs_result(m2, schema, ci):
    if isinstance(m2, Exception):
        return "ERR"
    try:
        o = "*" if wrong_typed_keys(m2, schema, ci) else bpgen.obsp_msg(m2, schema, ci)
    except Exception:
        # the message was built but cannot be observed (wrong-typed values inside)
        return "UNOBSERVABLE"
    try:
        return o + " | " + hexs(bytes(m2))
    except Exception:
        return o + " | ERR"


def no_plain_submsg(schema):
    return not any(f.ty == "message" and not f.wraps and f.kind.startswith("u") and not f.repeated and not f.optional
                   for m in schema for f in m.fields)


def correspond(chk, drv, b, staged):
    """staged: list of (v, results of oracle)"""
    lines, expect = [], []
    t = [bpgen.term(v) for v, _ in staged]
    incl_ok = no_plain_submsg(b.schema)
    for (v, res), tv in zip(staged, t):
        ci = v[1]
        for cname, casing in CASINGS:
            for incl in ((0, 1) if incl_ok else (0,)):
                try:
                    d = build(v, b.classes).to_dict(casing=casing, include_default_values=bool(incl))
                    want = canon_msg(d, b.schema, ci)
                except Exception:
                    want = "ERR"
                lines.append("TODICT %s %s %d %s" % (b.sid, cname, incl, tv))
                expect.append(("to_dict", want))
        if incl_ok:
            try:
                d = build(v, b.classes).to_dict(include_default_values=True)
                jt = canon_msg(d, b.schema, ci)
                if "RAW" not in jt:
                    for form, fn in (("C", lambda: b.classes[ci].from_dict(d)), ("I", lambda: b.classes[ci]().from_dict(d))):
                        try:
                            r = fn()
                        except Exception as e:
                            r = e
                        lines.append("FROMDICT %s %d %s %s" % (b.sid, ci, form, jt))
                        expect.append(("from_dict-incl-" + form, obs_result(r, b.schema, ci)))
            except Exception:
                pass
        for cname, fname, m2 in res:
            form = "I" if fname.endswith("instance") else "C"
            path = "T" if fname.startswith("json") else "D"
            lines.append("JRT %s %s %s %s %s" % (b.sid, cname, form, path, tv))
            expect.append(("roundtrip-" + fname, obs_result(m2, b.schema, ci)))
    replies = drv.ask(lines)
    for ln, (what, want), got in zip(lines, expect, replies):
        if want == "UNOBSERVABLE":
            chk.count("corr_unobservable")
            continue
        if want.startswith("* | "):
            chk.count("corr_bytes_only")
            got = "* | " + got.split(" | ", 1)[-1]
        if want == "ERR":
            ok = is_err(got)
        elif want.endswith(" | ERR"):
            ok = got.startswith(want) and is_err(got[len(want) - 3:])
        else:
            ok = got == want
        if not ok:
            chk.disagree(what, {"schema": b.schema_line(), "line": ln}, got, want)


def domain(chk, drv, b, vals):
    """in-domain accounting: schema guard per casing, value guard"""
    lines = ["WF JSONOK %s camel" % b.sid, "WF JSONOK %s snake" % b.sid] + ["WF WT %s %s" % (b.sid, bpgen.term(v)) for v in vals]
    r = drv.ask(lines)
    return {"camel": r[0] == "1", "snake": r[1] == "1"}, [x == "1" for x in r[2:]]


def one_batch(chk, drv, b):
    if drv:
        assert drv.ask1(b.schema_line()) == "ok"
        okS, okV = domain(chk, drv, b, b.values)
    else:
        okS, okV = {"camel": False, "snake": False}, [False] * len(b.values)
    staged = []
    for v, wt in zip(b.values, okV):
        before = len(chk.oracle_failures)
        res = oracle(chk, b, v)
        chk.case(b.schema_line() + "|" + bpgen.term(v), not W.is_trivial(v), {"value": bpgen.term(v)})
        for cname in ("camel", "snake"):
            chk.count("in_domain_%s" % cname if (okS[cname] and wt) else "out_of_domain_%s" % cname)
        # a failure inside the domain of the theorem would mean the statement is wrong
        for fl in chk.oracle_failures[before:]:
            if wt and okS.get(fl["input"].get("casing"), False):
                fl["in_domain"] = True
        staged.append((v, res))
    if drv and staged:
        correspond(chk, drv, b, staged)
    inplace_stage(chk, drv, b)


def inplace_stage(chk, drv, b):
    """messages built by Cls() and filled IN PLACE (m.sub.x = 1, m.items.append(x), m.table[k] = v): the holders are
    not marked `serialized_on_wire`, yet bytes(m) carries the content — and so must the dict (D46)"""
    from props.c09 import fill_inplace
    lines, wants = [], []
    for v in b.values[:6]:
        ci = v[1]
        cls = b.classes[ci]
        try:
            m = cls()
            t = fill_inplace(m, b, ci, v, chk.rng)
            want_bytes = bytes(m)
        except Exception as e:
            chk.count("inplace_skipped_" + type(e).__name__)
            continue
        if not want_bytes:
            continue
        base = {"schema": b.describe(), "built_in_place": t, "value": bpgen.term(v)}
        chk.case(b.schema_line() + "|inplace|" + t, True, {"built_in_place": t[:200]})
        chk.count("inplace_roundtrips")
        for cname, casing in CASINGS:
            inp = dict(base, casing=cname)
            try:
                d = m.to_dict(casing=casing)
                m2 = cls().from_dict(copy.deepcopy(d))
                b2 = bytes(m2)
            except Exception as e:
                record(chk, "from-dict-raises", dict(inp, form="dict-instance"), repr(e))
                continue
            if b2 != want_bytes:
                record(chk, "bytes-differ-after-roundtrip", dict(inp, form="dict-instance"),
                       "dict=%r want=%s got=%s" % (d, want_bytes.hex(), b2.hex()))
            if drv:
                try:
                    lines.append("TODICT %s %s 0 %s" % (b.sid, cname, t))
                    wants.append(canon_msg(d, b.schema, ci))
                except Exception:
                    lines.pop() if len(lines) > len(wants) else None
    if drv and lines:
        for ln, got, want in zip(lines, drv.ask(lines), wants):
            if got != want:
                chk.disagree("to_dict-inplace", {"schema": b.schema_line(), "line": ln}, got, want)


def run(chk, drv):
    quick = chk.tier == "quick"
    chk.extra["rule"] = (
        "bpgen random schemas over all field kinds x cardinalities (oneof, proto3 optional, wrappers, Timestamp/Duration, maps of "
        "every key/value kind, recursive / repeated messages) with field names drawn from realistic snake_case names (8% from the D15 "
        "non-invertible ones); values through the constructor, biased to 64-bit limits, non-finite floats, empty / non-BMP strings, bytes, "
        "undefined enum numbers, datetime / timedelta extremes, and (30%) default-valued oneof / optional members; NaN payloads are "
        "canonicalised (JSON has one NaN). Each value: to_dict in both casings, json.dumps, three from_dict forms, ==, bytes, presence; "
        "model toDict compared with the canonical text of the real dict (also with include_default_values where modelled), model "
        "round trip compared through obsp + bytes. non-trivial = at least one constructor argument; distinct by (schema, value)")
    chk.extra["partial"] = ("nested / repeated / map message values: the round-trip theorem is proved for flat messages "
                            "(json_roundtrip_flat_partial) and stated for nested ones through the per-field lemma; see docs/C04-notes.md")
    if drv:
        assert drv.ask1(enums_line()) == "ok"
    nb = 160 if quick else 1500
    for bi in range(nb):
        b = JBatch(chk.rng, "j%d" % bi, 10)
        W.count_features(chk, b)
        one_batch(chk, drv, b)


# ---------------------------------------------------------------- known findings

def _mk(fields, ngroups=0):
    schema = [bpgen.M("M0", fields, ngroups)]
    return schema, bpgen.build_bp(schema)


def _fails(schema, classes, v, casings=CASINGS):
    import common
    c = common.Check("C04", "quick", 0)

    class B:
        pass
    b = B()
    b.schema, b.classes = schema, classes
    b.describe = lambda: [[f.line() for f in m.fields] for m in schema]
    oracle(c, b, v, casings)
    return c.oracle_failures


def _unmarked_submessage():
    """D46 (fixed): m = Outer(); m.a.b.x = 1 — bytes(m) has the content, the dict must too"""
    schema = [bpgen.M("M0", [bpgen.F("a", 1, "message", kind="u1")]),
              bpgen.M("M1", [bpgen.F("b", 1, "message", kind="u2"), bpgen.F("items", 2, "int32", repeated=True)]),
              bpgen.M("M2", [bpgen.F("x", 1, "int32")])]
    O, B, C = bpgen.build_bp(schema)
    m = O()
    m.a.b.x = 1
    m2 = O()
    m2.a.items.append(1)
    return any(bytes(O().from_dict(k.to_dict())) != bytes(k) for k in (m, m2))


WITNESSES = {
    "unmarked-submessage": _unmarked_submessage,
    "key-not-invertible:camel": lambda: _fails(*_mk([bpgen.F("x_y_z", 1, "int32")]), ("c", 0, {0: ("i", 5)})),
    # D15: camelCase key of `address_line_1` is mapped back to another field name
    "key-casing": lambda: _fails(*_mk([bpgen.F("address_line_1", 1, "int32")]), ("c", 0, {0: ("i", 5)})),
    # D17: int / bool map keys are strings after JSON text
    "map-int-key": lambda: _fails(*_mk([bpgen.F("m", 1, "map", mapK="int32", mapV="int32")]), ("c", 0, {0: ("D", [(("i", 1), ("i", 2))])})),
    "map-bool-key": lambda: _fails(*_mk([bpgen.F("m", 1, "map", mapK="bool", mapV="int32")]), ("c", 0, {0: ("D", [(("b", True), ("i", 2))])})),
    # D17: bytes / Timestamp / Duration map values and bytes wrappers are put into the dict raw
    "map-bytes-value": lambda: _fails(*_mk([bpgen.F("m", 1, "map", mapK="string", mapV="bytes")]), ("c", 0, {0: ("D", [(("s", b"k"), ("y", b"\x01"))])})),
    "map-ts-value": lambda: _fails(*_mk([bpgen.F("m", 1, "map", mapK="string", mapV="message", mapVKind="ts")]), ("c", 0, {0: ("D", [(("s", b"k"), ("t", 5))])})),
    "map-dur-value": lambda: _fails(*_mk([bpgen.F("m", 1, "map", mapK="string", mapV="message", mapVKind="dur")]), ("c", 0, {0: ("D", [(("s", b"k"), ("d", 5))])})),
    "bytes-wrapper": lambda: _fails(*_mk([bpgen.F("w", 1, "message", wraps="bytes")]), ("c", 0, {0: ("y", b"\x01")})),
    # D27 (fixed): proto3-optional message / Timestamp / Duration set to its default
    "optional-default-message": lambda: _fails(*(lambda s: (s, bpgen.build_bp(s)))(
        [bpgen.M("M0", [bpgen.F("om", 1, "message", kind="u1", optional=True)]), bpgen.M("M1", [bpgen.F("x", 1, "int32")])]),
        ("c", 0, {0: ("c", 1, {})})),
    "optional-default-timestamp": lambda: _fails(*_mk([bpgen.F("ots", 1, "message", kind="ts", optional=True)]), ("c", 0, {0: ("t", 0)})),
    "optional-default-duration": lambda: _fails(*_mk([bpgen.F("od", 1, "message", kind="dur", optional=True)]), ("c", 0, {0: ("d", 0)})),
}


def replay_known(chk, entry):
    w = entry.get("witness") or {}
    kinds = w.get("kinds") or ([w["kind"]] if "kind" in w else [])
    if not kinds or any(k not in WITNESSES for k in kinds):
        return False
    return any(bool(WITNESSES[k]()) for k in kinds)


def _features(inp):
    """features of a failing input used by the narrow classes"""
    schema = schema_from_desc(inp["schema"])
    v = parse_term(inp["value"].split())[0]
    feats = set()

    def walk(v):
        md = schema[v[1]]
        for i, x in v[2].items():
            f = md.fields[i]
            if not key_invertible(f.name, "camel"):
                feats.add("bad-name")
            if f.ty == "map" and x[1]:
                if f.mapK != "string":
                    feats.add("map-nonstring-key")
                if f.mapV == "bytes":
                    feats.add("map-bytes-value")
                if f.mapV == "message" and f.mapVKind in ("ts", "dur"):
                    feats.add("map-wkt-value")
                if f.mapV == "message" and f.mapVKind.startswith("u"):
                    for _, y in x[1]:
                        walk(y)
            if f.ty == "message" and f.wraps == "bytes":
                feats.add("bytes-wrapper")
            if x[0] == "c":
                walk(x)
            if x[0] == "l":
                for y in x[1]:
                    if y[0] == "c":
                        walk(y)
    walk(v)
    return feats


def classify(failure, known):
    inp = failure.get("input") or {}
    if "schema" not in inp or "value" not in inp:
        return None
    ids = {e["id"]: e for e in known}
    try:
        feats = _features(inp)
    except Exception:
        return None
    kind = failure["kind"]
    roundtrip = kind in ("not-equal-after-roundtrip", "bytes-differ-after-roundtrip", "presence-differs-after-roundtrip")
    if "D15" in ids and roundtrip and inp.get("casing") == "camel" and "bad-name" in feats:
        return "D15"
    if "D17" in ids:
        if kind == "not-json-serialisable" and feats & {"map-bytes-value", "map-wkt-value", "bytes-wrapper"}:
            return "D17"
        if kind == "from-dict-raises" and "map-wkt-value" in feats:
            return "D17"
        if (roundtrip or kind == "from-dict-raises") and inp.get("form", "").startswith("json") and "map-nonstring-key" in feats:
            return "D17"
    return None


def search(chk):
    for bi in range(400):
        b = JBatch(chk.rng, "x%d" % bi, 10)
        for v in b.values:
            oracle(chk, b, v)
        if any(classify(fl, [e for e in chk.known if e.get("status") == "known"]) is None for fl in chk.oracle_failures):
            return


def replay(chk, rp):
    inp = (rp.get("failure") or {}).get("input") or {}
    if "value" in inp and "schema" in inp:
        schema = schema_from_desc(inp["schema"])
        classes = bpgen.build_bp(schema)
        v = parse_term(inp["value"].split())[0]
        casings = [c for c in CASINGS if c[0] == inp.get("casing")] or CASINGS
        return bool(_fails(schema, classes, v, casings))
    return True
