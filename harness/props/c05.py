"""C05 — JSON follows the canonical proto3 JSON mapping: the JSON betterproto emits is accepted
by google.protobuf.json_format.Parse for the same schema and yields the same message; the JSON
json_format.MessageToJson emits is accepted by from_json and yields the same message; keys are
the lowerCamelCase JSON names."""
import json
import sys

import betterproto
from google.protobuf import json_format

import bpgen
import wirecases as W
from common import is_err
from props import c04
from props.c04 import JBatch, canon_msg, canon_key, hexs, key_invertible, record as _record4
from props.c09 import schema_from_desc, parse_term

INT64_T = c04.INT64_T


def record(chk, kind, inp, detail):
    fl = {"kind": kind, "input": inp, "detail": detail}
    try:
        fid = classify(fl, [e for e in chk.known if e.get("status") == "known"])
    except Exception:
        fid = None
    if fid is not None:
        chk.count("known_class_%s" % fid)
        if chk.dist["known_class_%s" % fid] > 8:
            return
    chk.fail(kind, inp, detail)


# ---------------------------------------------------------------- order-insensitive canonical text

def parse_canon(toks, i=0):
    t = toks[i]
    if t[0] == "A" and t[1:].isdigit():
        n, i, xs = int(t[1:]), i + 1, []
        for _ in range(n):
            x, i = parse_canon(toks, i)
            xs.append(x)
        return ("A", xs), i
    if t[0] == "O" and t[1:].isdigit():
        n, i, kv = int(t[1:]), i + 1, []
        for _ in range(n):
            k = toks[i]
            x, i = parse_canon(toks, i + 1)
            kv.append((k, x))
        return ("O", sorted(kv, key=lambda p: p[0])), i
    return t, i + 1


def sort_canon(text):
    try:
        return repr(parse_canon(text.split())[0])
    except Exception:
        return text


# ---------------------------------------------------------------- oracle

def ref_of(b, v):
    """the reference message for the value: parsed from betterproto's bytes (C02 ties the two)"""
    ci = v[1]
    m = bpgen.to_py(v, b.classes)
    data = bytes(m)
    r = b.refs[ci]()
    r.ParseFromString(data)
    return m, data, r


def json_names(refcls):
    return {fd.json_name for fd in refcls.DESCRIPTOR.fields}


def oracle(chk, b, v):
    ci = v[1]
    cls, refcls = b.classes[ci], b.refs[ci]
    inp = {"schema": b.describe(), "value": bpgen.term(v)}
    try:
        m, data, ref = ref_of(b, v)
    except Exception:
        chk.count("skipped_encode_raises")
        return None
    want = ref.SerializeToString(deterministic=True)
    # (a) betterproto JSON -> reference parser
    text = None
    try:
        text = bpgen.to_py(v, b.classes).to_json()
    except Exception as e:
        record(chk, "to-json-raises", inp, repr(e))
    if text is not None:
        try:
            json.loads(text, parse_constant=lambda c: (_ for _ in ()).throw(ValueError("non-standard JSON constant " + c)))
        except ValueError as e:
            record(chk, "not-standard-json", inp, "%s in %s" % (e, text))
        r2 = refcls()
        try:
            json_format.Parse(text, r2)
            got = r2.SerializeToString(deterministic=True)
            if got != want:
                record(chk, "reference-reads-different-message", inp, "json=%s want=%s got=%s" % (text, want.hex(), got.hex()))
        except Exception as e:
            record(chk, "reference-rejects", inp, "json=%s: %r" % (text, e))
        try:
            keys = set(json.loads(text).keys())
            extra = keys - json_names(refcls)
            if extra:
                record(chk, "key-not-json-name", inp, "keys %r are not JSON names %r" % (sorted(extra), sorted(json_names(refcls))))
        except Exception:
            pass
    # (a') the emitted dict is the canonical one: same members, same JSON types (64-bit ints and non-finite
    # floats as strings, bytes base64, enum names, RFC 3339 / seconds strings) as the reference printer's
    try:
        d = bpgen.to_py(v, b.classes).to_dict()
        mine = sort_canon(canon_msg(d, b.schema, ci))
        theirs = sort_canon(canon_msg(json_format.MessageToDict(ref), b.schema, ci))
        if mine != theirs:
            record(chk, "not-canonical", inp, "to_dict=%r reference=%r" % (d, json_format.MessageToDict(ref)))
    except Exception:
        pass
    # (b) reference JSON -> betterproto
    try:
        text2 = json_format.MessageToJson(ref)
    except Exception as e:
        chk.count("skipped_reference_cannot_print")
        return text
    try:
        m2 = cls().from_json(text2)
    except Exception as e:
        record(chk, "rejects-reference-json", inp, "json=%s: %r" % (text2, e))
        return text
    try:
        b2 = bytes(m2)
    except Exception as e:
        b2 = e
    if isinstance(b2, bytes):
        # map entries may come in another order: compare through the reference's deterministic form
        try:
            r3 = refcls()
            r3.ParseFromString(b2)
            if r3.SerializeToString(deterministic=True) == want:
                b2 = data
        except Exception:
            pass
    if b2 != data:
        record(chk, "reads-reference-json-differently", inp,
               "json=%s want=%s got=%s" % (text2, data.hex(), b2.hex() if isinstance(b2, bytes) else repr(b2)))
    return text


# ---------------------------------------------------------------- correspondence

def correspond(chk, drv, b, vals):
    lines, expect = [], []
    for v in vals:
        ci = v[1]
        tv = bpgen.term(v)
        try:
            m, data, ref = ref_of(b, v)
            rd = json_format.MessageToDict(ref)
            text2 = json_format.MessageToJson(ref)
        except Exception:
            continue
        # the spec model against the reference printer (the reference message is read from betterproto's
        # bytes, which already lack an implicit-presence -0.0: D25 belongs to C02, such values are skipped here)
        if " f64 9223372036854775808" in " " + tv or " f32 2147483648" in " " + tv:
            chk.count("spec_skipped_negative_zero")
        else:
            lines.append("SPECJSON %s %s" % (b.sid, tv))
            expect.append(("specJson-vs-reference", "SORT " + canon_msg(rd, b.schema, ci)))
        # the from_dict model on reference-shaped input
        jt = canon_msg(json.loads(text2), b.schema, ci)
        if "RAW" in jt:
            continue
        try:
            r = b.classes[ci]().from_json(text2)
        except Exception as e:
            r = e
        lines.append("FROMDICT %s %d I %s" % (b.sid, ci, jt))
        expect.append(("from_json-of-reference-json", c04.obs_result(r, b.schema, ci)))
    replies = drv.ask(lines)
    for ln, (what, want), got in zip(lines, expect, replies):
        if want == "UNOBSERVABLE":
            continue
        if got.endswith("ERR notImpl"):
            chk.count("corr_outside_model")      # an abstract string (base64 / decimal text) in a raw position
            continue
        if want.startswith("SORT "):
            ok = sort_canon(got) == sort_canon(want[5:])
        else:
            if want.startswith("* | "):
                got = "* | " + got.split(" | ", 1)[-1]
            if want == "ERR":
                ok = is_err(got)
            elif want.endswith(" | ERR"):
                ok = got.startswith(want[:-3]) and is_err(got[len(want) - 3:])
            else:
                ok = got == want
        if not ok:
            chk.disagree(what, {"schema": b.schema_line(), "line": ln}, got, want)


_TWO = []


def two_enum_classes():
    """one message type whose fields use TWO DIFFERENT enum types with overlapping numbers (the generated schemas of
    bpgen share a single enum type); value names equal the Python member names, so D16 does not interfere"""
    if _TWO:
        return _TWO[0]
    import dataclasses
    from typing import List
    from google.protobuf import descriptor_pb2, descriptor_pool, message_factory

    class EnumA(betterproto.Enum):
        A0 = 0
        A1 = 1
        A2 = 2
        NEG = -1

    class EnumB(betterproto.Enum):
        B0 = 0
        X = 1
        Y = 2
        Z = 5

    ns = {"EnumA": EnumA, "EnumB": EnumB, "List": List}
    M = dataclasses.make_dataclass("TwoEnums", [
        ("a", "EnumA", betterproto.enum_field(1)), ("ra", "List[EnumA]", betterproto.enum_field(2)),
        ("b", "EnumB", betterproto.enum_field(3)), ("rb", "List[EnumB]", betterproto.enum_field(4)),
        ("a2", "EnumA", betterproto.enum_field(5))], bases=(betterproto.Message,), eq=False, repr=False)
    mod = __import__("types").ModuleType("c05_two_enums")
    mod.__dict__.update(ns)
    mod.TwoEnums = M
    sys.modules["c05_two_enums"] = mod
    M.__module__ = "c05_two_enums"
    fdp = descriptor_pb2.FileDescriptorProto()
    fdp.name, fdp.package, fdp.syntax = "c05_two_enums.proto", "c05two", "proto3"
    for ename, E in (("EnumA", EnumA), ("EnumB", EnumB)):
        en = fdp.enum_type.add()
        en.name = ename
        for mem in E:
            ev = en.value.add()
            ev.name, ev.number = mem.name, int(mem)
    dp = fdp.message_type.add()
    dp.name = "TwoEnums"
    for name, num, rep, ety in (("a", 1, 0, "EnumA"), ("ra", 2, 1, "EnumA"), ("b", 3, 0, "EnumB"), ("rb", 4, 1, "EnumB"), ("a2", 5, 0, "EnumA")):
        fd = dp.field.add()
        fd.name, fd.number, fd.label, fd.type, fd.type_name = name, num, 3 if rep else 1, 14, ".c05two." + ety
    pool = descriptor_pool.DescriptorPool()
    pool.Add(fdp)
    R = message_factory.GetMessageClass(pool.FindMessageTypeByName("c05two.TwoEnums"))
    _TWO.append((M, R, EnumA, EnumB))
    return _TWO[0]


def two_enum_stage(chk):
    """C05 for a message with fields of two different enum types: names written / accepted are those of the FIELD's own enum"""
    M, R, EnumA, EnumB = two_enum_classes()
    rng = chk.rng
    na, nb = [0, 1, 2, -1, 7], [0, 1, 2, 5, 9]
    combos = [(a, b) for a in na for b in nb]
    for a, bb in combos:
        ra = [rng.choice(na) for _ in range(rng.choice([0, 1, 3]))]
        rb = [rng.choice(nb) for _ in range(rng.choice([0, 1, 3]))]
        a2 = rng.choice(na)
        inp = {"stage": "two-enum-types", "a": a, "ra": ra, "b": bb, "rb": rb, "a2": a2}
        chk.case("two-enums %r" % (inp,), True, inp)
        chk.count("two_enum_types")
        m = M(a=EnumA.try_value(a), ra=[EnumA.try_value(x) for x in ra], b=EnumB.try_value(bb), rb=[EnumB.try_value(x) for x in rb],
              a2=EnumA.try_value(a2))
        r = R(a=a, ra=ra, b=bb, rb=rb, a2=a2)
        try:
            ours = json.loads(m.to_json())
            theirs = json_format.MessageToDict(r)
        except Exception as e:
            chk.fail("to-json-raises", inp, repr(e))
            continue
        if ours != theirs:
            chk.fail("enum-json-differs-from-reference", inp, "betterproto %r reference %r" % (ours, theirs))
            continue
        try:
            got = json_format.Parse(m.to_json(), R())
            if got != r:
                chk.fail("reference-reads-other-message", inp, "%r" % (json_format.MessageToDict(got),))
        except Exception as e:
            chk.fail("reference-rejects-json", inp, repr(e))
        try:
            back = M().from_json(json_format.MessageToJson(r))
            if bytes(back) != r.SerializeToString():
                chk.fail("from-reference-json-differs", inp, "%s vs %s" % (bytes(back).hex(), r.SerializeToString().hex()))
        except Exception as e:
            chk.fail("from-reference-json-raises", inp, repr(e))


def run(chk, drv):
    quick = chk.tier == "quick"
    two_enum_stage(chk)
    chk.extra["rule"] = (
        "a message with fields of two different enum types (all number pairs incl. undefined numbers) against the reference; then the C04 generator (bpgen schemas with cased field names and JSON-relevant scalar types, values biased to 64-bit limits, "
        "non-finite floats, -0.0, bytes, undefined enum numbers, datetime / timedelta extremes at microsecond resolution, default-valued "
        "oneof / optional members) with the google.protobuf dynamic classes of the same schema. Each value: to_json -> json_format.Parse "
        "-> serialised message compared with the reference parse of bytes(m); MessageToJson -> from_json -> bytes compared; keys checked "
        "against the descriptors' json_name; output must be standard JSON (no NaN / Infinity literals). Correspondence: the Lean specJson "
        "against MessageToDict (order-insensitive), the from_dict model on the reference's JSON. non-trivial = at least one constructor argument")
    chk.extra["partial"] = ("the canonical-mapping theorem is proved at leaf level for every scalar type and evaluated on concrete "
                            "flat and nested messages; the general message-level induction is not proved (docs/C05-notes.md)")
    if drv:
        assert drv.ask1(c04.enums_line()) == "ok"
    nb = 140 if quick else 1400
    for bi in range(nb):
        b = JBatch(chk.rng, "k%d" % bi, 10, with_ref=True)
        W.count_features(chk, b)
        if drv:
            assert drv.ask1(b.schema_line()) == "ok"
            ok5 = drv.ask1("WF JSONOK5 %s" % b.sid) == "1"
        else:
            ok5 = False
        for v in b.values:
            before = len(chk.oracle_failures)
            oracle(chk, b, v)
            chk.case(b.schema_line() + "|" + bpgen.term(v), not W.is_trivial(v), {"value": bpgen.term(v)})
            chk.count("schema_in_JsonOk5" if ok5 else "schema_outside_JsonOk5")
        if drv:
            correspond(chk, drv, b, b.values)


# ---------------------------------------------------------------- known findings

def _mk(fields, ngroups=0):
    schema = [bpgen.M("M0", fields, ngroups)]

    class B:
        pass
    b = B()
    b.schema, b.classes, b.refs = schema, bpgen.build_bp(schema), bpgen.build_ref(schema)
    b.describe = lambda: [[f.line() for f in m.fields] for m in schema]
    return b


def _fails(b, v):
    import common
    c = common.Check("C05", "quick", 0)
    c.known = []
    oracle(c, b, v)
    return c.oracle_failures


def _d16():
    """plugin output for `enum Color { COLOR_RED = 0; COLOR_BLUE = 1; }` has members RED / BLUE"""
    import dataclasses
    from google.protobuf import descriptor_pb2, descriptor_pool, message_factory

    class Color(betterproto.Enum):
        RED = 0
        BLUE = 1

    @dataclasses.dataclass(eq=False, repr=False)
    class M(betterproto.Message):
        c: Color = betterproto.enum_field(1)

    fdp = descriptor_pb2.FileDescriptorProto()
    fdp.name, fdp.package, fdp.syntax = "d16_%d.proto" % id(M), "d16p%d" % id(M), "proto3"
    en = fdp.enum_type.add()
    en.name = "Color"
    for n, x in (("COLOR_RED", 0), ("COLOR_BLUE", 1)):
        ev = en.value.add()
        ev.name, ev.number = n, x
    dp = fdp.message_type.add()
    dp.name = "M"
    fd = dp.field.add()
    fd.name, fd.number, fd.label, fd.type, fd.type_name = "c", 1, 1, 14, ".%s.Color" % fdp.package
    pool = descriptor_pool.DescriptorPool()
    pool.Add(fdp)
    R = message_factory.GetMessageClass(pool.FindMessageTypeByName(fdp.package + ".M"))
    fails = []
    try:
        json_format.Parse(M(c=Color.BLUE).to_json(), R())
    except Exception as e:
        fails.append("reference-rejects %r" % e)
    try:
        M().from_json(json_format.MessageToJson(R(c=1)))
    except Exception as e:
        fails.append("rejects-reference-json %r" % e)
    return fails


WITNESSES = {
    "key-not-invertible:camel": lambda: _fails(_mk([bpgen.F("address_line_1", 1, "int32")]), ("c", 0, {0: ("i", 5)})),
    "enum-prefix-stripped": _d16,
    "map-int64-value": lambda: _fails(_mk([bpgen.F("m", 1, "map", mapK="string", mapV="int64")]), ("c", 0, {0: ("D", [(("s", b"k"), ("i", 5))])})),
    "map-enum-value": lambda: _fails(_mk([bpgen.F("m", 1, "map", mapK="string", mapV="enum")]), ("c", 0, {0: ("D", [(("s", b"k"), ("i", 1))])})),
    "map-int-key": lambda: _fails(_mk([bpgen.F("m", 1, "map", mapK="int32", mapV="int32")]), ("c", 0, {0: ("D", [(("i", 1), ("i", 2))])})),
    "map-double-nan": lambda: _fails(_mk([bpgen.F("m", 1, "map", mapK="string", mapV="double")]), ("c", 0, {0: ("D", [(("s", b"k"), ("f64", 0x7ff8000000000000))])})),
    "map-bytes-value": lambda: _fails(_mk([bpgen.F("m", 1, "map", mapK="string", mapV="bytes")]), ("c", 0, {0: ("D", [(("s", b"k"), ("y", b"\x01"))])})),
    "map-ts-value": lambda: _fails(_mk([bpgen.F("m", 1, "map", mapK="string", mapV="message", mapVKind="ts")]), ("c", 0, {0: ("D", [(("s", b"k"), ("t", 5))])})),
    "int64-wrapper": lambda: _fails(_mk([bpgen.F("w", 1, "message", wraps="int64")]), ("c", 0, {0: ("i", 5)})),
    "bytes-wrapper": lambda: _fails(_mk([bpgen.F("w", 1, "message", wraps="bytes")]), ("c", 0, {0: ("y", b"\x01")})),
    "double-wrapper-nan": lambda: _fails(_mk([bpgen.F("w", 1, "message", wraps="double")]), ("c", 0, {0: ("f64", 0x7ff8000000000000)})),
    "negative-zero": lambda: _fails(_mk([bpgen.F("x", 1, "double")]), ("c", 0, {0: ("f64", 0x8000000000000000)})),
}


def replay_known(chk, entry):
    w = entry.get("witness") or {}
    kinds = w.get("kinds") or ([w["kind"]] if "kind" in w else [])
    kinds = [k for k in kinds if k in WITNESSES]
    if not kinds:
        return False
    return any(bool(WITNESSES[k]()) for k in kinds)


def _features(inp):
    schema = schema_from_desc(inp["schema"])
    v = parse_term(inp["value"].split())[0]
    feats = set()

    def negzero(x):
        return (x[0] == "f64" and x[1] == 0x8000000000000000) or (x[0] == "f32" and x[1] == 0x80000000)

    def walk(v):
        md = schema[v[1]]
        for i, x in v[2].items():
            f = md.fields[i]
            if not key_invertible(f.name, "camel"):
                feats.add("bad-name")
            if f.ty == "map" and x[1]:
                if f.mapK != "string":
                    feats.add("map-raw")
                if f.mapV in INT64_T or f.mapV in ("enum", "float", "double", "bytes"):
                    feats.add("map-raw")
                if f.mapV == "message" and f.mapVKind in ("ts", "dur"):
                    feats.add("map-raw")
                if f.mapV == "message" and f.mapVKind.startswith("u"):
                    for _, y in x[1]:
                        walk(y)
            if f.ty == "message" and f.wraps in ("int64", "uint64", "bytes", "float", "double"):
                feats.add("wrapper-raw")
            if f.ty in ("float", "double") and not f.repeated and not f.optional and f.group is None and negzero(x):
                feats.add("negative-zero")
            if x[0] == "c":
                walk(x)
            if x[0] == "l":
                for y in x[1]:
                    if y[0] == "c":
                        walk(y)
    walk(v)
    return feats


def classify(failure, known):
    inp = failure.get("input") or {}
    if "schema" not in inp or "value" not in inp:
        return None
    ids = {e["id"] for e in known}
    try:
        feats = _features(inp)
    except Exception:
        return None
    kind = failure["kind"]
    to_bp = kind in ("rejects-reference-json", "reads-reference-json-differently")
    to_ref = kind in ("to-json-raises", "not-standard-json", "reference-rejects", "reference-reads-different-message", "not-canonical")
    if "D17" in ids and (to_bp or to_ref) and feats & {"map-raw", "wrapper-raw"}:
        return "D17"
    if "D15" in ids and to_bp and "bad-name" in feats:
        return "D15"
    if "D25" in ids and kind == "reference-reads-different-message" and "negative-zero" in feats:
        return "D25"
    return None


def search(chk):
    for bi in range(300):
        b = JBatch(chk.rng, "y%d" % bi, 10, with_ref=True)
        for v in b.values:
            oracle(chk, b, v)
        if any(classify(fl, [e for e in chk.known if e.get("status") == "known"]) is None for fl in chk.oracle_failures):
            return


def replay(chk, rp):
    inp = (rp.get("failure") or {}).get("input") or {}
    if "value" in inp and "schema" in inp:
        schema = schema_from_desc(inp["schema"])

        class B:
            pass
        b = B()
        b.schema, b.classes, b.refs = schema, bpgen.build_bp(schema), bpgen.build_ref(schema)
        b.describe = lambda: inp["schema"]
        v = parse_term(inp["value"].split())[0]
        return bool(_fails(b, v))
    return True
