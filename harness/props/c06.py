"""C06 — proto3 defaults and field presence are encoded and recovered correctly."""
import betterproto
import bpgen
import wirecases as W
import wiresplit as WS
from common import is_err
from props.c09 import schema_from_desc

DEFAULT = {"bool": ("b", False), "float": ("f32", 0), "double": ("f64", 0), "string": ("s", b""), "bytes": ("y", b"")}


def default_of(f):
    t = f.wraps or f.ty
    return DEFAULT.get(t, ("i", 0))


def explicit(f):
    return f.optional or f.group is not None or bool(f.wraps)


def ref_presence(ref_cls, data, md):
    """HasField / WhichOneof as the reference reports them for the same bytes"""
    r = ref_cls.FromString(data)
    out = {}
    for f in md.fields:
        if f.repeated or f.ty == "map":
            continue
        if f.group is not None:
            out[f.name] = r.WhichOneof("g%d" % f.group) == f.name
        elif f.optional or f.ty == "message":
            out[f.name] = r.HasField(f.name)
    return out


def bp_presence(m, md):
    out = {}
    names = [f.name for f in md.fields]
    for f in md.fields:
        if f.repeated or f.ty == "map":
            continue
        if f.group is not None:
            out[f.name] = betterproto.which_one_of(m, "g%d" % f.group)[0] == f.name
        elif f.optional or f.wraps:
            out[f.name] = m.is_set(f.name) and getattr(m, f.name) is not None if f.wraps else m.is_set(f.name)
        elif f.ty == "message":
            if f.kind.startswith("u"):
                out[f.name] = m.is_set(f.name) and betterproto.serialized_on_wire(getattr(m, f.name))
            else:
                out[f.name] = m.is_set(f.name)      # plain Timestamp/Duration: is_set right after decoding
    return out


def deep_read(m, depth):
    """read (never assign) every attribute, down through unset sub-messages, list items and map values"""
    import dataclasses
    for fld in dataclasses.fields(m):
        try:
            v = getattr(m, fld.name)
        except AttributeError:
            continue
        if depth <= 0:
            continue
        if isinstance(v, betterproto.Message):
            deep_read(v, depth - 1)
        elif isinstance(v, list):
            for x in v:
                if isinstance(x, betterproto.Message):
                    deep_read(x, depth - 1)
        elif isinstance(v, dict):
            for x in v.values():
                if isinstance(x, betterproto.Message):
                    deep_read(x, depth - 1)


def reads_are_not_writes(chk, rng, b, ci, inp0):
    """presence is changed by assignment and by decoding, never by looking: after reading every path
    (to depth 3, through unset sub-messages) the bytes, and so HasField / WhichOneof of the reference on
    them, and serialized_on_wire of every plain sub-message are what they were"""
    cls, md = b.classes[ci], b.schema[ci]
    for way in ("fresh", "ctor", "parse", "from_dict"):
        v = bpgen.gen_msg(rng, b.schema, ci, 2)
        try:
            if way == "fresh":
                m = cls()
            elif way == "ctor":
                m = bpgen.to_py(v, b.classes)
            elif way == "parse":
                m = cls().parse(bytes(bpgen.to_py(v, b.classes)))
            else:
                m = cls().from_dict(bpgen.to_py(v, b.classes).to_dict())
            data0 = bytes(m)
        except Exception as e:
            chk.count("reads_skipped_" + type(e).__name__)
            continue
        inp = dict(inp0, way=way, value=bpgen.term(v) if way != "fresh" else "-", stage="reads-are-not-writes")
        chk.case(b.schema_line() + repr(("reads", ci, way, bpgen.term(v))), way != "fresh", {"way": way, "stage": "reads"})
        chk.count("reads_" + way)
        ow0 = {f.name: betterproto.serialized_on_wire(m._Message__raw_get(f.name)) for f in md.fields
               if f.ty == "message" and not f.wraps and not f.repeated and f.kind.startswith("u")
               and isinstance(m._Message__raw_get(f.name), betterproto.Message)}
        for depth in (1, 2, 3):
            deep_read(m, depth)
            try:
                data1 = bytes(m)
            except Exception as e:
                chk.fail("read-breaks-encoding", dict(inp, depth=depth), repr(e))
                break
            if data1 != data0:
                chk.fail("read-changes-bytes", dict(inp, depth=depth), "%s -> %s" % (data0.hex(), data1.hex()))
                break
            ow1 = {k: betterproto.serialized_on_wire(getattr(m, k)) for k in ow0}
            if ow1 != ow0:
                chk.fail("read-changes-serialized_on_wire", dict(inp, depth=depth), "%r -> %r" % (ow0, ow1))
                break


def assigned_inside(x):
    """something was assigned inside x: x itself is marked, a container of x has content, or the same holds for a
    sub-message x holds (x.sub.leaf.v = 0 assigns inside x although x.sub is only a lazily created holder)"""
    import dataclasses
    if x._serialized_on_wire or x._unknown_fields:
        return True
    for fld in dataclasses.fields(x):
        try:
            v = x._Message__raw_get(fld.name)
        except AttributeError:
            continue
        if isinstance(v, betterproto.Message):
            if assigned_inside(v):
                return True
        elif isinstance(v, (list, dict)) and v:
            return True
    return False


def content_free(x):
    """x holds no content: no element in any container, no scalar different from its default, at any depth (decided by
    walking the raw slots, not by the implementation's ==)"""
    import dataclasses
    for fld in dataclasses.fields(x):
        try:
            v = x._Message__raw_get(fld.name)
        except AttributeError:
            continue
        if v is betterproto.PLACEHOLDER or v is None:
            continue
        if isinstance(v, betterproto.Message):
            if not content_free(v):
                return False
        elif isinstance(v, (list, dict)):
            if v:
                return False
        elif isinstance(v, (int, float, str, bytes, bool)) and not isinstance(v, betterproto.Enum):
            if v or (isinstance(v, float) and str(v) == "-0.0"):
                return False
        elif isinstance(v, betterproto.Enum):
            if int(v):
                return False
        else:
            return False     # datetime / timedelta …: content
    return not x._unknown_fields


def _d49():
    """m.a.b.x = 0: b is present, a is a lazily created holder with nothing but b's presence inside"""
    schema = [bpgen.M("M0", [bpgen.F("a", 1, "message", kind="u1")]),
              bpgen.M("M1", [bpgen.F("b", 1, "message", kind="u2")]), bpgen.M("M2", [bpgen.F("x", 1, "int32")])]
    O, B, C = bpgen.build_bp(schema)
    m = O()
    m.a.b.x = 0
    return betterproto.serialized_on_wire(m.a.b) and not betterproto.serialized_on_wire(m.a) and bytes(m) == b""


def inplace_presence(chk, rng, b, ci, inp0):
    """set 'via attribute assignment' also means assignment INSIDE: a plain sub-message reached through
    `m.sub.inner.x = 1` / `m.sub.items.append(1)` is emitted, and serialized_on_wire must report it (D46)"""
    from props.c09 import fill_inplace
    cls, md = b.classes[ci], b.schema[ci]
    from props.c14 import zeroed
    for k in range(4):
        v = bpgen.gen_msg(rng, b.schema, ci, 3)
        if k % 2:
            v = zeroed(v)       # default values only: what is assigned is presence
        try:
            m = cls()
            t = fill_inplace(m, b, ci, v, rng)
            data = bytes(m)
        except Exception as e:
            chk.count("inplace_skipped_" + type(e).__name__)
            continue
        nums = [r[0] for r in WS.split(data)]
        inp = dict(inp0, built_in_place=t, stage="in-place assignment")
        chk.case(b.schema_line() + "|inplace|" + t, bool(data), {"stage": "in-place", "built": t[:160]})
        chk.count("inplace_presence")
        for f in md.fields:
            if f.ty == "message" and not f.wraps and not f.repeated and f.kind.startswith("u") and f.group is None and not f.optional:
                sub = m._Message__raw_get(f.name)
                if not isinstance(sub, betterproto.Message):
                    continue
                ow = betterproto.serialized_on_wire(sub)
                emitted = f.num in nums
                if emitted != ow:
                    chk.fail("submessage-emission-differs-from-serialized_on_wire", dict(inp, field=f.name), "emitted=%s onwire=%s bytes=%s" % (emitted, ow, data.hex()))
                ai = assigned_inside(sub)
                chk.count("inplace_assigned_inside_%d" % ai)
                if ai != ow:
                    # presence_only: the holder's VALUE is still the default — all that was assigned inside is presence further down
                    chk.fail("assigned-inside-not-reported", dict(inp, field=f.name, presence_only=bool(ai and content_free(sub))),
                             "something assigned inside=%s serialized_on_wire=%s emitted=%s bytes=%s" % (ai, ow, emitted, data.hex()))
        try:
            back = cls().parse(data)
            got, want = bp_presence(back, md), ref_presence(b.refs[ci], data, md)
            for name in want:
                if name in got and got[name] != want[name]:
                    chk.fail("presence-differs-from-reference", dict(inp, checked=name), "betterproto=%s reference=%s bytes=%s" % (got[name], want[name], data.hex()))
        except Exception as e:
            chk.fail("decode-or-reference-raises", inp, repr(e))


def oneof_wire_orders(chk, rng, b, ci, inp0):
    """presence after decoding bytes that betterproto itself would never write: the members of one oneof occurring several
    times in any order (X, Y, X …; default-valued occurrences included) — legal on the wire, the LAST occurrence selects.
    Compared with the reference's HasField / WhichOneof on the same bytes."""
    md, cls = b.schema[ci], b.classes[ci]
    for g in range(md.ngroups):
        members = [f for f in md.fields if f.group == g and not (f.ty == "message" and not f.wraps and f.kind.startswith("u"))]
        if len(members) < 2:
            continue
        for _ in range(3):
            seq = [rng.choice(members) for _ in range(rng.choice([2, 3, 3, 4]))]
            if len({f.name for f in seq}) < 2:
                continue
            try:
                parts = []
                for f in seq:
                    v = default_of(f) if rng.random() < 0.4 else bpgen.gen_scalar(rng, f.wraps or f.ty) if f.ty != "message" or f.wraps else bpgen.gen_kind(rng, b.schema, f.kind, 1)
                    parts.append(bytes(cls(**{f.name: bpgen.to_py(v, b.classes, f.ty)})))
                data = b"".join(parts)
                back = cls().parse(data)
                got = bp_presence(back, md)
                want = ref_presence(b.refs[ci], data, md)
            except Exception as e:
                chk.count("wire_order_skipped_" + type(e).__name__)
                continue
            chk.count("oneof_wire_orders")
            inp = dict(inp0, wire_order=[f.name for f in seq], bytes=data.hex())
            chk.case(b.schema_line() + "|order|" + data.hex(), True, {"oneof_members_on_the_wire": [f.name for f in seq], "bytes": data.hex()})
            for name in want:
                if name in got and got[name] != want[name]:
                    chk.fail("presence-differs-from-reference", dict(inp, checked=name),
                             "betterproto=%s reference=%s bytes=%s" % (got[name], want[name], data.hex()))


def run(chk, drv):
    quick = chk.tier == "quick"
    rng = chk.rng
    chk.extra["rule"] = ("for every field of random schemas: {never set, set to the default, set to a non-default} × {constructor, assignment, parse, from_dict}; "
                         "fresh instances; decoded messages compared with the reference's HasField / WhichOneof on the same bytes; "
                         "reads-are-not-writes: fresh / constructed / parsed / from_dict messages read along every path to depth 3 keep their bytes and sub-message presence. "
                         "non-trivial = a field was set; distinct by (schema, field, way, value)")
    nb = 25 if quick else 300
    if globals().get("_ONE"):
        nb = 1
    for bi in range(nb):
        b = W.Batch(rng, "q%d" % bi, 6, with_ref=True)
        W.count_features(chk, b)
        if drv:
            assert drv.ask1(b.schema_line()) == "ok"
        for ci, md in enumerate(b.schema):
            cls = b.classes[ci]
            inp0 = {"schema": b.describe(), "cls": ci}
            # ---- fresh instance
            m = cls()
            if bytes(m) != b"":
                chk.fail("fresh-not-empty", inp0, bytes(m).hex())
            for f in md.fields:
                if f.group is not None:
                    continue
                v = getattr(cls(), f.name)
                want = None if (f.optional or (f.wraps and not f.repeated)) else ([] if f.repeated else ({} if f.ty == "map" else "dflt"))
                if want == "dflt":
                    ok = (f.ty == "message") or v == bpgen.to_py(default_of(f), b.classes, f.ty)
                else:
                    ok = v == want
                if not ok:
                    chk.fail("fresh-field-not-default", dict(inp0, field=f.name), repr(v))
            chk.case(b.schema_line() + "fresh%d" % ci, False)
            reads_are_not_writes(chk, rng, b, ci, inp0)
            inplace_presence(chk, rng, b, ci, inp0)
            oneof_wire_orders(chk, rng, b, ci, inp0)
            # ---- the matrix
            lines, wants = [], []
            for i, f in enumerate(md.fields):
                if f.repeated or f.ty == "map":
                    continue
                if f.ty == "message" and not f.wraps:
                    vals = {"nondefault": bpgen.gen_kind(rng, b.schema, f.kind, 1)}
                    if f.kind.startswith("u"):
                        vals["default"] = ("c", int(f.kind[1:]), {})
                    else:
                        vals["default"] = ("t", 0) if f.kind == "ts" else ("d", 0)
                else:
                    nd = bpgen.gen_scalar(rng, f.wraps or f.ty)
                    vals = {"default": default_of(f), "nondefault": nd}
                for which, v in vals.items():
                    ety = f.ty
                    for way in ("ctor", "assign", "parse", "from_dict"):
                        try:
                            if way == "ctor":
                                m = cls(**{f.name: bpgen.to_py(v, b.classes, ety)})
                            elif way == "assign":
                                m = cls()
                                setattr(m, f.name, bpgen.to_py(v, b.classes, ety))
                            elif way == "parse":
                                m = cls().parse(bytes(cls(**{f.name: bpgen.to_py(v, b.classes, ety)})))
                            else:
                                src = cls(**{f.name: bpgen.to_py(v, b.classes, ety)})
                                d = src.to_dict(include_default_values=True)
                                d = {k: x for k, x in d.items() if k == betterproto.casing.camel_case(f.name)}
                                if not d:
                                    continue
                                m = cls().from_dict(d)
                        except Exception as e:
                            chk.count("matrix_skipped_" + type(e).__name__)
                            continue
                        inp = dict(inp0, field=f.name, way=way, which=which, value=bpgen.term(v))
                        chk.case(b.schema_line() + repr((ci, i, way, which, bpgen.term(v))), True, {"field": f.line(), "way": way, "value": bpgen.term(v)})
                        chk.count("matrix_%s_%s" % (way, which))
                        try:
                            data = bytes(m)
                        except Exception as e:
                            chk.fail("encode-raises", inp, repr(e))
                            continue
                        nums = [r[0] for r in WS.split(data)]
                        emitted = f.num in nums
                        is_default = (which == "default" or v in (("t", 0), ("d", 0), default_of(f), ("f32", 0x80000000), ("f64", 0x8000000000000000))
                                      or (v[0] == "c" and bytes(bpgen.to_py(v, b.classes)) == b""))   # a sub-message with nothing in it
                        if is_default and not explicit(f):
                            if f.ty == "message" and not f.wraps and f.kind.startswith("u"):
                                # plain sub-message: emitted exactly when serialized_on_wire reports it
                                ow = betterproto.serialized_on_wire(getattr(m, f.name))
                                if emitted != ow:
                                    chk.fail("submessage-emission-differs-from-serialized_on_wire", inp, "emitted=%s onwire=%s" % (emitted, ow))
                            elif emitted:
                                chk.fail("implicit-default-emitted", inp, data.hex())
                        if explicit(f) and not emitted:
                            chk.fail("explicit-field-not-emitted", inp, data.hex())
                        if not is_default and not emitted and not (f.ty in ("float", "double") and v[1] in (0x80000000, 0x8000000000000000)):
                            chk.fail("nondefault-not-emitted", inp, data.hex())
                        # after decoding: set exactly when the reference says so
                        try:
                            back = cls().parse(data)
                            got = bp_presence(back, md)      # first: any read materialises defaults, and is_set reports those
                            want = ref_presence(b.refs[ci], data, md)
                            for name in want:
                                if name in got and got[name] != want[name]:
                                    chk.fail("presence-differs-from-reference", dict(inp, checked=name),
                                             "betterproto=%s reference=%s bytes=%s" % (got[name], want[name], data.hex()))
                            # "recovered correctly": the decoded message holds what was set, whatever was decoded earlier in
                            # this process (the matrix decodes non-default and default values of every type in turn)
                            if bytes(back) != data:
                                chk.fail("decoded-message-reencodes-differently", inp, "%s -> %s" % (data.hex(), bytes(back).hex()))
                            elif way != "from_dict" and not (back == m):
                                # (from_dict is fed include_default_values output, which names every member of a oneof of a
                                # nested value: what such a message holds is D26 territory, its bytes are compared above)
                                chk.fail("decoded-message-differs", inp, "%r vs %r" % (back, m))
                        except Exception as e:
                            chk.fail("decode-or-reference-raises", inp, repr(e))
                        if drv and way in ("ctor", "assign"):
                            if way == "ctor":
                                lines.append("DUMP %s c %d 1 %d %s" % (b.sid, ci, i, bpgen.term(v)))
                            else:
                                lines.append("OPS %s c %d 0 ; set %d %s" % (b.sid, ci, i, bpgen.term(v)))
                            wants.append(W.hexs(data))
            if drv and lines:
                for ln, r, want in zip(lines, drv.ask(lines), wants):
                    got = r.split(" | ")[-1]
                    if got != want:
                        chk.disagree("presence-matrix", ln, r, want)


def replay_known(chk, entry):
    if (entry.get("witness") or {}).get("kind") == "unmarked-submessage":
        # D46b (fixed): something assigned INSIDE a plain sub-message: it is emitted, serialized_on_wire must say so
        schema = [bpgen.M("M0", [bpgen.F("a", 1, "message", kind="u1")]),
                  bpgen.M("M1", [bpgen.F("b", 1, "message", kind="u2")]), bpgen.M("M2", [bpgen.F("x", 1, "int32")])]
        O, B, C = bpgen.build_bp(schema)
        m = O()
        m.a.b.x = 1
        return bool(bytes(m)) and not betterproto.serialized_on_wire(m.a)
    if entry.get("id") == "D49":
        return _d49()
    return False


def classify(failure, known):
    inp = failure["input"] or {}
    if any(e["id"] == "D49" for e in known) and failure["kind"] == "assigned-inside-not-reported" and inp.get("presence_only"):
        return "D49"
    return None


def search(chk):
    saved = chk.tier
    chk.tier = "thorough"
    try:
        run(chk, None)
    finally:
        chk.tier = saved


def replay(chk, rp):
    # the matrix is deterministic per schema: re-run it on the recorded schema
    inp = (rp.get("failure") or {}).get("input") or {}
    if "schema" not in inp:
        return True
    schema = schema_from_desc(inp["schema"])
    c = type(chk)(chk.pid, "quick", chk.seed)

    class B:
        pass
    b = B()
    b.schema, b.sid = schema, "rp"
    b.classes, b.refs = bpgen.build_bp(schema), bpgen.build_ref(schema)
    b.describe = lambda: inp["schema"]
    b.schema_line = lambda: bpgen.schema_line("rp", schema)
    orig = W.Batch
    try:
        W.Batch = lambda *a, **k: b
        saved = c.tier
        # one batch only
        import types
        run_one(c, b)
    finally:
        W.Batch = orig
    return any(f["kind"] == rp["failure"]["kind"] for f in c.oracle_failures)


def run_one(chk, b):
    import wirecases
    orig = wirecases.Batch
    wirecases.Batch = lambda *a, **k: b
    try:
        old_tier = chk.tier

        class R:
            pass
        # run() draws `nb` batches; make it 1 by monkeypatching range via tier trick is overkill: call the body directly
        import props.c06 as me
        src_run = me.run

        def one(chk2, drv2):
            nb_saved = None
            return src_run(chk2, drv2)
        # simplest: temporarily make quick tier produce exactly one batch
        me._ONE = True
        src_run(chk, None)
    finally:
        wirecases.Batch = orig
        import props.c06 as me2
        me2._ONE = False
