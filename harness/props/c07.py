"""C07 — oneof exclusivity after any history of operations (lock-step histories)."""
import copy
import pickle

import betterproto
import bpgen
import wirecases as W
import wiresplit as WS
from common import is_err

FD_OK = {"bool", "int32", "int64", "uint32", "uint64", "sint32", "sint64", "fixed32", "sfixed32", "fixed64", "sfixed64", "string", "bytes"}


WIRE_OF = {"enum": 0, "bool": 0, "int32": 0, "int64": 0, "uint32": 0, "uint64": 0, "sint32": 0, "sint64": 0,
           "fixed64": 1, "sfixed64": 1, "double": 1, "fixed32": 5, "sfixed32": 5, "float": 5,
           "string": 2, "bytes": 2, "message": 2, "map": 2}


def oneof_schema(rng):
    """schemas rich in oneof groups (members: scalars, strings, bytes, enums, messages, wkt, wrappers)"""
    for _ in range(100):
        s = bpgen.random_schema(rng, nmsgs=rng.choice([1, 2]))
        if any(m.ngroups for m in s):
            return s
    return s


def gen_op(rng, schema, ci, classes, depth=2):
    md = schema[ci]
    r = rng.random()
    members = [i for i, f in enumerate(md.fields) if f.group is not None]
    if r < 0.3 and md.fields:
        i = rng.choice(members) if members and rng.random() < 0.7 else rng.randrange(len(md.fields))
        f = md.fields[i]
        v = bpgen.gen_field(rng, schema, f, depth)
        if rng.random() < 0.3 and not f.repeated and f.ty != "map":
            # the default value of the member: must still select it
            dv = {"bool": ("b", False), "float": ("f32", 0), "double": ("f64", 0), "string": ("s", b""), "bytes": ("y", b"")}.get(f.ty)
            if f.ty not in ("message", "map"):
                v = dv or ("i", 0)
        return ("set", i, v)
    if r < 0.4 and md.fields:
        return ("get", rng.randrange(len(md.fields)))
    if r < 0.6:
        # bytes with 0..n members of each group in arbitrary order
        parts = []
        for _ in range(rng.choice([1, 1, 2, 3])):
            v = bpgen.gen_msg(rng, schema, ci, depth)
            try:
                parts.append(bytes(bpgen.to_py(v, classes)))
            except Exception:
                pass
        if members and rng.random() < 0.35:
            # a oneof member's NUMBER with a wire type that does not fit its declared type: kept as an unknown field,
            # it must not select that member (nor disturb the selected one)
            f = md.fields[rng.choice(members)]
            bad = rng.choice([wt for wt in (0, 1, 2, 5) if wt != WIRE_OF.get(f.ty, 2)])
            rec = betterproto.encode_varint(f.num << 3 | bad) + {0: b"\x07", 1: b"\x01" * 8, 2: b"\x02hi", 5: b"\x01" * 4}[bad]
            parts.insert(rng.randrange(len(parts) + 1), rec)
        return ("parse", b"".join(parts))
    if r < 0.7:
        cand = [i for i, f in enumerate(md.fields) if f.ty in FD_OK and not f.repeated and not f.optional and f.ty != "map"]
        kw = {}
        for i in rng.sample(cand, min(len(cand), rng.choice([1, 2, 3]))):
            f = md.fields[i]
            if f.group is not None and any(md.fields[j].group == f.group for j in kw):
                continue
            kw[i] = bpgen.gen_scalar(rng, f.ty)
        return ("fd", kw)
    return (rng.choice(["copy", "deepcopy", "copy", "deepcopy", "pickle", "read", "raw"]),)


def op_term(op):
    if op[0] == "set":
        return "set %d %s" % (op[1], bpgen.term(op[2]))
    if op[0] == "get":
        return "get %d" % op[1]
    if op[0] == "parse":
        return "parse %s" % W.hexs(op[1])
    if op[0] == "fd":
        return "fd %d %s" % (len(op[1]), " ".join("%d %s" % (i, bpgen.term(v)) for i, v in op[1])) if op[1] else "fd 0"
    return op[0]


class Tracker:
    """what the English property says the selection must be, tracked from the operations alone"""

    def __init__(self, schema, ci):
        self.md = schema[ci]
        self.sel = {g: None for g in range(self.md.ngroups)}

    def member_by_num(self, num):
        for i, f in enumerate(self.md.fields):
            if f.num == num:
                return i, f
        return None, None


def apply_op(m, op, schema, ci, classes, trk):
    """apply to the real object; returns (new m, raised?)"""
    md = schema[ci]
    cls = classes[ci]
    try:
        if op[0] == "set":
            f = md.fields[op[1]]
            ety = f.ty if f.ty != "map" else f.mapV
            setattr(m, f.name, bpgen.to_py(op[2], classes, ety))
            if f.group is not None:
                trk.sel[f.group] = op[1]
        elif op[0] == "get":
            getattr(m, md.fields[op[1]].name)
        elif op[0] == "parse":
            m.parse(op[1])
            for num, wt, raw, payload, val in WS.split(op[1]):
                i, f = trk.member_by_num(num)
                if f is not None and f.group is not None and wt == WIRE_OF.get(f.ty, 2):
                    trk.sel[f.group] = i
        elif op[0] == "fd":
            kw = {md.fields[i].name: bpgen.to_py(v, classes, md.fields[i].ty) for i, v in op[1]}
            d = cls(**kw).to_dict(casing=betterproto.Casing.SNAKE)
            m.from_dict(d)
        elif op[0] == "copy":
            m = copy.copy(m)
        elif op[0] == "deepcopy":
            m = copy.deepcopy(m)
        elif op[0] == "pickle":
            m = pickle.loads(pickle.dumps(m))
        elif op[0] == "read":
            bytes(m), len(m), m.to_dict()
        elif op[0] == "raw":
            m == m, bool(m), repr(m)
        return m, False
    except AttributeError as e:
        if op[0] == "get":
            return m, True
        raise


def fd_effective(op, schema, ci, classes):
    """the (idx, value) pairs from_dict really assigns, in dict order: to_dict leaves out
    default-valued members that are not selected"""
    md = schema[ci]
    cls = classes[ci]
    kw = {md.fields[i].name: bpgen.to_py(v, classes, md.fields[i].ty) for i, v in op[1].items()}
    d = cls(**kw).to_dict(casing=betterproto.Casing.SNAKE)
    names = [f.name for f in md.fields]
    return [(names.index(k), op[1][names.index(k)]) for k in d if k in names]


def check_exclusive(chk, inp, m, schema, ci, trk):
    md = schema[ci]
    names = [f.name for f in md.fields]
    try:
        recs = WS.split(bytes(m))
    except Exception as e:
        chk.fail("bytes-raises-in-history", inp, repr(e))
        return
    # a member counts as "on the wire" only through a record of ITS wire type (a record with its number and another
    # wire type is an unknown field the instance may legitimately carry and re-emit)
    onwire = {(r[0], r[1]) for r in recs}
    try:
        keys = set(m.to_dict(casing=betterproto.Casing.SNAKE).keys())
    except Exception as e:
        keys = None
        chk.count("to_dict_raises_" + type(e).__name__)
    for g in range(md.ngroups):
        name, _ = betterproto.which_one_of(m, "g%d" % g)
        members = [i for i, f in enumerate(md.fields) if f.group == g]
        want = trk.sel[g]
        got = names.index(name) if name else None
        if got != want:
            chk.fail("which_one_of-not-last-set", inp, "group %d: got %r want %r" % (g, got, want))
        for i in members:
            f = md.fields[i]
            if i == got:
                try:
                    getattr(m, f.name)
                except AttributeError:
                    chk.fail("selected-member-raises", inp, f.name)
                if (f.num, WIRE_OF.get(f.ty, 2)) not in onwire:
                    chk.fail("selected-member-not-on-wire", inp, "%s bytes=%s" % (f.name, bytes(m).hex()))
                if keys is not None and f.name not in keys:
                    chk.fail("selected-member-not-in-json", inp, "%s keys=%r" % (f.name, keys))
            else:
                try:
                    getattr(m, f.name)
                    chk.fail("unselected-member-readable", inp, f.name)
                except AttributeError:
                    pass
                if (f.num, WIRE_OF.get(f.ty, 2)) in onwire:
                    chk.fail("unselected-member-on-wire", inp, "%s bytes=%s" % (f.name, bytes(m).hex()))
                if keys is not None and f.name in keys:
                    chk.fail("unselected-member-in-json", inp, "%s keys=%r" % (f.name, keys))


def check_retired(chk, inp, retired, schema, ci):
    """the object a copy was taken from is a message like any other: later operations on the COPY
    must leave its selection, its exclusivity and its bytes' members as they were"""
    for orig, sel, step in retired:
        t = Tracker(schema, ci)
        t.sel = dict(sel)
        sub = type(chk)(chk.pid, "quick", 0)
        check_exclusive(sub, inp, orig, schema, ci, t)
        for f in sub.oracle_failures[:1]:
            chk.fail("original-of-copy-" + f["kind"], dict(inp, original_copied_at_step=step), f["detail"])


def run(chk, drv):
    quick = chk.tier == "quick"
    rng = chk.rng
    chk.extra["rule"] = ("random schemas with oneof groups (members of every kind); histories of length ≤ 12 (thorough ≤ 40) over construct (≤ 1 member per group), setattr "
                         "(incl. default values), getattr, parse of bytes with 0..n members in any order, instance from_dict, copy, deepcopy, pickle, observers; after EVERY operation "
                         "the presence-level observation and bytes are compared with the model and the exclusivity oracle runs — on the current object AND on every object a copy was taken from earlier in the history. non-trivial = history touches a oneof member; distinct by (schema, history)")
    nh = 800 if quick else 2500
    maxlen = 12 if quick else 40
    for hi in range(nh):
        if hi % 5 == 0:
            schema = oneof_schema(rng)
            classes = bpgen.build_bp(schema)
            sid = "h%d" % hi
            if drv:
                assert drv.ask1(bpgen.schema_line(sid, schema)) == "ok"
            cands = [i for i, m in enumerate(schema) if m.ngroups] or [0]
        ci = rng.choice(cands)
        init = bpgen.gen_msg(rng, schema, ci, depth=2, multi=0.5)
        ops = [gen_op(rng, schema, ci, classes) for _ in range(rng.randint(1, maxlen))]
        m = bpgen.to_py(init, classes)
        trk = Tracker(schema, ci)
        for i in sorted(init[2]):
            f = schema[ci].fields[i]
            if f.group is not None:
                trk.sel[f.group] = i
        # a constructor call naming several members of one group: "set last" is not defined by the
        # property, so the baseline is whatever ONE member the implementation reports (exclusivity is still checked)
        for g in range(schema[ci].ngroups):
            named = [i for i in init[2] if schema[ci].fields[i].group == g]
            if len(named) > 1:
                n, _ = betterproto.which_one_of(m, "g%d" % g)
                names = [f.name for f in schema[ci].fields]
                trk.sel[g] = names.index(n) if n in names and names.index(n) in named else -1
                chk.count("ctor_multi_member")
        touched = any(schema[ci].fields[i].group is not None for i in init[2])
        impl_obs, terms = [], []
        retired = []   # originals of copy / deepcopy / pickle: they must keep THEIR selection whatever happens to the copy
        inp = {"schema": [[f.line() for f in mm.fields] for mm in schema], "cls": ci, "init": bpgen.term(init), "ops": []}
        for op in ops:
            if op[0] == "fd":
                try:
                    eff = fd_effective(op, schema, ci, classes)
                except Exception:
                    continue
                op = ("fd", eff)
                for i, _ in eff:
                    f = schema[ci].fields[i]
                    if f.group is not None:
                        trk.sel[f.group] = i
            if op[0] in ("set", "fd"):
                touched = touched or op[0] == "fd" or schema[ci].fields[op[1]].group is not None
            terms.append(op_term(op))
            inp["ops"] = list(terms)
            before, sel_before = m, dict(trk.sel)
            try:
                m, raised = apply_op(m, op, schema, ci, classes, trk)
            except Exception as e:
                # an operation the generator should not have produced (e.g. un-encodable value): drop the history
                terms.pop()
                break
            chk.count("op_" + op[0])
            if op[0] in ("copy", "deepcopy", "pickle") and m is not before:
                retired.append((before, sel_before, len(terms) - 1))
            check_exclusive(chk, inp, m, schema, ci, trk)
            check_retired(chk, inp, retired, schema, ci)
            if raised:
                impl_obs.append("ERR")
            else:
                try:
                    impl_obs.append(bpgen.obsp_msg(m, schema, ci) + " | " + W.hexs(bytes(m)))
                except Exception as e:
                    impl_obs.append("OBSFAIL " + repr(e))
        chk.case(sid + bpgen.term(init) + ";".join(terms), touched, {"init": bpgen.term(init), "ops": terms[:6]})
        chk.count("history_len_%d" % min(len(terms), 13))
        if drv and terms:
            r = drv.ask1("OPS %s %s ; %s" % (sid, bpgen.term(init), " ".join(terms)))
            outs = r.split(" ;; ")
            if len(outs) != len(impl_obs):
                chk.disagree("history", inp, r[:300], "%d observations" % len(impl_obs))
            else:
                for k, (a, b) in enumerate(zip(outs, impl_obs)):
                    if (a[:3] == "ERR") != (b == "ERR") or (b != "ERR" and a != b):
                        chk.disagree("history step %d (%s)" % (k, terms[k]), inp, a, b)
                        break


def classify(failure, known):
    return None


def search(chk):
    saved = chk.tier
    chk.tier = "thorough"
    try:
        run(chk, None)
    finally:
        chk.tier = saved


def replay(chk, rp):
    from props.c09 import schema_from_desc, parse_term
    inp = (rp.get("failure") or {}).get("input") or {}
    if "ops" not in inp:
        return True
    schema = schema_from_desc(inp["schema"])
    classes = bpgen.build_bp(schema)
    ci = inp["cls"]
    init = parse_term(inp["init"].split())[0]
    m = bpgen.to_py(init, classes)
    trk = Tracker(schema, ci)
    for i in init[2]:
        f = schema[ci].fields[i]
        if f.group is not None:
            trk.sel[f.group] = i
    c = type(chk)(chk.pid, "quick", 0)
    retired = []
    for t in inp["ops"]:
        toks = t.split()
        if toks[0] == "set":
            op = ("set", int(toks[1]), parse_term(toks[2:])[0])
        elif toks[0] == "get":
            op = ("get", int(toks[1]))
        elif toks[0] == "parse":
            op = ("parse", b"" if toks[1] == "-" else bytes.fromhex(toks[1]))
        elif toks[0] == "fd":
            n, rest, kw = int(toks[1]), toks[2:], []
            for _ in range(n):
                i = int(rest[0])
                v, rest = parse_term(rest[1:])
                kw.append((i, v))
                f = schema[ci].fields[i]
                if f.group is not None:
                    trk.sel[f.group] = i
            op = ("fd_raw", kw)
        else:
            op = (toks[0],)
        before, sel_before = m, dict(trk.sel)
        try:
            if op[0] == "fd_raw":
                for i, v in op[1]:
                    setattr(m, schema[ci].fields[i].name, bpgen.to_py(v, classes, schema[ci].fields[i].ty))
            else:
                m, _ = apply_op(m, op, schema, ci, classes, trk)
        except Exception:
            return True
        if op[0] in ("copy", "deepcopy", "pickle") and m is not before:
            retired.append((before, sel_before, 0))
        check_exclusive(c, inp, m, schema, ci, trk)
        check_retired(c, inp, retired, schema, ci)
    return bool(c.oracle_failures)
