"""C08 — unknown fields survive decode/encode; schema evolution is lossless."""
import dataclasses

import betterproto
import bpgen
import wirecases as W
import wiresplit as WS
from common import is_err
from props.c01 import presence
from props.c09 import schema_from_desc, parse_term


def older_schema(rng, schema, exhaustive_mask=None, ci=0):
    """drop a subset of the fields of message ci (and randomly of the others)"""
    out = []
    for k, m in enumerate(schema):
        keep = []
        for j, f in enumerate(m.fields):
            if k == ci and exhaustive_mask is not None:
                if exhaustive_mask >> j & 1:
                    keep.append(f)
            elif rng.random() < 0.6:
                keep.append(f)
        # group indices must stay dense
        groups = sorted({f.group for f in keep if f.group is not None})
        remap = {g: i for i, g in enumerate(groups)}
        fields = [dataclasses.replace(f, group=None if f.group is None else remap[f.group]) for f in keep]
        out.append(bpgen.M(m.name, fields, len(groups)))
    return out


def oracle(chk, inp, newer_cls, older_cls, m, data, schema, ci, old_numbers):
    """data: an encoding of m, possibly with extra unknown records injected"""
    try:
        old = older_cls().parse(data)
        re = bytes(old)
    except Exception as e:
        chk.fail("older-reader-raises", inp, repr(e))
        return None
    # every way the older program can write the message carries the same bytes: dump(), SerializeToString(), and a
    # relay between size-delimited streams (load(SIZE_DELIMITED) then dump(SIZE_DELIMITED): prefix = what follows)
    try:
        import io
        s = io.BytesIO()
        old.dump(s)
        if s.getvalue() != re or old.SerializeToString() != re:
            chk.fail("older-writer-disagrees-with-bytes", inp, "bytes=%s dump=%s" % (re.hex(), s.getvalue().hex()))
        src = io.BytesIO(betterproto.encode_varint(len(data)) + data)
        relay = older_cls().load(src, betterproto.SIZE_DELIMITED)
        dst = io.BytesIO()
        relay.dump(dst, betterproto.SIZE_DELIMITED)
        rebytes = bytes(relay)
        if dst.getvalue() != betterproto.encode_varint(len(rebytes)) + rebytes or rebytes != re:
            chk.fail("delimited-relay-loses-data", inp, "relayed frame %s, message bytes %s" % (dst.getvalue().hex(), re.hex()))
        else:
            back2 = newer_cls().load(io.BytesIO(dst.getvalue()), betterproto.SIZE_DELIMITED)
            if not (back2 == m):
                chk.fail("delimited-relay-loses-data", inp, "orig=%r back=%r" % (m, back2))
    except Exception as e:
        chk.fail("older-relay-raises", inp, repr(e))
    try:
        recs_in = WS.split(data)
        recs_out = WS.split(re)
    except Exception as e:
        chk.fail("reemitted-not-parseable", inp, repr(e))
        return re
    unk_in = [r[2] for r in recs_in if r[0] not in old_numbers]
    # the unknown records must be the tail of the output, byte for byte, in arrival order
    tail = b"".join(unk_in)
    if tail and not re.endswith(tail):
        chk.fail("unknown-not-reemitted-verbatim", inp, "in=%s out=%s" % (data.hex(), re.hex()))
    if len([r for r in recs_out if r[0] not in old_numbers]) != len(unk_in):
        chk.fail("unknown-count-differs", inp, "in=%s out=%s" % (data.hex(), re.hex()))
    # known fields undisturbed: same as decoding the input with the unknown records deleted
    known_only = b"".join(r[2] for r in recs_in if r[0] in old_numbers)
    try:
        old2 = older_cls().parse(known_only)
        if not (old2 == old):
            chk.fail("known-fields-disturbed", inp, "with=%r without=%r" % (old, old2))
    except Exception as e:
        chk.fail("known-only-raises", inp, repr(e))
    # evolution: newer -> older reader/writer -> newer
    try:
        back = newer_cls().parse(re)
        if not (back == m):
            chk.fail("evolution-loses-data", inp, "orig=%r back=%r via=%s" % (m, back, re.hex()))
        elif presence(back, schema, ci) != presence(newer_cls().parse(data), schema, ci):
            chk.fail("evolution-changes-presence", inp, "via=%s" % re.hex())
    except Exception as e:
        chk.fail("newer-reader-raises-after-evolution", inp, repr(e))
    # the unknown fields a message carries are ITS OWN: a copy of the older reader's message that then receives
    # more records (a merge: parse into an existing instance) re-emits old + new, the original exactly what it had
    import copy
    for how in (copy.copy, copy.deepcopy):
        try:
            dup = how(old)
            free = next(k for k in (2047, 2046, 1000, 999, 19, 18, 17, 16) if k not in old_numbers)
            extra = b"".join(unk_in[:2]) or (betterproto.encode_varint(free << 3) + b"\x05")   # records the older class does NOT know
            dup.parse(extra)
            again = bytes(old)
            if again != re:
                chk.fail("unknown-fields-shared-with-copy", dict(inp, copied_with=how.__name__, merged_into_copy=extra.hex()),
                         "original re-emitted %s before and %s after its copy received more records" % (re.hex(), again.hex()))
        except Exception as e:
            chk.count("copy_merge_skipped_" + type(e).__name__)
    return re


def run(chk, drv):
    quick = chk.tier == "quick"
    rng = chk.rng
    chk.extra["rule"] = ("newer schema = random schema; older schema = the same with a subset of fields dropped (exhaustive over subsets of the "
                         "top message for ≤ 6 fields in the thorough tier, random otherwise); data = bytes(newer value) with random unknown records of all "
                         "four wire types injected at random record boundaries; a quarter of them again with an unknown record of about 4 / 8 / 16 / 64 KiB in front so that a read-block boundary falls inside a record. non-trivial = at least one record unknown to the older schema; distinct by (schemas, data)")
    nb = 50 if quick else 500
    for bi in range(nb):
        b = W.Batch(rng, "n%d" % bi, 6)
        W.count_features(chk, b)
        ci0 = b.values[0][1]
        nf = len(b.schema[ci0].fields)
        masks = [None] * 3
        if not quick and nf <= 6:
            masks = list(range(1 << nf))
        for mi, mask in enumerate(masks):
            olds = older_schema(rng, b.schema, mask, ci0)
            try:
                oclasses = bpgen.build_bp(olds)
            except Exception:
                continue
            osid = "o%d_%d" % (bi, mi)
            if drv:
                assert drv.ask1(bpgen.schema_line(osid, olds)) == "ok"
            for v in b.values:
                ci = v[1]
                m = bpgen.to_py(v, b.classes)
                try:
                    data = bytes(m)
                except Exception:
                    continue
                newer_numbers = {f.num for f in b.schema[ci].fields}
                # inject unknown records at record boundaries
                if rng.random() < 0.7:
                    bounds = WS.boundaries(data)
                    for _ in range(rng.choice([1, 1, 2, 3])):
                        pos = rng.choice(bounds)
                        rec = WS.random_unknown_record(rng, newer_numbers)
                        data = data[:pos] + rec + data[pos:]
                        bounds = WS.boundaries(data)
                    chk.count("injected")
                old_numbers = {f.num for f in olds[ci].fields}
                n_unknown = sum(1 for r in WS.split(data) if r[0] not in old_numbers)
                inp = {"newer": b.describe(), "older": [[f.line() for f in mm.fields] for mm in olds], "cls": ci,
                       "value": bpgen.term(v), "data": data.hex()}
                chk.case(osid + b.schema_line() + data.hex(), n_unknown > 0, {"data": data.hex(), "unknown_records": n_unknown})
                chk.count("unknown_records_%d" % min(n_unknown, 5))
                re = oracle(chk, inp, b.classes[ci], oclasses[ci], m, data, b.schema, ci, old_numbers)
                if drv and re is not None:
                    r = drv.ask1("PARSE %s %d %s" % (osid, ci, W.hexs(data)))
                    old = oclasses[ci]().parse(data)
                    want = bpgen.obs_msg(old, olds, ci) + " | " + W.hexs(re)
                    if r != want:
                        chk.disagree("older-parse", {"schema": bpgen.schema_line(osid, olds), "data": data.hex(), "cls": ci}, r, want)
                if re is not None and rng.random() < (0.25 if quick else 0.5):
                    large_stage(chk, b, olds, oclasses, v, data, rng)


BLOCKS = [4096, 8192, 16384, 65536]


def large_stage(chk, b, olds, oclasses, v, data, rng):
    """inputs LONGER than the block sizes a buffered reader would use: an unknown LEN record of about one block is put
    in front of (or into) the encoding so that a block boundary falls inside one of the following records — or inside
    the long unknown record itself; same oracle (unknown records re-emitted verbatim, known fields undisturbed,
    evolution lossless) through parse / load / the delimited relay"""
    ci = v[1]
    newer_numbers = {f.num for f in b.schema[ci].fields}
    old_numbers = {f.num for f in olds[ci].fields}
    free = next(k for k in (2047, 2046, 1000, 999, 19, 18, 17, 16, 15, 14) if k not in newer_numbers)
    m = bpgen.to_py(v, b.classes)
    B = rng.choice(BLOCKS)
    n = max(1, B + rng.randint(-48, 8))
    pad = betterproto.encode_varint(free << 3 | 2) + betterproto.encode_varint(n) + bytes(rng.getrandbits(8) for _ in range(16)) * (n // 16) + b"\x00" * (n % 16)
    bounds = WS.boundaries(data)
    pos = 0 if rng.random() < 0.6 else rng.choice(bounds)
    big = data[:pos] + pad + data[pos:]
    inp = {"newer": b.describe(), "older": [[f.line() for f in mm.fields] for mm in olds], "cls": ci,
           "value": bpgen.term(v), "data": big.hex(), "stage": "large", "block": B}
    chk.case("large" + b.schema_line() + str(len(big)) + data.hex(), True, {"large_input_bytes": len(big), "around_block": B})
    chk.count("large_inputs")
    oracle(chk, inp, b.classes[ci], oclasses[ci], m, big, b.schema, ci, old_numbers)


def classify(failure, known):
    return None


def search(chk):
    class NoDrv:
        pass
    saved = chk.tier
    chk.tier = "thorough"
    try:
        run(chk, None)
    finally:
        chk.tier = saved


def replay(chk, rp):
    inp = (rp.get("failure") or {}).get("input") or {}
    if "newer" in inp:
        ns, os_ = schema_from_desc(inp["newer"]), schema_from_desc(inp["older"])
        nc, oc = bpgen.build_bp(ns), bpgen.build_bp(os_)
        ci = inp["cls"]
        v = parse_term(inp["value"].split())[0]
        c = type(chk)(chk.pid, "quick", 0)
        oracle(c, inp, nc[ci], oc[ci], bpgen.to_py(v, nc), bytes.fromhex(inp["data"]), ns, ci, {f.num for f in os_[ci].fields})
        return bool(c.oracle_failures)
    return True
