"""C09 — len(m) == len(bytes(m)); dump() writes bytes(m); dump(SIZE_DELIMITED) writes
varint(len) + bytes(m); SerializeToString == bytes."""
import io

import betterproto
import bpgen
import wirecases as W
from common import is_err


def run(chk, drv):
    quick = chk.tier == "quick"
    chk.extra["rule"] = ("random well-formed schemas (all 18 field kinds × singular/optional/repeated/oneof/map, wrappers, Timestamp/Duration, "
                         "recursive messages), values biased to boundaries and to default-but-present members; plus messages that went through parse() "
                         "with unknown fields; plus messages built by Cls() and filled IN PLACE (lists extended, dicts updated, sub-messages filled through m.sub.x = …) so that "
                         "serialized_on_wire of the holder stays False; plus valid messages measured right after an encoding of a twin FAILED part-way (unencodable last item of a repeated numeric field); every message is measured, then grown in place (list.append, nested), then measured again. non-trivial = at least one constructor argument; distinct by (schema, value) line")
    nb = 60 if quick else 600
    for bi in range(nb):
        b = W.Batch(chk.rng, "s%d" % bi, 12)
        W.count_features(chk, b)
        one_batch(chk, drv, b)
        inplace_stage(chk, drv, b)
        oneof_history_stage(chk, b)
        after_failure_stage(chk, b)
    scalar_sweep(chk, drv)


def fill_inplace(m, b, ci, v, rng, top=True):
    """fill an existing (default-constructed or lazily materialised) instance WITHOUT assigning to it where
    possible: lists are extended, dicts updated, sub-messages filled through `m.sub.…` — so the instance's own
    `_serialized_on_wire` stays False although it has content. Returns the raw model term of the result."""
    md = b.schema[ci]
    ow = False
    slots = []
    # a nested message is, four times in ten, given container content only (no scalar is assigned, so nothing marks it)
    only_containers = (not top) and rng.random() < 0.4
    for i, f in enumerate(md.fields):
        raw = "N" if f.optional else "P"
        x = v[2].get(i)
        if x is not None and f.group is None and not f.optional:
            if f.repeated and x[0] == "l":
                getattr(m, f.name).extend(bpgen.to_py(x, b.classes, f.ty))
                raw = bpgen.term(x)
            elif f.ty == "map" and x[0] == "D":
                getattr(m, f.name).update(bpgen.to_py(x, b.classes, f.mapV))
                raw = bpgen.term(x)
            elif f.ty == "message" and not f.wraps and f.kind.startswith("u") and x[0] == "c" and not f.repeated:
                raw = fill_inplace(getattr(m, f.name), b, int(f.kind[1:]), x, rng, False)
            elif f.ty not in ("message", "map") and not f.repeated and not only_containers and (not top or rng.random() < 0.15):
                setattr(m, f.name, bpgen.to_py(x, b.classes, f.ty))      # an assignment: this instance becomes present
                raw = bpgen.term(x)
                ow = True
        slots.append(raw)
    return "m %d %d - %d%s %d %s" % (ci, int(ow), md.ngroups, " -" * md.ngroups, len(slots), " ".join(slots))


def oneof_history_stage(chk, b):
    """messages whose oneof groups have a HISTORY: a constructor call or a `from_dict` (class form and instance form)
    that names several members of one group, then a switch to another member by assignment — after each step
    len / dump / dump(SIZE_DELIMITED) / SerializeToString must describe bytes(m) (oracle only: the value the
    implementation ends up with is its own business here, C07 settles that)."""
    rng = chk.rng
    for ci, md in enumerate(b.schema):
        groups = [[i for i, f in enumerate(md.fields) if f.group == g] for g in range(md.ngroups)]
        groups = [g for g in groups if len(g) > 1]
        if not groups:
            continue
        v = bpgen.gen_msg(rng, b.schema, ci, depth=2, multi=1.0)
        inp = {"schema": b.describe(), "value": bpgen.term(v)}
        try:
            m = bpgen.to_py(v, b.classes)
        except Exception as e:
            chk.count("oneof_history_skipped_" + type(e).__name__)
            continue
        chk.case(b.schema_line() + "|multi|" + bpgen.term(v), True, {"multi_member_constructor": bpgen.term(v)[:200]})
        chk.count("oneof_history_ctor_multi")
        oracle(chk, dict(inp, how="constructor naming several members of one oneof"), observe(m))
        # the same through from_dict: merge the dicts of one-member messages
        try:
            d = {}
            for i in v[2]:
                d.update(bpgen.to_py(("c", ci, {i: v[2][i]}), b.classes).to_dict())
            for how, build in (("Cls.from_dict", lambda: b.classes[ci].from_dict(d)), ("Cls().from_dict", lambda: b.classes[ci]().from_dict(d))):
                m2 = build()
                chk.count("oneof_history_from_dict_multi")
                oracle(chk, dict(inp, how=how + " naming several members of one oneof", dict=repr(d)[:400]), observe(m2))
        except Exception as e:
            chk.count("oneof_history_from_dict_skipped_" + type(e).__name__)
        # switch every group to another member by assignment, measuring before and after
        for g in groups:
            i = rng.choice(g)
            f = md.fields[i]
            try:
                observe(m)
                setattr(m, f.name, bpgen.to_py(bpgen.gen_field(rng, b.schema, f, 1), b.classes, f.ty))
            except Exception as e:
                chk.count("oneof_history_switch_skipped_" + type(e).__name__)
                continue
            chk.count("oneof_history_switched")
            oracle(chk, dict(inp, how="then %s assigned" % f.name), observe(m))


def grow_in_place(m, depth=2):
    """after a measurement: append to every non-empty list, re-insert into every dict, descend into
    sub-messages — all in place, no attribute assignment on `m` itself. Returns True if anything grew."""
    import dataclasses
    grew = False
    for fld in dataclasses.fields(m):
        try:
            v = m._Message__raw_get(fld.name)
        except AttributeError:
            continue
        if isinstance(v, list) and v:
            v.append(v[0])
            grew = True
            if isinstance(v[0], betterproto.Message) and depth > 0:
                grew = grow_in_place(v[0], depth - 1) or grew
        elif isinstance(v, betterproto.Message) and depth > 0:
            grew = grow_in_place(v, depth - 1) or grew
        elif isinstance(v, dict) and depth > 0:
            for x in v.values():
                if isinstance(x, betterproto.Message):
                    grew = grow_in_place(x, depth - 1) or grew
    return grew


def remeasure(chk, inp, m):
    """len / dump are functions of the CURRENT value: measure, change the value in place, measure again"""
    try:
        b0 = bytes(m)
        before = len(b0)
    except Exception:
        before = None
    try:
        if not grow_in_place(m):
            return
    except Exception as e:
        chk.count("grow_skipped_" + type(e).__name__)
        return
    chk.count("remeasured_after_in_place_growth")
    o2 = observe(m)
    oracle(chk, dict(inp, then="lists appended to in place after the first len()/dump()"), o2)
    # len and bytes agreeing with each other is not enough when both are remembered: the encoding must have grown
    if before is not None and isinstance(o2["bytes"], bytes) and len(o2["bytes"]) <= before:
        chk.fail("bytes-did-not-grow-after-in-place-growth", dict(inp, then="lists appended to in place after the first len()/dump()"),
                 "%d bytes before, %d after" % (before, len(o2["bytes"])))


def inplace_stage(chk, drv, b):
    """messages built by `Cls()` and then filled in place (`m.items.append(x)`, `m.table[k] = v`, `m.sub.n = 1`)"""
    lines, objs = [], []
    for v in b.values:
        ci = v[1]
        try:
            m = b.classes[ci]()
            observe(m)                                   # measured while still empty …
            t = fill_inplace(m, b, ci, v, chk.rng)       # … then filled in place
        except Exception as e:
            chk.count("inplace_skipped_" + type(e).__name__)
            continue
        lines += ["DUMP %s %s" % (b.sid, t), "LEN %s %s" % (b.sid, t), "DUMPD %s %s" % (b.sid, t)]
        objs.append((t, m))
    replies = drv.ask(lines) if (drv and lines) else None
    for i, (t, m) in enumerate(objs):
        o = observe(m)
        inp = {"schema": b.describe(), "built_in_place": t}
        nontriv = isinstance(o["bytes"], bytes) and len(o["bytes"]) > 0
        chk.case(b.schema_line() + "|inplace|" + t, nontriv, {"built_in_place": t[:200]})
        chk.count("inplace_nonempty" if nontriv else "inplace_empty")
        oracle(chk, inp, o)
        remeasure(chk, inp, m)
        if replies:
            for k, key in enumerate(("bytes", "len", "dumpd")):
                r = replies[3 * i + k]
                x = o[key]
                want = "ERR" if isinstance(x, Exception) else (W.hexs(x) if isinstance(x, bytes) else str(x))
                if (r[:3] == "ERR") != (want == "ERR") or (want != "ERR" and r != want):
                    chk.disagree(key + "-inplace", {"schema": b.schema_line(), "value": t}, r, want if want != "ERR" else repr(x))


POISON = {"int32": -(2 ** 63) - 1, "int64": -(2 ** 63) - 1, "uint32": -(2 ** 63) - 1, "uint64": -(2 ** 63) - 1,
          "sint32": 2 ** 64, "sint64": 2 ** 64, "enum": -(2 ** 63) - 1,
          "fixed32": 2 ** 32, "sfixed32": 2 ** 31, "fixed64": 2 ** 64, "sfixed64": 2 ** 63, "float": 1e39}


def poison(m):
    """append an item that cannot be encoded to the first numeric repeated field of m (after at least one good item);
    returns (field name, item) or None"""
    for name, meta in type(m)._betterproto.meta_by_field_name.items():
        if meta.proto_type in POISON:
            try:
                v = getattr(m, name)
            except AttributeError:
                continue
            if isinstance(v, list):
                if not v:
                    v.append(1)
                v.append(POISON[meta.proto_type])
                return name, POISON[meta.proto_type]
    return None


def after_failure_stage(chk, b):
    """state left behind by an encoding that FAILED part-way: a twin of each value gets an unencodable last item in a
    repeated numeric field, every observer is called on it (each must raise), and then a fresh, valid message of the
    same value is measured — len / dump / dump(SIZE_DELIMITED) / SerializeToString must still describe its bytes"""
    for v in b.values:
        try:
            bad = bpgen.to_py(v, b.classes)
            good = bpgen.to_py(v, b.classes)
        except Exception:
            continue
        ps = poison(bad)
        if ps is None:
            continue
        # the valid message needs a non-empty packed field of its own to meet whatever the failure left behind
        getattr(good, ps[0]).append(1) if not getattr(good, ps[0]) else None
        inp = {"schema": b.describe(), "value": bpgen.term(v), "after_failed_encode": {"field": ps[0], "item": repr(ps[1])}}
        ob = observe(bad)
        chk.count("after_failure_cases")
        if not all(isinstance(x, Exception) for x in ob.values()):
            chk.count("after_failure_poison_was_encodable")
            continue
        chk.case(b.schema_line() + "|poison|" + bpgen.term(v), True, {"after_failed_encode": inp["after_failed_encode"]})
        oracle(chk, inp, observe(good))


def boundary_ints(ty):
    lo, hi = bpgen.INT_RANGE[ty]
    out = {0, 1, -1, lo, hi, lo + 1, hi - 1}
    for k in range(1, 10):
        for c in (1 << (7 * k - 1), 1 << (7 * k)):
            for d in (-1, 0, 1):
                out.update((c + d, -c + d))
    return sorted(v for v in out if lo <= v <= hi)


def scalar_sweep(chk, drv):
    """every integer kind × every placement × every varint-length boundary (incl. the zig-zag image)"""
    kinds = [t for t in bpgen.SCALAR_T if t in bpgen.INT_RANGE]
    for t in kinds:
        fields = [bpgen.F("a", 1, t), bpgen.F("b", 2, t, optional=True), bpgen.F("c", 3, t, group=0), bpgen.F("d", 300, t, group=0),
                  bpgen.F("e", 5, t, repeated=True), bpgen.F("f", 6, "map", mapK="string", mapV=t)]
        if t in bpgen.MAPKEY_T:
            fields.append(bpgen.F("g", 7, "map", mapK=t, mapV="bool"))
        schema = [bpgen.M("W", fields, 1)]
        classes = bpgen.build_bp(schema)
        sid = "sw_" + t
        if drv:
            assert drv.ask1(bpgen.schema_line(sid, schema)) == "ok"

        class B:
            pass
        b = B()
        b.schema, b.classes, b.sid = schema, classes, sid
        b.describe = lambda schema=schema: [[f.line() for f in m.fields] for m in schema]
        b.schema_line = lambda sid=sid, schema=schema: bpgen.schema_line(sid, schema)
        b.values = []
        for v in boundary_ints(t):
            for i, f in enumerate(fields):
                if f.ty == "map":
                    val = ("D", [(("s", b"k"), ("i", v))]) if f.mapV == t else ("D", [(("i", v), ("b", True))])
                elif f.repeated:
                    val = ("l", [("i", v), ("i", 0), ("i", v)])
                else:
                    val = ("i", v)
                b.values.append(("c", 0, {i: val}))
        chk.count("sweep_" + t, len(b.values))
        one_batch(chk, drv, b)


def observe(m):
    out = {}
    try:
        out["bytes"] = bytes(m)
    except Exception as e:
        out["bytes"] = e
    try:
        out["len"] = len(m)
    except Exception as e:
        out["len"] = e
    try:
        s = io.BytesIO()
        m.dump(s)
        out["dump"] = s.getvalue()
    except Exception as e:
        out["dump"] = e
    try:
        s = io.BytesIO()
        m.dump(s, betterproto.SIZE_DELIMITED)
        out["dumpd"] = s.getvalue()
    except Exception as e:
        out["dumpd"] = e
    try:
        out["sts"] = m.SerializeToString()
    except Exception as e:
        out["sts"] = e
    return out


def oracle(chk, inp, o):
    b = o["bytes"]
    if isinstance(b, Exception):
        # the value cannot be encoded at all: every observer must raise too
        for k in ("len", "dump", "dumpd", "sts"):
            if not isinstance(o[k], Exception):
                chk.fail("bytes-raises-but-%s-does-not" % k, inp, repr(b))
        return
    if isinstance(o["len"], Exception) or o["len"] != len(b):
        chk.fail("len-differs", inp, "len=%r len(bytes)=%d bytes=%s" % (o["len"], len(b), b.hex()))
    if o["dump"] != b:
        chk.fail("dump-differs", inp, repr(o["dump"]))
    if o["sts"] != b:
        chk.fail("SerializeToString-differs", inp, repr(o["sts"]))
    want = betterproto.encode_varint(len(b)) + b
    if o["dumpd"] != want:
        chk.fail("delimited-differs", inp, "%r vs %s" % (o["dumpd"], want.hex()))


def one_batch(chk, drv, b):
    if drv:
        assert drv.ask1(b.schema_line()) == "ok", b.schema_line()
    lines = []
    for v in b.values:
        t = bpgen.term(v)
        lines += ["DUMP %s %s" % (b.sid, t), "LEN %s %s" % (b.sid, t), "DUMPD %s %s" % (b.sid, t)]
    replies = drv.ask(lines) if drv else None
    for i, v in enumerate(b.values):
        m = bpgen.to_py(v, b.classes)
        o = observe(m)
        inp = {"schema": b.describe(), "value": bpgen.term(v)}
        chk.case(b.schema_line() + "|" + bpgen.term(v), not W.is_trivial(v),
                 {"value": bpgen.term(v), "bytes": o["bytes"].hex() if isinstance(o["bytes"], bytes) else "raises", "len": repr(o["len"])})
        oracle(chk, inp, o)
        remeasure(chk, inp, m)
        if replies:
            for k, key in enumerate(("bytes", "len", "dumpd")):
                r = replies[3 * i + k]
                x = o[key]
                want = "ERR" if isinstance(x, Exception) else (W.hexs(x) if isinstance(x, bytes) else str(x))
                if (r[:3] == "ERR") != (want == "ERR") or (want != "ERR" and r != want):
                    chk.disagree(key, {"schema": b.schema_line(), "value": bpgen.term(v)}, r, want if want != "ERR" else repr(x))
        # second stage: a message that was parsed (unknown fields, presence from the wire)
        if isinstance(o["bytes"], bytes) and chk.rng.random() < 0.5:
            extra = bytes([0xf8, 0x7f, 0x05]) + o["bytes"] + bytes([0xfa, 0x7f, 0x02, 0x61, 0x62])
            ci = v[1]
            try:
                pm = b.classes[ci]().parse(extra)
            except Exception:
                continue
            po = observe(pm)
            oracle(chk, {"schema": b.describe(), "parsed_from": extra.hex(), "cls": ci}, po)
            chk.count("parsed_with_unknown")
            if drv:
                r = drv.ask1("PARSE %s %d %s" % (b.sid, ci, extra.hex()))
                if not is_err(r):
                    mb = r.split(" | ")[1]
                    if isinstance(po["bytes"], bytes) and mb != W.hexs(po["bytes"]):
                        chk.disagree("bytes-after-parse", {"schema": b.schema_line(), "bytes": extra.hex()}, mb, po["bytes"].hex())


WITNESS_SCHEMA = [bpgen.M("M0", [bpgen.F("s", 1, "string", optional=True), bpgen.F("y", 2, "bytes", optional=True),
                                 bpgen.F("m", 3, "message", kind="u0", optional=True)])]


def witness_fails(w):
    classes = bpgen.build_bp(WITNESS_SCHEMA)
    m = classes[0](**{w["field"]: {"s": "", "y": b"", "m": classes[0]()}[w["field"]]})
    return len(m) != len(bytes(m))


def replay_known(chk, entry):
    return witness_fails(entry["witness"])


def classify(failure, known):
    return None


def search(chk):
    for bi in range(1200):
        b = W.Batch(chk.rng, "x%d" % bi, 12)
        for v in b.values:
            m = bpgen.to_py(v, b.classes)
            oracle(chk, {"schema": b.describe(), "value": bpgen.term(v)}, observe(m))
        after_failure_stage(chk, b)
        if chk.oracle_failures:
            return


def replay(chk, rp):
    fl = rp.get("failure") or {}
    inp = fl.get("input") or {}
    if "built_in_place" in inp and "schema" in inp:
        schema = schema_from_desc(inp["schema"])
        classes = bpgen.build_bp(schema)
        c = type(chk)(chk.pid, "quick", 0)
        m0 = classes[int(inp["built_in_place"].split()[1])]()
        observe(m0)
        m0 = from_raw_term(inp["built_in_place"].split(), schema, classes, m0)[0]
        oracle(c, inp, observe(m0))
        remeasure(c, inp, m0)
        return bool(c.oracle_failures)
    if "after_failed_encode" in inp and "schema" in inp:
        schema = schema_from_desc(inp["schema"])
        classes = bpgen.build_bp(schema)
        v = parse_term(inp["value"].split())[0]
        c = type(chk)(chk.pid, "quick", 0)
        bad, good = bpgen.to_py(v, classes), bpgen.to_py(v, classes)
        ps = poison(bad)
        if ps is None:
            return True
        getattr(good, ps[0]).append(1) if not getattr(good, ps[0]) else None
        observe(bad)
        oracle(c, inp, observe(good))
        return bool(c.oracle_failures)
    if "value" in inp and "schema" in inp:
        schema = schema_from_desc(inp["schema"])
        classes = bpgen.build_bp(schema)
        v = parse_term(inp["value"].split())[0]
        c = type(chk)(chk.pid, "quick", 0)
        m0 = bpgen.to_py(v, classes)
        oracle(c, inp, observe(m0))
        remeasure(c, inp, m0)
        return bool(c.oracle_failures)
    return True


def from_raw_term(toks, schema, classes, m=None):
    """rebuild, in place, the instance a raw `m …` term of `fill_inplace` describes"""
    assert toks[0] == "m"
    ci, ow, ncur = int(toks[1]), toks[2] == "1", int(toks[4])
    rest = toks[5 + ncur:]
    n, rest = int(rest[0]), rest[1:]
    md = schema[ci]
    if m is None:
        m = classes[ci]()
    for i in range(n):
        f = md.fields[i]
        if rest[0] in ("P", "N"):
            rest = rest[1:]
        elif rest[0] == "m":
            _, rest = from_raw_term(rest, schema, classes, getattr(m, f.name))
        else:
            x, rest = parse_term(rest)
            if x[0] == "l":
                getattr(m, f.name).extend(bpgen.to_py(x, classes, f.ty))
            elif x[0] == "D":
                getattr(m, f.name).update(bpgen.to_py(x, classes, f.mapV))
            else:
                setattr(m, f.name, bpgen.to_py(x, classes, f.ty))
    return m, rest


def schema_from_desc(desc):
    schema = []
    for ci, fl in enumerate(desc):
        fields = []
        ng = 0
        for line in fl:
            t = line.split()
            f = bpgen.F(t[11], int(t[1]), t[2], t[3] == "1", t[4] == "1", None if t[5] == "-" else int(t[5]),
                        None if t[6] == "-" else t[6], t[7], t[8], t[9], t[10])
            if f.group is not None:
                ng = max(ng, f.group + 1)
            fields.append(f)
        schema.append(bpgen.M("M%d" % ci, fields, ng))
    return schema


def parse_term(t):
    k = t[0]
    if k in ("P", "N"):
        return (k,), t[1:]
    if k == "i":
        return ("i", int(t[1])), t[2:]
    if k == "b":
        return ("b", t[1] == "1"), t[2:]
    if k in ("f32", "f64"):
        return (k, int(t[1])), t[2:]
    if k in ("s", "y"):
        return (k, b"" if t[1] == "-" else bytes.fromhex(t[1])), t[2:]
    if k in ("t", "d"):
        return (k, int(t[1])), t[2:]
    if k == "l":
        n, rest, xs = int(t[1]), t[2:], []
        for _ in range(n):
            x, rest = parse_term(rest)
            xs.append(x)
        return ("l", xs), rest
    if k == "D":
        n, rest, xs = int(t[1]), t[2:], []
        for _ in range(n):
            a, rest = parse_term(rest)
            b, rest = parse_term(rest)
            xs.append((a, b))
        return ("D", xs), rest
    if k == "c":
        cls, n, rest, kw = int(t[1]), int(t[2]), t[3:], {}
        for _ in range(n):
            i = int(rest[0])
            x, rest = parse_term(rest[1:])
            kw[i] = x
        return ("c", cls, kw), rest
    raise ValueError(t)
