"""C10 — delimited streams read back intact; truncation never yields a partial message."""
import io

import betterproto
import bpgen
import wirecases as W
import wiresplit as WS
from common import is_err
from props.c09 import schema_from_desc, parse_term
from props.c08 import older_schema


def write_stream(msgs):
    s = io.BytesIO()
    ends = []
    for m in msgs:
        m.dump(s, betterproto.SIZE_DELIMITED)
        ends.append(s.tell())
    return s.getvalue(), ends


STREAMS = {
    "BytesIO": lambda data: io.BytesIO(data),
    # buffered readers (what open(path, "rb") / gzip.open / a socket file give): peek() exists and a read may be split over
    # refills — tiny buffers make every multi-byte length prefix straddle a buffer boundary somewhere
    "BufferedReader(7)": lambda data: io.BufferedReader(io.BytesIO(data), buffer_size=7),
    "BufferedReader(16)": lambda data: io.BufferedReader(io.BytesIO(data), buffer_size=16),
    "BufferedReader(129)": lambda data: io.BufferedReader(io.BytesIO(data), buffer_size=129),
}


def read_stream(classes_seq, data, kind="BytesIO"):
    """successive loads; returns list of ('ok', msg, tell) / ('err', exc, tell)"""
    s = STREAMS[kind](data)
    out = []
    for cls in classes_seq:
        try:
            m = cls().load(s, betterproto.SIZE_DELIMITED)
            out.append(("ok", m, s.tell()))
        except Exception as e:
            out.append(("err", e, s.tell()))
            break
    return out


def oracle(chk, inp, msgs, classes_seq, quick, rng):
    from google.protobuf.internal import encoder as ref_encoder
    try:
        data, ends = write_stream(msgs)
    except Exception as e:
        chk.fail("delimited-dump-raises", inp, repr(e))
        return None, None
    # framing = varint length prefix the reference reads and writes
    want = b"".join(ref_encoder._VarintBytes(len(bytes(m))) + bytes(m) for m in msgs)
    if data != want:
        chk.fail("framing-differs-from-reference", inp, "%s vs %s" % (data.hex(), want.hex()))
    res = read_stream(classes_seq, data + b"\x07tail")
    if len(res) != len(msgs) or any(r[0] != "ok" for r in res):
        chk.fail("stream-not-read-back", inp, repr([(r[0], repr(r[1])) for r in res]))
    else:
        for (k, m2, tell), m, end in zip(res, msgs, ends):
            if tell != end:
                chk.fail("load-consumed-wrong-count", inp, "tell=%d expected=%d" % (tell, end))
            if not (m2 == m) or bytes(m2) != bytes(m):
                chk.fail("message-differs-after-stream", inp, "%r vs %r" % (m2, m))
    # the same stream through buffered readers
    for kind in STREAMS:
        if kind == "BytesIO":
            continue
        res2 = read_stream(classes_seq, data + b"\x07tail", kind)
        if len(res2) != len(msgs) or any(r[0] != "ok" for r in res2):
            chk.fail("stream-not-read-back", dict(inp, stream=kind), repr([(r[0], repr(r[1])) for r in res2]))
        else:
            for (k, m2, tell), m, end in zip(res2, msgs, ends):
                if tell != end or not (m2 == m) or bytes(m2) != bytes(m):
                    chk.fail("message-differs-after-stream", dict(inp, stream=kind), "tell=%d expected=%d; %r vs %r" % (tell, end, m2, m))
    # every cut point: each load returns the written message or raises
    cuts = range(len(data)) if (quick is False or len(data) <= 40) else sorted(rng.sample(range(len(data)), 40))
    for cut in cuts:
        res = read_stream(classes_seq, data[:cut])
        for j, r in enumerate(res):
            if r[0] == "ok":
                if ends[j] > cut:
                    chk.fail("truncated-stream-returned-message", dict(inp, cut=cut), "load %d returned %r" % (j, r[1]))
                elif not (r[1] == msgs[j]) or bytes(r[1]) != bytes(msgs[j]):
                    chk.fail("shortened-message", dict(inp, cut=cut), "load %d returned %r" % (j, r[1]))
        nfull = sum(1 for e in ends if e <= cut)
        if sum(1 for r in res if r[0] == "ok") != nfull:
            chk.fail("wrong-number-of-messages-before-cut", dict(inp, cut=cut), "%d vs %d" % (sum(1 for r in res if r[0] == "ok"), nfull))
    return data, ends


def inplace_stream(chk, b):
    """a stream of messages that were built by Cls() and filled IN PLACE (their own `serialized_on_wire` stays False):
    what is read back is the sequence that was written"""
    from props.c09 import fill_inplace
    msgs, seq, terms = [], [], []
    for v in b.values[:6]:
        ci = v[1]
        try:
            m = b.classes[ci]()
            terms.append(fill_inplace(m, b, ci, v, chk.rng))
            bytes(m)
        except Exception as e:
            chk.count("inplace_skipped_" + type(e).__name__)
            continue
        msgs.append(m)
        seq.append(b.classes[ci])
    if not msgs:
        return
    inp = {"schema": b.describe(), "built_in_place": terms, "classes": [b.classes.index(c) for c in seq]}
    chk.case(b.schema_line() + "|inplace-stream|" + "|".join(terms), any(bytes(m) for m in msgs), {"stream_of_in_place_built": len(msgs)})
    chk.count("inplace_streams")
    oracle(chk, inp, msgs, seq, True, chk.rng)


def rewritten_case(chk, describe, schema_line, classes, v):
    """one object: dump(SIZE_DELIMITED), len(), grow in place, dump(SIZE_DELIMITED) again; read both frames back"""
    from google.protobuf.internal import encoder as ref_encoder
    from props.c09 import grow_in_place
    ci = v[1]
    try:
        m = bpgen.to_py(v, classes)
        s = io.BytesIO()
        m.dump(s, betterproto.SIZE_DELIMITED)
        first = bytes(m)
        len(m)
        if not grow_in_place(m):
            return
        m.dump(s, betterproto.SIZE_DELIMITED)
        second = bytes(m)
    except Exception as e:
        chk.count("rewritten_skipped_" + type(e).__name__)
        return
    chk.count("rewritten_streams")
    inp = {"schema": describe, "value": bpgen.term(v), "classes": [ci, ci],
           "history": "dump(SIZE_DELIMITED); len(); containers grown in place; dump(SIZE_DELIMITED) again"}
    chk.case(schema_line + "|rewritten|" + bpgen.term(v), True, {"rewritten": bpgen.term(v)[:200]})
    data = s.getvalue()
    if len(second) <= len(first):
        chk.fail("bytes-did-not-grow-after-in-place-growth", inp, "first frame body %s, second %s" % (first.hex(), second.hex()))
        return
    want = ref_encoder._VarintBytes(len(first)) + first + ref_encoder._VarintBytes(len(second)) + second
    if data != want:
        chk.fail("framing-differs-after-in-place-change", inp, "%s vs %s" % (data.hex(), want.hex()))
        return
    res = read_stream([classes[ci], classes[ci]], data)
    if len(res) != 2 or any(r[0] != "ok" for r in res) or bytes(res[0][1]) != first or bytes(res[1][1]) != second:
        chk.fail("rewritten-stream-not-read-back", inp, repr([(r[0], repr(r[1])) for r in res]))


def rewritten_stream(chk, b):
    """the SAME object written twice with an in-place change in between (list.append, nested growth — no attribute
    assignment on the object itself, and len() taken before the change): each frame must carry the length of what
    follows it, and two loads must give back the two states"""
    for v in b.values[:5]:
        rewritten_case(chk, b.describe(), b.schema_line(), b.classes, v)


def fail_a_delimited_dump(classes, v):
    """a twin of value v with an unencodable LAST item in a repeated numeric field (props.c09.poison) is written with
    dump(SIZE_DELIMITED): the call must raise (after its earlier fields were encoded); returns the poison or None"""
    from props.c09 import poison
    try:
        bad = bpgen.to_py(v, classes)
    except Exception:
        return None
    ps = poison(bad)
    if ps is None:
        return None
    try:
        bad.dump(io.BytesIO(), betterproto.SIZE_DELIMITED)
    except Exception:
        return ps
    return None


def after_failure_stream(chk, b, rng):
    """state left behind by a delimited dump that RAISED part-way: right after it, on the same thread, a stream of valid
    messages is written to a fresh stream and must be framed and read back exactly as always"""
    for v in b.values[:6]:
        ps = fail_a_delimited_dump(b.classes, v)
        chk.count("after_failure_tried")
        if ps is None:
            continue
        vals = [rng.choice(b.values) for _ in range(rng.choice([1, 2, 3]))]
        try:
            msgs = [bpgen.to_py(x, b.classes) for x in vals]
        except Exception:
            continue
        cis = [x[1] for x in vals]
        inp = {"schema": b.describe(), "values": [bpgen.term(x) for x in vals], "classes": cis, "bytes": [bytes(m).hex() for m in msgs],
               "after_failed_delimited_dump": {"value": bpgen.term(v), "field": ps[0], "item": repr(ps[1])}}
        chk.count("after_failure_streams")
        chk.case(b.schema_line() + "|after-failure|" + bpgen.term(v) + repr(inp["bytes"]), True, {"after_failed_delimited_dump": inp["after_failed_delimited_dump"]})
        oracle(chk, inp, msgs, [type(m) for m in msgs], True, rng)


def run(chk, drv):
    quick = chk.tier == "quick"
    rng = chk.rng
    length_sweep(chk, drv)
    chk.extra["rule"] = ("messages whose encoded length sits on every boundary of the length prefix (0, 127/128, 256, 16383/16384, …); sequences of 0..6 messages of mixed types from a random schema (empty messages, messages parsed with unknown fields, "
                         "default-but-present optional members) written with dump(SIZE_DELIMITED); read back by successive loads, by an older-schema reader, "
                         "and at every cut point (quick: ≤ 40 cut points per stream); plus streams written right after a delimited dump of a twin RAISED part-way (unencodable last item). non-trivial = stream with ≥ 1 message; distinct by (schema, stream)")
    nb = 60 if quick else 500
    for bi in range(nb):
        b = W.Batch(rng, "d%d" % bi, 8)
        W.count_features(chk, b)
        if drv:
            assert drv.ask1(b.schema_line()) == "ok"
        inplace_stream(chk, b)
        rewritten_stream(chk, b)
        after_failure_stream(chk, b, rng)
        for rep in range(2):
            n = rng.choice([0, 1, 2, 3, 4, 6])
            vals = [rng.choice(b.values) for _ in range(n)]
            msgs = []
            for v in vals:
                r = rng.random()
                if r < 0.15:
                    msgs.append(b.classes[v[1]]())                      # empty message
                elif r < 0.3:
                    m = bpgen.to_py(v, b.classes)
                    try:
                        extra = bytes(m) + WS.random_unknown_record(rng, {f.num for f in b.schema[v[1]].fields})
                        msgs.append(b.classes[v[1]]().parse(extra))     # carries unknown fields
                    except Exception:
                        msgs.append(m)
                else:
                    msgs.append(bpgen.to_py(v, b.classes))
            cls_seq = [type(m) for m in msgs]
            cis = [b.classes.index(c) for c in cls_seq]
            inp = {"schema": b.describe(), "values": [bpgen.term(v) for v in vals], "classes": cis,
                   "bytes": [bytes(m).hex() for m in msgs]}
            data, ends = oracle(chk, inp, msgs, cls_seq, quick, rng)
            chk.case(b.schema_line() + repr(inp["bytes"]), n > 0, {"stream": data.hex() if data else None, "messages": n})
            chk.count("stream_len_%d" % n)
            if data is None:
                continue
            # older-schema reader on the same stream
            olds = older_schema(rng, b.schema)
            try:
                oc = bpgen.build_bp(olds)
                res = read_stream([oc[ci] for ci in cis], data)
                if len(res) != len(msgs) or any(r[0] != "ok" for r in res):
                    chk.fail("older-reader-fails-on-stream", dict(inp, older=[[f.line() for f in mm.fields] for mm in olds]),
                             repr([(r[0], repr(r[1])) for r in res]))
                else:
                    for (k, m2, tell), m, end in zip(res, msgs, ends):
                        if tell != end or bytes(type(m)().parse(bytes(m2))) != bytes(m):
                            chk.fail("older-reader-misreads-stream", dict(inp, older=[[f.line() for f in mm.fields] for mm in olds]), "tell=%d end=%d" % (tell, end))
            except Exception as e:
                chk.fail("older-reader-raises", inp, repr(e))
            # correspondence: the model's delimited writer and reader
            if drv:
                pos = 0
                for v, m, ci, end in zip(vals, msgs, cis, ends):
                    r = drv.ask1("LOADD %s %d %s" % (b.sid, ci, W.hexs(data[pos:])))
                    try:
                        m3 = b.classes[ci]().load(io.BytesIO(data[pos:]), betterproto.SIZE_DELIMITED)
                        want = "%s | %s | %d" % (bpgen.obs_msg(m3, b.schema, ci), W.hexs(bytes(m3)), len(data) - end)
                    except Exception as e:
                        want = "ERR " + repr(e)
                    if r != want:
                        chk.disagree("delimited-load", {"schema": b.schema_line(), "stream": data[pos:].hex(), "cls": ci}, r, want)
                    pos = end
                # cut points through the model
                for cut in sorted(rng.sample(range(len(data) + 1), min(len(data) + 1, 6))) if data else []:
                    r = drv.ask1("LOADD %s %d %s" % (b.sid, cis[0], W.hexs(data[:cut])))
                    try:
                        m3 = b.classes[cis[0]]().load(io.BytesIO(data[:cut]), betterproto.SIZE_DELIMITED)
                        want = "ok"
                    except Exception:
                        want = "ERR"
                    if is_err(r) != (want == "ERR"):
                        chk.disagree("delimited-load-cut", {"schema": b.schema_line(), "stream": data[:cut].hex()}, r, want)


def length_sweep(chk, drv):
    """messages whose encoded length sits on every boundary of the varint length prefix"""
    schema = [bpgen.M("L", [bpgen.F("p", 1, "bytes"), bpgen.F("i", 2, "int32")]), bpgen.M("O", [bpgen.F("i", 2, "int32")])]
    L, O = bpgen.build_bp(schema)
    if drv:
        assert drv.ask1(bpgen.schema_line("lsw", schema)) == "ok"
    targets = sorted({t + d for t in (0, 127, 128, 256, 384, 16383, 16384, 16512, 32768) for d in (-2, -1, 0, 1, 2) if t + d >= 0})
    if chk.tier != "quick":
        targets = sorted(set(targets) | set(range(0, 600)) | {2097151, 2097152, 2097153})
    for t in targets:
        # choose the payload so that len(bytes(m)) == t
        n = max(t - 3, 0)
        m = L(p=b"x" * n)
        while len(bytes(m)) < t:
            n += 1
            m = L(p=b"x" * n)
        while len(bytes(m)) > t and n > 0:
            n -= 1
            m = L(p=b"x" * n)
        if len(bytes(m)) != t:
            continue
        msgs = [m, L(i=7), m]
        inp = {"schema": [[f.line() for f in mm.fields] for mm in schema], "values": ["L(p=b'x'*%d)" % n, "L(i=7)", "same"],
               "classes": [0, 0, 0], "bytes": [bytes(x).hex() for x in msgs]}
        chk.case("lsw %d" % t, True, {"body_length": t})
        chk.count("length_sweep")
        data, ends = oracle(chk, inp, msgs, [L, L, L], True, chk.rng)
        if data is None:
            continue
        # older reader: everything but field 2 is unknown to it
        res = read_stream([O, O, O], data)
        if len(res) != 3 or any(r[0] != "ok" for r in res) or [r[2] for r in res] != ends:
            chk.fail("older-reader-fails-on-stream", inp, repr([(r[0], r[2]) for r in res]))
        if drv:
            r = drv.ask1("LOADD lsw 0 %s" % W.hexs(data))
            try:
                m3 = L().load(io.BytesIO(data), betterproto.SIZE_DELIMITED)
                want = "%s | %s | %d" % (bpgen.obs_msg(m3, schema, 0), W.hexs(bytes(m3)), len(data) - ends[0])
            except Exception as e:
                want = "ERR " + repr(e)
            if r != want:
                chk.disagree("delimited-load length sweep", {"body_length": t}, r[:120], want[:120])


def _d12_size0():
    schema = [bpgen.M("E", []), bpgen.M("M1", [bpgen.F("i", 2, "int32")])]
    E, M1 = bpgen.build_bp(schema)
    data, ends = write_stream([E(), M1(i=5)])
    res = read_stream([E, M1], data)
    return not (len(res) == 2 and res[0][0] == "ok" and res[1][0] == "ok" and res[1][1].i == 5)


def _d12_unknown():
    schema = [bpgen.M("M0", [bpgen.F("i", 2, "int32"), bpgen.F("u", 7, "uint64")])]
    old = [bpgen.M("M0", [bpgen.F("i", 2, "int32")])]
    N, = bpgen.build_bp(schema)
    O, = bpgen.build_bp(old)
    data, ends = write_stream([N(i=5, u=7), N(i=6)])
    res = read_stream([O, O], data)
    return not (len(res) == 2 and all(r[0] == "ok" for r in res) and res[1][1].i == 6)


def _d01_prefix():
    schema = [bpgen.M("M0", [bpgen.F("s", 1, "string", optional=True)])]
    C, = bpgen.build_bp(schema)
    data, _ = write_stream([C(s="")])
    return data != b"\x02\x0a\x00"


def replay_known(chk, entry):
    k = entry["witness"].get("kind")
    if k == "size0":
        return _d12_size0()
    if k == "unknown-accounting":
        return _d12_unknown()
    if entry["id"] == "D01":
        return _d01_prefix()
    return False


def classify(failure, known):
    return None


def search(chk):
    saved = chk.tier
    chk.tier = "thorough"
    try:
        run(chk, None)
    finally:
        chk.tier = saved


def replay(chk, rp):
    inp = (rp.get("failure") or {}).get("input") or {}
    if "history" in inp and "value" in inp and "schema" in inp:
        schema = schema_from_desc(inp["schema"])
        classes = bpgen.build_bp(schema)
        c = type(chk)(chk.pid, "thorough", 0)
        rewritten_case(c, inp["schema"], "", classes, parse_term(inp["value"].split())[0])
        return bool(c.oracle_failures)
    if "bytes" in inp and "schema" in inp:
        schema = schema_from_desc(inp["schema"])
        classes = bpgen.build_bp(schema)
        if "after_failed_delimited_dump" in inp:
            fail_a_delimited_dump(classes, parse_term(inp["after_failed_delimited_dump"]["value"].split())[0])
        msgs = [classes[ci]().parse(bytes.fromhex(h)) for ci, h in zip(inp["classes"], inp["bytes"])]
        c = type(chk)(chk.pid, "thorough", 0)
        oracle(c, inp, msgs, [type(m) for m in msgs], False, c.rng)
        return bool(c.oracle_failures)
    return True
