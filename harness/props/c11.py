"""C11 — generated gRPC stub and server base agree.

(A) ORACLE on the real implementation: random service schemas are rendered to .proto text,
compiled with protoc + the plugin of the working tree, imported, and every method is called
through the generated `<Svc>Stub` over `grpclib.testing.ChannelFor` against a recording
subclass of the generated `<Svc>Base`.  Observed: which route the server dispatched (the
harness wraps every `grpclib.const.Handler.func` of the real `__mapping__`), which python
handler ran, with which requests, what the caller received, UNIMPLEMENTED for a method that
is not overridden, a handler's GRPCError status/message, server-side `stream.metadata` /
`stream.deadline` for all 8 x 8 None/set combinations of stub-level and call-level
timeout / deadline / metadata; and the static content of `__mapping__`.

(B) CORRESPONDENCE with the Lean model (`GROUTE`, `GCARD`, `GKW` lines, see `correspond`).

Every failure input is a complete replay: proto texts, plugin options, service, method, mode,
stream lengths, iterator kind, value seed, kw combination."""
import asyncio
import concurrent.futures
import hashlib
import importlib
import inspect
import json
import logging
import random
import time

import betterproto
import grpclib
import grpclib.const
from betterproto.grpc.grpclib_server import ServiceBase
from grpclib.const import Status
from grpclib.metadata import Deadline
from grpclib.testing import ChannelFor

import pluginrun

PARTIAL = ("delivery once / in order and status propagation happen inside grpclib's transport: "
           "observed end to end on generated services, not proved")

# names that need re-casing; python names are pairwise distinct (checked by `pykey`)
METHOD_POOL = ["GetThing", "getHTTPResponse", "do_it", "XMLParse2", "List", "Stream", "A", "Import", "Ping",
               "get_HTTP", "Echo2Way", "lowercase", "UPPER", "Get_Thing_V2", "X1Y2", "Return", "Async"]
SERVICE_POOL = ["Svc", "HTTPService", "my_service", "XMLApi2", "Test_Service", "S"]
PACKAGES = ["", "pkg", "a.b.c"]
EXT_PACKAGE = "other.sub"
EXT_FILE = "other/sub/ext.proto"
MAIN_FILE = "svc.proto"
KINDS = ["local", "local2", "ext", "empty", "strval", "ts"]
PROTO_TYPE = {"local": "Thing", "local2": "ThingReply", "ext": ".other.sub.Ext", "empty": "google.protobuf.Empty",
              "strval": "google.protobuf.StringValue", "ts": "google.protobuf.Timestamp"}
KIND_CLASS = {"local": "local", "local2": "local", "ext": "cross", "empty": "wkt", "strval": "wkt", "ts": "wkt"}
WKT_IMPORT = {"empty": "google/protobuf/empty.proto", "strval": "google/protobuf/wrappers.proto",
              "ts": "google/protobuf/timestamp.proto"}
WKT_NAME = {"empty": "Empty", "strval": "StringValue", "ts": "Timestamp"}
CARDS = [(False, False), (False, True), (True, False), (True, True)]
CARD_NAME = {(False, False): "UNARY_UNARY", (False, True): "UNARY_STREAM", (True, False): "STREAM_UNARY", (True, True): "STREAM_STREAM"}
HELPER = {(False, False): "_unary_unary", (False, True): "_unary_stream", (True, False): "_stream_unary", (True, True): "_stream_stream"}
HELPERS = list(HELPER.values())
# every non-OK status a handler can raise (a client that treats one of them specially — retries it, maps it to
# another exception — breaks "the handler's status reaches the caller" / "invoked exactly once" for that code only)
STATUSES = ["CANCELLED", "UNKNOWN", "INVALID_ARGUMENT", "DEADLINE_EXCEEDED", "NOT_FOUND", "ALREADY_EXISTS", "PERMISSION_DENIED",
            "RESOURCE_EXHAUSTED", "FAILED_PRECONDITION", "ABORTED", "OUT_OF_RANGE", "UNIMPLEMENTED", "INTERNAL", "UNAVAILABLE",
            "DATA_LOSS", "UNAUTHENTICATED"]
OPT_SETS = [(), ("typing.root",), ("pydantic_dataclasses",)]
KW_VALUES = [{"st": 11.0, "ct": 22.0, "sd": 33.0, "cd": 44.0}, {"st": 44.0, "ct": 33.0, "sd": 22.0, "cd": 11.0}]
CALL_TIMEOUT = 20.0      # harness guard against a hung call (seconds)
# the in-process grpclib server logs every handler exception with a traceback; the oracle reports them itself
logging.getLogger("grpclib.server").setLevel(logging.CRITICAL)

EXT_PROTO = """syntax = "proto3";
package other.sub;
message Ext {
  string name = 1;
  int64 n = 2;
}
"""


def pykey(name):
    return name.lower().replace("_", "")


# ------------------------------------------------------------------ schema generation

class Deck:
    """cycles through the four cardinalities in shuffled order: any 4 consecutive draws cover all"""

    def __init__(self, rng, items=None):
        self.rng, self.items, self.cards = rng, list(items if items is not None else CARDS), []

    def draw(self):
        if not self.cards:
            self.cards = list(self.items)
            self.rng.shuffle(self.cards)
        return self.cards.pop()


def gen_schema(rng, deck, min_methods=1, pkg_deck=None):
    nsvc = 2 if rng.random() < 0.3 else 1
    names, keys = [], set()
    while len(names) < nsvc:
        n = rng.choice(SERVICE_POOL)
        if pykey(n) not in keys:
            keys.add(pykey(n))
            names.append(n)
    services = []
    for si, sname in enumerate(names):
        nm = rng.randint(max(1, min_methods if si == 0 else 1), 5)
        mnames, mkeys = [], set()
        while len(mnames) < nm:
            n = rng.choice(METHOD_POOL)
            if pykey(n) not in mkeys:
                mkeys.add(pykey(n))
                mnames.append(n)
        methods = []
        for n in mnames:
            cs, ss = deck.draw()
            methods.append([n, cs, ss, rng.choice(KINDS), rng.choice(KINDS)])
        services.append({"name": sname, "methods": methods})
    return {"package": pkg_deck.draw() if pkg_deck else rng.choice(PACKAGES), "services": services}


def render(schema):
    kinds = {k for s in schema["services"] for m in s["methods"] for k in (m[3], m[4])}
    out = ['syntax = "proto3";']
    if schema["package"]:
        out.append("package %s;" % schema["package"])
    for k in sorted(kinds):
        if k in WKT_IMPORT:
            out.append('import "%s";' % WKT_IMPORT[k])
    if "ext" in kinds:
        out.append('import "%s";' % EXT_FILE)
    out.append("message Thing {\n  int32 a = 1;\n  string b = 2;\n  repeated int32 c = 3;\n}")
    out.append("message ThingReply {\n  int32 code = 1;\n  string text = 2;\n  repeated int32 nums = 3;\n}")
    for s in schema["services"]:
        out.append("service %s {" % s["name"])
        for n, cs, ss, ik, ok in s["methods"]:
            out.append("  rpc %s(%s%s) returns (%s%s);" % (n, "stream " if cs else "", PROTO_TYPE[ik], "stream " if ss else "", PROTO_TYPE[ok]))
        out.append("}")
    protos = {MAIN_FILE: "\n".join(out) + "\n"}
    if "ext" in kinds:
        protos[EXT_FILE] = EXT_PROTO
    return protos


# ------------------------------------------------------------------ message values

def gen_int(rnd, bits):
    r = rnd.random()
    if r < 0.2:
        return 0
    if r < 0.5:
        return rnd.choice([1, -1, 127, 128, 300, (1 << (bits - 1)) - 1, -(1 << (bits - 1))])
    return rnd.randint(-(1 << (bits - 1)), (1 << (bits - 1)) - 1)


def gen_str(rnd):
    r = rnd.random()
    if r < 0.2:
        return ""
    alphabet = "abcXYZ 09_/%" if r < 0.8 else "aé日ñ Ω"
    return "".join(rnd.choice(alphabet) for _ in range(rnd.randint(1, 12)))


def gen_kwargs(rnd, kind):
    if kind == "local":
        return {"a": gen_int(rnd, 32), "b": gen_str(rnd), "c": [gen_int(rnd, 32) for _ in range(rnd.choice([0, 0, 1, 2, 5]))]}
    if kind == "local2":
        return {"code": gen_int(rnd, 32), "text": gen_str(rnd), "nums": [gen_int(rnd, 32) for _ in range(rnd.choice([0, 1, 3]))]}
    if kind == "ext":
        return {"name": gen_str(rnd), "n": gen_int(rnd, 64)}
    if kind == "strval":
        return {"value": gen_str(rnd)}
    if kind == "ts":
        return {"seconds": rnd.choice([0, 1, rnd.randint(0, 253402300799)]), "nanos": rnd.choice([0, rnd.randint(0, 999999999)])}
    return {}


def is_default(kw):
    return not any(kw.values())


# ------------------------------------------------------------------ loading a generated schema

class Method:
    def __init__(self, index, proto, cs, ss, ik, ok):
        self.index, self.proto, self.cs, self.ss, self.ik, self.ok = index, proto, cs, ss, ik, ok
        self.py = self.py_base = None
        self.in_cls = self.out_cls = None
        self.route = None


class Service:
    def __init__(self, name, package, methods):
        self.name = name
        self.methods = [Method(i, *m) for i, m in enumerate(methods)]
        prefix = "/" + (package + "." if package else "") + name + "/"
        for m in self.methods:
            m.route = prefix + m.proto          # built from the PROTO names by the harness
        self.stub_cls = self.base_cls = None

    def method(self, proto):
        for m in self.methods:
            if m.proto == proto:
                return m
        raise KeyError(proto)


def public_async(cls):
    return [n for n, v in vars(cls).items()
            if not n.startswith("_") and (inspect.iscoroutinefunction(v) or inspect.isasyncgenfunction(v))]


class Env:
    """one generated schema, imported"""

    def __init__(self, schema, protos, opts, gen=None):
        self.schema, self.protos, self.opts = schema, protos, tuple(opts)
        self.gen = gen
        self.services = [Service(s["name"], schema["package"], s["methods"]) for s in schema["services"]]

    def base_input(self, si=0):
        return {"protos": self.protos, "opts": list(self.opts), "package": self.schema["package"],
                "service": self.services[si].name, "service_index": si, "schema": self.schema}

    def load(self):
        """returns a list of (kind, detail) problems (empty = usable)"""
        if self.gen is None:
            self.gen = pluginrun.generate(self.protos, self.opts)
        g = self.gen
        if not g.ok:
            return [("generation-failed", g.log[-600:])]
        try:
            mod = g.import_module(self.schema["package"])
            extmod = g.import_module(EXT_PACKAGE) if EXT_FILE in self.protos else None
        except BaseException as e:  # noqa
            if isinstance(e, KeyboardInterrupt):
                raise
            return [("import-failed", "%s: %s" % (type(e).__name__, str(e)[:400]))]
        wkt = importlib.import_module("betterproto.lib.pydantic.google.protobuf" if "pydantic_dataclasses" in self.opts
                                      else "betterproto.lib.google.protobuf")
        try:
            classes = {"local": mod.Thing, "local2": mod.ThingReply}
            if extmod is not None:
                classes["ext"] = extmod.Ext
            for k, n in WKT_NAME.items():
                classes[k] = getattr(wkt, n)
        except AttributeError as e:
            return [("import-failed", "message class missing: %s" % e)]
        # services and methods are matched by POSITION (declaration order); names are data
        stubs = [v for v in vars(mod).values() if isinstance(v, type) and issubclass(v, betterproto.ServiceStub) and v.__module__ == mod.__name__]
        bases = [v for v in vars(mod).values() if isinstance(v, type) and issubclass(v, ServiceBase) and v.__module__ == mod.__name__]
        if len(stubs) != len(self.services) or len(bases) != len(self.services):
            return [("class-shape", "%d services declared, %d stub classes, %d base classes" % (len(self.services), len(stubs), len(bases)))]
        probs = []
        for svc, sc, bc in zip(self.services, stubs, bases):
            svc.stub_cls, svc.base_cls = sc, bc
            sm, bm = public_async(sc), public_async(bc)
            if not sc.__name__.endswith("Stub") or not bc.__name__.endswith("Base") or sc.__name__[:-4] != bc.__name__[:-4]:
                probs.append(("class-shape", "stub %s / base %s" % (sc.__name__, bc.__name__)))
            if len(sm) != len(svc.methods) or len(bm) != len(svc.methods) or sm != bm:
                probs.append(("class-shape", "service %s: %d rpcs declared, stub methods %r, base methods %r" % (svc.name, len(svc.methods), sm, bm)))
                continue
            for m, ps, pb in zip(svc.methods, sm, bm):
                m.py, m.py_base = ps, pb
                m.in_cls, m.out_cls = classes[m.ik], classes[m.ok]
        return probs

    def cleanup(self):
        if self.gen is not None:
            self.gen.cleanup()
            self.gen = None


# ------------------------------------------------------------------ static agreement of the generated classes

def static_checks(env, si):
    svc = env.services[si]
    fails = []
    try:
        mapping = svc.base_cls().__mapping__()
    except Exception as e:  # noqa
        return [("mapping-route", "__mapping__() raised %r" % (e,))]
    keys = list(mapping)
    want = [m.route for m in svc.methods]
    if len(set(want)) != len(want):
        fails.append(("mapping-route", "harness bug: expected routes not distinct %r" % want))
    if len(keys) != len(svc.methods) or len(set(keys)) != len(svc.methods):
        fails.append(("mapping-route", "%d methods but mapping keys %r" % (len(svc.methods), keys)))
    if set(keys) != set(want):
        fails.append(("mapping-route", "mapping keys %r, routes from the proto names %r" % (keys, want)))
    for i, m in enumerate(svc.methods):
        h = mapping.get(m.route)
        if h is None:
            if i >= len(keys):
                continue
            h = mapping[keys[i]]
        if h.cardinality.name != CARD_NAME[(m.cs, m.ss)] or (h.cardinality.value.client_streaming, h.cardinality.value.server_streaming) != (m.cs, m.ss):
            fails.append(("mapping-cardinality", "%s: flags %s/%s but handler cardinality %s" % (m.proto, m.cs, m.ss, h.cardinality.name)))
        if h.request_type is not m.in_cls or h.reply_type is not m.out_cls:
            fails.append(("mapping-types", "%s: handler types (%r, %r), expected (%r, %r)" % (m.proto, h.request_type, h.reply_type, m.in_cls, m.out_cls)))
    return fails


# ------------------------------------------------------------------ recording service

class State:
    def __init__(self):
        self.log = []        # (method index, python name, [requests]) appended by the overriding handlers
        self.dispatch = []   # {"route", "metadata", "deadline"} appended by the wrapped Handler.func
        self.requests = []   # (route, cardinality, request_type, reply_type) seen by channel.request
        self.helpers = []    # (helper name, route) seen on the stub instance
        self.resps = []
        self.err = None      # (Status, message) raised by the handler after consuming its requests
        self.pingpong = False  # stream-stream handler answers every request immediately


def make_handler(m, st):
    entry = (m.index, m.py_base)
    if not m.cs and not m.ss:
        async def h(self, request):
            st.log.append(entry + ([request],))
            if st.err:
                raise grpclib.GRPCError(*st.err)
            return st.resps[0]
    elif not m.cs and m.ss:
        async def h(self, request):
            st.log.append(entry + ([request],))
            for r in st.resps:
                yield r
            if st.err:
                raise grpclib.GRPCError(*st.err)
    elif m.cs and not m.ss:
        async def h(self, it):
            reqs = []
            st.log.append(entry + (reqs,))
            async for r in it:
                reqs.append(r)
            if st.err:
                raise grpclib.GRPCError(*st.err)
            return st.resps[0]
    else:
        async def h(self, it):
            reqs = []
            st.log.append(entry + (reqs,))
            async for r in it:
                reqs.append(r)
                if st.pingpong and len(reqs) <= len(st.resps):
                    yield st.resps[len(reqs) - 1]      # interactive use: answer each request at once
            if not st.pingpong:
                for r in st.resps:
                    yield r
            if st.err:
                raise grpclib.GRPCError(*st.err)
    return h


def make_service(svc, unimpl):
    """recording subclass of the generated base; `unimpl` (proto name or None) is left un-overridden"""
    st = State()
    base = svc.base_cls
    ns = {}
    for m in svc.methods:
        if m.proto != unimpl:
            ns[m.py_base] = make_handler(m, st)

    def __mapping__(self):
        out = {}
        for key, h in base.__mapping__(self).items():
            out[key] = grpclib.const.Handler(wrap(key, h.func), h.cardinality, h.request_type, h.reply_type)
        return out

    def wrap(key, func):
        async def dispatched(stream):
            dl = stream.deadline
            st.dispatch.append({"route": key, "metadata": dict(stream.metadata or {}),
                                "deadline": None if dl is None else dl.time_remaining()})
            await func(stream)
        return dispatched

    ns["__mapping__"] = __mapping__
    cls = type("Rec" + base.__name__, (base,), ns)
    return st, cls()


def probe_channel(channel, st):
    orig = channel.request

    def request(*a, **k):
        st.requests.append(tuple(a[:4]))
        return orig(*a, **k)
    channel.request = request


def probe_stub(stub, st):
    for name in HELPERS:
        orig = getattr(stub, name, None)
        if orig is None:
            continue

        def rec(*a, _name=name, _orig=orig, **k):
            st.helpers.append((_name, a[0] if a else k.get("route")))
            return _orig(*a, **k)
        try:
            setattr(stub, name, rec)
        except Exception:  # noqa
            pass


async def agen(items):
    for x in items:
        await asyncio.sleep(0)
        yield x


# ------------------------------------------------------------------ one call case

def kw_expect(kw):
    """what the server must observe for a stub-level / call-level combination"""
    v = kw["values"]
    st_, sd, sm = kw["stub"]
    ct, cd, cm = kw["call"]
    timeout = v["ct"] if ct else (v["st"] if st_ else None)          # call-level if not None else stub-level
    deadline = v["cd"] if cd else (v["sd"] if sd else None)
    # grpclib.client.Channel.request: timeout only -> Deadline.from_timeout(timeout);
    # both -> min(Deadline.from_timeout(timeout), deadline); deadline only -> deadline
    present = [x for x in (timeout, deadline) if x is not None]
    remaining = min(present) if present else None
    src = "call" if cm else ("stub" if sm else None)
    return remaining, src


async def exec_case(env, si, st, channel, case, obs=None):
    """runs one case on an open channel; returns (fails [(kind, detail)], info for accounting)"""
    svc = env.services[si]
    m = svc.method(case["method"])
    mode = case["mode"]
    rnd = random.Random(case["seed_values"])
    req_kw = [gen_kwargs(rnd, m.ik) for _ in range(case["req_len"])]
    resp_kw = [gen_kwargs(rnd, m.ok) for _ in range(case["resp_len"])]
    msg = gen_str(rnd) or "boom"
    reqs = [m.in_cls(**k) for k in req_kw]
    resps = [m.out_cls(**k) for k in resp_kw]
    info = {"req": req_kw, "resp": resp_kw,
            "nontrivial": any(not is_default(k) for k in req_kw + resp_kw) or (m.cs and len(reqs) > 0) or (m.ss and len(resps) > 0)}
    del st.log[:], st.dispatch[:], st.requests[:], st.helpers[:]
    st.resps = resps
    st.err = (getattr(Status, case["status"]), msg) if mode == "error" else None
    st.pingpong = mode == "pingpong"
    stub_kw, call_kw = {}, {}
    kw = case.get("kw")
    if kw:
        v = kw["values"]
        for flag, name, mk in zip(kw["stub"], ("timeout", "deadline", "metadata"),
                                  (lambda: v["st"], lambda: Deadline.from_timeout(v["sd"]), lambda: {"x-src": "stub"})):
            if flag:
                stub_kw[name] = mk()
        for flag, name, mk in zip(kw["call"], ("timeout", "deadline", "metadata"),
                                  (lambda: v["ct"], lambda: Deadline.from_timeout(v["cd"]), lambda: {"x-src": "call"})):
            if flag:
                call_kw[name] = mk()
    stub = svc.stub_cls(channel, **stub_kw)
    probe_stub(stub, st)
    if m.cs:
        ik = case["iter_kind"]
        arg = list(reqs) if ik == "list" else ((x for x in list(reqs)) if ik == "iter" else agen(list(reqs)))
    else:
        arg = reqs[0]
    got, err = [], None
    if mode == "pingpong":
        # the caller produces request i+1 only after it has received response i
        progress = asyncio.Event()

        async def interactive():
            for i, r in enumerate(reqs):
                yield r
                while len(got) <= i:
                    progress.clear()
                    await progress.wait()
        arg = interactive()

    async def call():
        fn = getattr(stub, m.py)
        if m.ss:
            async for r in fn(arg, **call_kw):
                got.append(r)
                if mode == "pingpong":
                    progress.set()
        else:
            got.append(await fn(arg, **call_kw))

    try:
        await asyncio.wait_for(call(), CALL_TIMEOUT)
    except grpclib.GRPCError as e:
        err = e
    except asyncio.TimeoutError:
        info["hung"] = True
        return [("call-hung", "no result after %ss (received so far %r)" % (CALL_TIMEOUT, got))], info
    except Exception as e:  # noqa
        return [("call-raised", "%s: %s; dispatched %r, handlers run %r" % (type(e).__name__, str(e)[:300], [d["route"] for d in st.dispatch], [(i, n) for i, n, _ in st.log]))], info
    await asyncio.sleep(0)
    if obs is not None:
        for name, route in st.helpers:
            obs["helpers"].setdefault((m.cs, m.ss), set()).add(name)
            obs["stub_routes"][(env.schema["package"], svc.name, m.proto)] = route
    errtxt = "client error %s %r" % (err.status.name, err.message) if err else "no client error"
    routes = [d["route"] for d in st.dispatch]
    ran = [(i, n) for i, n, _ in st.log]
    # which RPC did the server dispatch (by proto route), how often
    if routes != [m.route]:
        if len(routes) > 1 and set(routes) == {m.route}:
            return [("not-once", "route %s dispatched %d times" % (m.route, len(routes)))], info
        return [("wrong-handler", "expected dispatch of %s, server dispatched %r; %s" % (m.route, routes, errtxt))], info
    fails = []
    # what the stub handed to the channel agrees with the server's mapping entry
    try:
        h = svc.base_cls().__mapping__().get(m.route)
    except Exception:  # noqa
        h = None
    if h is not None and st.requests:
        r = st.requests[0]
        if len(r) == 4:
            if r[1] != h.cardinality:
                fails.append(("stub-cardinality", "stub requested %s, mapping says %s" % (r[1], h.cardinality)))
            if r[2] is not h.request_type or r[3] is not h.reply_type:
                fails.append(("mapping-types", "stub uses (%r, %r), mapping has (%r, %r)" % (r[2], r[3], h.request_type, h.reply_type)))
    if mode == "unimpl":
        if ran:
            fails.append(("wrong-handler", "%s is not overridden but handlers %r ran" % (m.proto, ran)))
        if err is None or err.status != Status.UNIMPLEMENTED or got:
            fails.append(("unimplemented-not-reported", "%s; received %r" % (errtxt, got)))
        return fails, info
    if len(ran) != 1:
        fails.append(("not-once", "handlers run: %r; %s" % (ran, errtxt)))
        return fails, info
    if ran[0][0] != m.index:
        fails.append(("wrong-handler", "rpc %s (#%d, python %s): handler #%d %s ran" % (m.proto, m.index, m.py, ran[0][0], ran[0][1])))
        return fails, info
    if st.log[0][2] != reqs:
        fails.append(("request-mismatch", "sent %r, handler received %r" % (reqs, st.log[0][2])))
    if mode == "error":
        if err is None or err.status != st.err[0] or err.message != msg:
            fails.append(("status-not-propagated", "handler raised %s %r; %s" % (case["status"], msg, errtxt)))
        if got != (resps if m.ss else []):
            fails.append(("response-mismatch", "before the error the handler yielded %r, caller received %r" % (resps if m.ss else [], got)))
        return fails, info
    if err is not None:
        fails.append(("unexpected-status", errtxt))
        return fails, info
    if got != resps:
        fails.append(("response-mismatch", "handler answered %r, caller received %r" % (resps, got)))
    if kw:
        want_rem, want_src = kw_expect(kw)
        d = st.dispatch[0]
        src = d["metadata"].get("x-src")
        if src != want_src:
            fails.append(("kw-precedence", "metadata x-src: server saw %r, expected %r" % (src, want_src)))
        rem = d["deadline"]
        if (want_rem is None) != (rem is None) or (rem is not None and not (want_rem - 2.5 <= rem <= want_rem + 0.5)):
            fails.append(("kw-precedence", "deadline: server saw %r s remaining, expected %r" % (rem, want_rem)))
    if mode == "normal" and not fails and not m.cs and not m.ss and not kw:
        fails += await resend_after_change(stub, m, st, reqs, resps, call_kw)
        fails += await falsy_call_values(svc, channel, m, st, reqs)
    return fails, info


async def falsy_call_values(svc, channel, m, st, reqs):
    """per-call values take precedence over the stub's whenever they are GIVEN — also when they are falsy:
    empty metadata suppresses the stub's metadata, a timeout of 0 is a deadline that has already passed"""
    fails = []
    stub2 = svc.stub_cls(channel, metadata={"x-src": "stub"}, timeout=40.0)
    for empty in ({}, []):
        del st.log[:], st.dispatch[:], st.requests[:], st.helpers[:]
        try:
            await asyncio.wait_for(getattr(stub2, m.py)(reqs[0], metadata=empty), CALL_TIMEOUT)
        except Exception as e:  # noqa
            fails.append(("kw-precedence", "call with metadata=%r raised %s: %s" % (empty, type(e).__name__, str(e)[:200])))
            continue
        if st.dispatch and st.dispatch[0]["metadata"].get("x-src") is not None:
            fails.append(("kw-precedence", "call-level metadata=%r did not override the stub's: server saw x-src=%r" % (empty, st.dispatch[0]["metadata"].get("x-src"))))
    for zero in (0, 0.0):
        del st.log[:], st.dispatch[:], st.requests[:], st.helpers[:]
        try:
            await asyncio.wait_for(getattr(stub2, m.py)(reqs[0], timeout=zero), CALL_TIMEOUT)
        except Exception:  # noqa   (DEADLINE_EXCEEDED / TimeoutError: the deadline had passed)
            continue
        rem = st.dispatch[0]["deadline"] if st.dispatch else None
        if rem is None or rem > 5.0:
            fails.append(("kw-precedence", "call-level timeout=%r was not applied: the call succeeded and the server saw %r s remaining (stub-level timeout 40 s)" % (zero, rem)))
    return fails


def grow_in_place(msg):
    """change a message WITHOUT assigning to it: append to its first list field / set inside its first sub-message"""
    import dataclasses
    for fld in dataclasses.fields(msg):
        try:
            v = getattr(msg, fld.name)
        except AttributeError:
            continue
        if isinstance(v, list) and (not v or isinstance(v[0], int)):
            v.append(77)
            return True
    return False


async def resend_after_change(stub, m, st, reqs, resps, call_kw):
    """the SAME request object, changed in place and sent again, is received as it is NOW; likewise the response
    object the handler returns again (what goes over the wire is the message's current value, not a remembered encoding)"""
    fails = []
    if not (grow_in_place(reqs[0]) | grow_in_place(resps[0])):
        return fails
    del st.log[:], st.dispatch[:], st.requests[:], st.helpers[:]
    try:
        got = await asyncio.wait_for(getattr(stub, m.py)(reqs[0], **call_kw), CALL_TIMEOUT)
    except Exception as e:  # noqa
        return [("resend-raised", "%s: %s" % (type(e).__name__, str(e)[:200]))]
    if not st.log or st.log[0][2] != reqs:
        fails.append(("request-mismatch", "re-sent after an in-place change: sent %r, handler received %r" % (reqs, st.log[0][2] if st.log else None)))
    if got != resps[0]:
        fails.append(("response-mismatch", "handler answered again with the response object changed in place: %r, caller received %r" % (resps[0], got)))
    return fails


# ------------------------------------------------------------------ planning the cases of one service

def plan_cases(rng, svc, k, unimpl, kw_mode, tier):
    cases = []

    def case(m, mode, rl, sl, ik, status=None, kw=None):
        cases.append({"method": m.proto, "mode": mode, "req_len": rl, "resp_len": sl, "iter_kind": ik,
                      "seed_values": rng.getrandbits(32), "status": status, "unimpl": unimpl, "kw": kw})

    for m in svc.methods:
        iks = ["list", "async"] if m.cs else ["single"]
        if m.proto == unimpl:
            for rl in (sorted({0, 1, k}) if m.cs else [1]):
                for ik in iks:
                    case(m, "unimpl", rl, 0, ik)
            continue
        for rl in (range(k + 1) if m.cs else [1]):
            for sl in (range(k + 1) if m.ss else [1]):
                for ik in iks:
                    case(m, "normal", rl, sl, ik)
        if m.cs:
            case(m, "normal", rng.randint(1, k), rng.randint(0, k) if m.ss else 1, "iter")
        if m.cs and m.ss:
            n = rng.randint(1, k)
            case(m, "pingpong", n, n, "agen")
        for status in STATUSES:
            rl = rng.randint(0, k) if m.cs else 1
            ik = rng.choice(iks)
            if m.ss:
                case(m, "error", rl, 0, ik, status)
                if tier != "quick" or rng.random() < 0.3:
                    case(m, "error", rl, rng.randint(1, k), ik, status)
            else:
                case(m, "error", rl, 0, ik, status)
    if kw_mode:
        by_card = {}
        for m in svc.methods:
            if m.proto != unimpl:
                by_card.setdefault((m.cs, m.ss), m)
        targets = [by_card[c] for c in (CARDS if kw_mode == "all" else CARDS[:1]) if c in by_card]
        for vi, values in enumerate(KW_VALUES):
            for sbits in range(8):
                for cbits in range(8):
                    kw = {"stub": [bool(sbits & 4), bool(sbits & 2), bool(sbits & 1)],
                          "call": [bool(cbits & 4), bool(cbits & 2), bool(cbits & 1)], "values": values}
                    for m in targets:
                        case(m, "normal", 1, 1, "list" if m.cs else "single", kw=kw)
    return cases


def case_line(env, svc, m, case, info):
    body = json.dumps([info["req"], info["resp"]], sort_keys=True)
    kw = case.get("kw")
    kws = "" if not kw else "|kw%s/%s/%d" % ("".join("01"[b] for b in kw["stub"]), "".join("01"[b] for b in kw["call"]), int(kw["values"]["st"]))
    return "%s|%s|%s|%s|%d%d|%s>%s|%s|%s|%d|%d|%s|%s%s" % (
        ",".join(env.opts), env.schema["package"], svc.name, m.proto, m.cs, m.ss, m.ik, m.ok, case["mode"], case["status"] or "",
        case["req_len"], case["resp_len"], case["iter_kind"], hashlib.sha1(body.encode()).hexdigest()[:12], kws)


def account(chk, env, svc, m, case, info):
    chk.case(case_line(env, svc, m, case, info), bool(info["nontrivial"]),
             {"package": env.schema["package"], "service": svc.name, "method": m.proto, "python": m.py, "route": m.route,
              "cardinality": CARD_NAME[(m.cs, m.ss)], "mode": case["mode"], "requests": info["req"][:2], "responses": info["resp"][:2]})
    chk.count("card_" + CARD_NAME[(m.cs, m.ss)])
    chk.count("mode_" + ("kw" if case.get("kw") else case["mode"]))
    chk.count("in_" + KIND_CLASS[m.ik])
    chk.count("out_" + KIND_CLASS[m.ok])
    if m.cs:
        chk.count("reqlen_%d" % case["req_len"])
        chk.count("iter_" + case["iter_kind"])
    if m.ss:
        chk.count("resplen_%d" % case["resp_len"])
    if case["status"]:
        chk.count("status_" + case["status"])
    if case["mode"] == "unimpl":
        chk.count("unimpl_" + CARD_NAME[(m.cs, m.ss)])
    kw = case.get("kw")
    if kw:
        chk.count("kw_stub%s_call%s" % ("".join("01"[b] for b in kw["stub"]), "".join("01"[b] for b in kw["call"])))


async def run_service(chk, env, si, cases, unimpl, obs):
    svc = env.services[si]
    st, obj = make_service(svc, unimpl)
    try:
        cm = ChannelFor([obj])
        channel = await cm.__aenter__()
    except Exception as e:
        # the generated server base cannot even be mounted (its handler table raises): a finding about the
        # generated code, reported on the first case of the service, not a harness error
        inp = env.base_input(si)
        inp.update(cases[0] if cases else {})
        chk.fail("server-not-mountable", inp, "grpclib.Server([Base()]) raised %r" % (e,))
        return
    try:
        await _run_cases(chk, env, si, st, svc, channel, cases, obs)
    finally:
        await cm.__aexit__(None, None, None)


async def _run_cases(chk, env, si, st, svc, channel, cases, obs):
    if True:
        probe_channel(channel, st)
        for case in cases:
            fails, info = await exec_case(env, si, st, channel, case, obs)
            account(chk, env, svc, svc.method(case["method"]), case, info)
            for kind, detail in fails:
                inp = env.base_input(si)
                inp.update(case)
                chk.fail(kind, inp, detail)
            if info.get("hung"):
                break


# ------------------------------------------------------------------ the oracle run

def oracle(chk, n_schemas, budget_s, stop_on_fail=False, obs=None):
    rng = chk.rng
    tier = chk.tier
    k = 3 if tier == "quick" else 4
    t_end = time.time() + budget_s
    deck = Deck(rng)
    pkg_deck = Deck(rng, PACKAGES)
    plans = []
    for i in range(n_schemas):
        schema = gen_schema(rng, deck, min_methods=4 if i < len(OPT_SETS) else 1, pkg_deck=pkg_deck)
        opts = () if (tier == "quick" and i < 12) else OPT_SETS[i % len(OPT_SETS)]
        plans.append((schema, render(schema), opts))
    unimpl_seen = set()
    before = len(chk.oracle_failures)
    batch = 6
    with concurrent.futures.ThreadPoolExecutor(max_workers=batch) as ex:
        for b0 in range(0, len(plans), batch):
            if time.time() > t_end:
                chk.notes.append("C11 oracle: time budget reached after %d of %d schemas" % (b0, len(plans)))
                break
            chunk = plans[b0:b0 + batch]
            gens = list(ex.map(lambda p: pluginrun.generate(p[1], p[2]), chunk))
            for j, ((schema, protos, opts), g) in enumerate(zip(chunk, gens)):
                idx = b0 + j
                env = Env(schema, protos, opts, g)
                try:
                    run_schema(chk, env, idx, k, unimpl_seen, obs)
                finally:
                    env.cleanup()
            if stop_on_fail and len(chk.oracle_failures) > before:
                break


def run_schema(chk, env, idx, k, unimpl_seen, obs):
    rng = chk.rng
    schema = env.schema
    chk.count("pkg_" + ("none" if not schema["package"] else ("nested" if "." in schema["package"] else "single")))
    chk.count("opts_" + ("+".join(env.opts) or "default"))
    chk.count("services_per_file_%d" % len(schema["services"]))
    probs = env.load()
    # the draws below happen whether or not loading worked: the run stays reproducible
    for si, svc in enumerate(env.services):
        chk.count("methods_per_service_%d" % len(svc.methods))
        cands = [m for m in svc.methods if (m.cs, m.ss) not in unimpl_seen]
        if cands:
            um = rng.choice(cands)
        else:
            um = rng.choice(svc.methods) if rng.random() < 0.5 else None
        if um is not None and len(svc.methods) == 1 and rng.random() < 0.5:
            um = None
        kw_mode = None
        if si == 0 and idx < (1 if chk.tier == "quick" else len(OPT_SETS)):
            kw_mode = "unary" if chk.tier == "quick" else "all"
            if um is not None and (um.cs, um.ss) == (False, False):
                others = [m for m in svc.methods if (m.cs, m.ss) != (False, False)]
                um = rng.choice(others) if others else None
        if um is not None:
            unimpl_seen.add((um.cs, um.ss))
        unimpl = um.proto if um is not None else None
        cases = plan_cases(rng, svc, k, unimpl, kw_mode, chk.tier)
        if probs:
            continue
        for kind, detail in static_checks(env, si):
            inp = env.base_input(si)
            inp.update({"mode": "static", "method": None})
            chk.fail(kind, inp, detail)
        chk.case("static|%s|%s|%s|%s" % (",".join(env.opts), schema["package"], svc.name, json.dumps(schema["services"][si]["methods"])), True)
        chk.count("mode_static")
        if obs is not None:
            try:
                mapping = svc.base_cls().__mapping__()
                keys = list(mapping)
                for i, m in enumerate(svc.methods):
                    key = m.route if m.route in mapping else (keys[i] if i < len(keys) else None)
                    obs["map_routes"][(schema["package"], svc.name, m.proto)] = key
                    if key is not None:
                        obs["cards"].setdefault((m.cs, m.ss), set()).add(mapping[key].cardinality.name)
            except Exception:  # noqa
                pass
        asyncio.run(run_service(chk, env, si, cases, unimpl, obs))
    for kind, detail in probs:
        inp = env.base_input(0)
        inp.update({"mode": "load", "method": None})
        chk.fail(kind, inp, detail)


# ------------------------------------------------------------------ kwargs resolution: direct oracle + model

KW_STUB_TOKENS = ("a1", "b2", "c3")     # valid both as plain tokens and as hex
KW_CALL_TOKENS = ("d4", "e5", "f6")


def resolve_real(stub_vals, call_vals):
    stub = betterproto.ServiceStub(None, timeout=stub_vals[0], deadline=stub_vals[1], metadata=stub_vals[2])
    r = stub._ServiceStub__resolve_request_kwargs(*call_vals)
    return [r["timeout"], r["deadline"], r["metadata"]]


def kw_combos():
    for sbits in range(8):
        for cbits in range(8):
            sv = [KW_STUB_TOKENS[i] if sbits & (4 >> i) else None for i in range(3)]
            cv = [KW_CALL_TOKENS[i] if cbits & (4 >> i) else None for i in range(3)]
            yield sv, cv


def resolve_oracle(chk):
    for sv, cv in kw_combos():
        line = "resolve|%s|%s" % (sv, cv)
        chk.case(line, any(sv) or any(cv))
        chk.count("mode_resolve")
        bad = resolve_fails(sv, cv)
        if bad:
            chk.fail("kw-precedence", {"mode": "resolve", "stub": sv, "call": cv}, bad)


def resolve_fails(sv, cv):
    try:
        got = resolve_real(sv, cv)
    except Exception as e:  # noqa
        return "__resolve_request_kwargs raised %r" % (e,)
    want = [c if c is not None else s for s, c in zip(sv, cv)]
    return "" if got == want else "resolved %r, expected %r (call value if not None else stub value)" % (got, want)


def hx(s):
    return s.encode("ascii").hex() if s else "-"


def unhx(tok):
    if tok == "-":
        return ""
    try:
        return bytes.fromhex(tok).decode("ascii")
    except Exception:  # noqa
        return None


def tok_eq(reply_tok, value):
    """a reply token matches `value` either verbatim or as lowercase hex of its ASCII bytes"""
    v = value if value else "-"
    return reply_tok == v or reply_tok.lower() == hx(value)


def correspond(chk, drv, obs):
    # GROUTE <hex package or -> <hex service> <hex method>  ->  hex of the model's route string
    keys = sorted(obs["map_routes"])
    lines = ["GROUTE %s %s %s" % (hx(p), hx(s), hx(m)) for p, s, m in keys]
    # GCARD <cs 0|1> <ss 0|1>  ->  <helper> <CARDINALITY> <recv> <send>
    lines += ["GCARD %d %d" % (cs, ss) for cs, ss in CARDS]
    # GKW <stub timeout|-> <stub deadline|-> <stub metadata|-> <call timeout|-> <call deadline|-> <call metadata|->
    combos = list(kw_combos())
    lines += ["GKW " + " ".join(x or "-" for x in sv + cv) for sv, cv in combos]
    replies = drv.ask(lines)
    if any(r == "bad-op" for r in replies):
        bad = [l.split()[0] for l, r in zip(lines, replies) if r == "bad-op"]
        chk.disagree("driver", "GROUTE/GCARD/GKW not implemented", "bad-op", "")
        chk.notes.append("C11: driver answered bad-op to %s" % sorted(set(bad)))
        return
    n = len(keys)
    for (p, s, m), rep in zip(keys, replies[:n]):
        model = unhx(rep.strip())
        if model is None:
            model = rep
        mkey = obs["map_routes"].get((p, s, m))
        skey = obs["stub_routes"].get((p, s, m))
        chk.count("corr_route")
        if model != mkey:
            chk.disagree("route", {"package": p, "service": s, "method": m, "side": "mapping"}, model, mkey)
        if skey is not None and model != skey:
            chk.disagree("route", {"package": p, "service": s, "method": m, "side": "stub"}, model, skey)
    for (cs, ss), rep in zip(CARDS, replies[n:n + 4]):
        toks = rep.split()
        helpers = sorted(obs["helpers"].get((cs, ss), []))
        cards = sorted(obs["cards"].get((cs, ss), []))
        chk.count("corr_card")
        if len(toks) != 4:
            chk.disagree("card", {"cs": cs, "ss": ss}, rep, "%s %s" % (helpers, cards))
            continue
        if not helpers or any(not tok_eq(toks[0], h) for h in helpers):
            chk.disagree("card-helper", {"cs": cs, "ss": ss}, toks[0], helpers)
        if not cards or any(not tok_eq(toks[1], c) for c in cards):
            chk.disagree("card-cardinality", {"cs": cs, "ss": ss}, toks[1], cards)
    for (sv, cv), rep in zip(combos, replies[n + 4:]):
        chk.count("corr_kw")
        try:
            real = resolve_real(sv, cv)
        except Exception as e:  # noqa
            chk.disagree("kw", {"stub": sv, "call": cv}, rep, "raised %r" % (e,))
            continue
        toks = rep.split()
        if len(toks) != 3 or any(not tok_eq(t, r or "") for t, r in zip(toks, real)):
            chk.disagree("kw", {"stub": sv, "call": cv}, rep, " ".join(r or "-" for r in real))


# ------------------------------------------------------------------ interface of the check

RULE = ("service schemas drawn from chk.rng: package in {none, pkg, a.b.c}; 1-2 services per file named from a pool needing re-casing "
        "(Svc, HTTPService, my_service, ...); 1..5 methods per service named from a pool needing re-casing (GetThing, getHTTPResponse, do_it, "
        "XMLParse2, List, Stream, A, Import, ...), streaming flags dealt from a shuffled deck of the 4 cardinalities (every 4 consecutive methods "
        "cover all); request/response types among two local messages, a message of package other.sub in a second file, google.protobuf "
        "Empty/StringValue/Timestamp; options default (thorough: also typing.root, pydantic_dataclasses). Per method: request-stream lengths 0..k x "
        "response-stream lengths 0..k x request iterator {list, async generator} (+ a plain generator), random field values (non-default with "
        "probability > 0.75 per field); one method per service may be left un-overridden (UNIMPLEMENTED, all 4 cardinalities over the run); "
        "handlers raising GRPCError(<each of the 16 non-OK statuses>, msg), for server streaming also after 1..k responses; "
        "8 x 8 stub-level x call-level None/set combinations of timeout/deadline/metadata with two value sets (timeouts below and above the deadlines). "
        "non-trivial = a non-default message value or a non-empty stream; distinct by schema position + lengths + value hash")


def run(chk, drv):
    chk.extra["rule"] = RULE
    chk.extra["partial"] = PARTIAL
    obs = {"map_routes": {}, "stub_routes": {}, "helpers": {}, "cards": {}}
    quick = chk.tier == "quick"
    oracle(chk, 24 if quick else 90, 60 if quick else 480, obs=obs)
    resolve_oracle(chk)
    shadow_probe(chk)
    if drv is not None:
        correspond(chk, drv, obs)
    from props import c11_call          # the call protocol: model `call` vs real calls, race probe (D51)
    c11_call.run_extra(chk, drv)


SHADOWED = ("timeout", "deadline", "metadata", "channel")     # attributes set by ServiceStub.__init__


def shadow_input(name):
    schema = {"package": "pkg", "services": [{"name": "Svc", "methods": [[name, False, False, "local", "local2"]]}]}
    return {"protos": render(schema), "opts": [], "package": "pkg", "service": "Svc", "service_index": 0, "schema": schema,
            "method": name, "mode": "normal", "req_len": 1, "resp_len": 1, "iter_kind": "single", "seed_values": 7,
            "status": None, "unimpl": None, "kw": None}


def shadow_probe(chk):
    """D44: an RPC whose python name equals an instance attribute of ServiceStub cannot be called through the stub"""
    for name in ("Timeout", "Deadline", "Metadata", "Channel"):
        inp = shadow_input(name)
        chk.case("shadow " + name, True, {"method": name})
        chk.count("shadow_probe")
        for kind, detail in replay_input(inp):
            chk.fail(kind, inp, detail)


def classify(failure, known):
    from props import c11_call
    kid = c11_call.classify(failure, known)
    if kid:
        return kid
    inp = failure.get("input")
    if isinstance(inp, dict) and failure.get("kind") == "call-raised" and pykey(str(inp.get("method"))) in SHADOWED \
            and "object is not callable" in str(failure.get("detail")):
        for e in known:
            if e.get("class") == "call-raised:method-name-shadowed-by-stub-attribute":
                return e["id"]
    return None


def search(chk):
    oracle(chk, 120 if chk.tier == "quick" else 400, 600, stop_on_fail=True)


def replay_input(inp):
    """re-runs one stored case on the current tree; returns the list of (kind, detail) failures"""
    mode = inp.get("mode")
    if mode == "call-script":
        from props import c11_call
        return c11_call.replay_input(inp)
    if mode == "resolve":
        bad = resolve_fails(list(inp["stub"]), list(inp["call"]))
        return [("kw-precedence", bad)] if bad else []
    env = Env(inp["schema"], inp["protos"], tuple(inp.get("opts") or ()))
    try:
        probs = env.load()
        if probs or mode == "load":
            return probs
        si = inp.get("service_index", 0)
        if mode == "static":
            return static_checks(env, si)
        case = {key: inp.get(key) for key in ("method", "mode", "req_len", "resp_len", "iter_kind", "seed_values", "status", "unimpl", "kw")}

        async def one():
            st, obj = make_service(env.services[si], case["unimpl"])
            async with ChannelFor([obj]) as channel:
                probe_channel(channel, st)
                fails, _ = await exec_case(env, si, st, channel, case)
                return fails
        return asyncio.run(one())
    finally:
        env.cleanup()


def replay(chk, rp):
    fl = rp.get("failure") or {}
    inp = fl.get("input")
    if not isinstance(inp, dict) or ("protos" not in inp and inp.get("mode") not in ("resolve", "call-script")):
        return True
    return bool(replay_input(inp))


def replay_known(chk, entry):
    w = entry.get("witness")
    if isinstance(w, dict) and ("protos" in w or w.get("mode") in ("resolve", "call-script")):
        return bool(replay_input(w))
    return False
