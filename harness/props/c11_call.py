"""C11, call protocol: correspondence of the Lean model's `call` (BpModel/GrpcCall.lean, driver line `GCALL`) with
real calls, and the replay of the model's race witness (D51) on the real code.

The probe service of harness/extract_stub.py (four RPCs, one per cardinality) is generated with the plugin of the
working tree, imported, and served in-process (`grpclib.testing.ChannelFor`) by a subclass of the generated
`ProbeSvcBase` whose handlers run a small SCRIPT — the same script the driver turns into the model's handler tree:

    p   pull the request iterator once         P   pull once; at the end of the stream go to the final action
    y<n> yield n                               e   yield (last request + 1000)
    d   pull to the end                        D   pull to the end, yielding (request + 1000) for each
    final action:  ret<n> | retnone | raise<status>

and the handler is an async generator or a coroutine (`gen`), also of the kind that does NOT fit the RPC.  The call
is made through the generated `ProbeSvcStub`.  Compared (observable level): how many times the handler's body was
started, what it was given (its unary argument / the answers to its pulls, `n` = end of the stream), the responses
the caller's `async for` received, and how the call ended (`ret:<n>`, `ret:none`, `grpc:<status>`, `protocol`,
`assert`, `hang`).  The real side runs under asyncio's own schedule; the model's answer is the one of the canonical
schedule (all schedules agree: Props/C11Sched.lean) — except the race of `_stream_stream` (D51), which is probed
separately with a request iterator that waits.
"""
import asyncio
import logging
import os

import grpclib
from grpclib.const import Status
from grpclib.exceptions import ProtocolError
from grpclib.testing import ChannelFor

import pluginrun

CARDS = ["uu", "us", "su", "ss"]
METHOD = {"uu": "unary_unary", "us": "unary_stream", "su": "stream_unary", "ss": "stream_stream"}
CS = {"uu": False, "us": False, "su": True, "ss": True}
SS = {"uu": False, "us": True, "su": False, "ss": True}
CALL_TIMEOUT = 5.0
logging.getLogger("grpclib.server").setLevel(logging.CRITICAL)
# the sender task of a raced _stream_stream call is abandoned with an exception nobody retrieves (part of D51)
logging.getLogger("asyncio").setLevel(logging.CRITICAL)

D51_CLASS = "stream-stream-race:handler-returns-before-request-iterator-exhausted"


class Probe:
    """the generated probe module (generated once per check)"""

    def __init__(self):
        import extract_stub as ES
        self.gen = pluginrun.generate({"probe.proto": ES.PROBE}, ())
        if not self.gen.ok:
            raise RuntimeError("plugin failed on the probe service: " + self.gen.log[-300:])
        self.mod = self.gen.import_module("probe.v1")
        self.Req, self.Rep = self.mod.ProbeReq, self.mod.ProbeRep
        self.Stub, self.Base = self.mod.ProbeSvcStub, self.mod.ProbeSvcBase

    def cleanup(self):
        self.gen.cleanup()


def make_service(pr, card, gen, script, fin):
    """a ProbeSvcBase whose method of cardinality `card` runs the script"""
    rec = {"calls": 0, "hin": []}

    async def steps(arg, is_iter):
        """async generator of ('y', n) items; returns through StopAsyncIteration; the final action is left to the caller"""
        last = 0
        if not is_iter:
            last = arg.a if arg is not None else 0
        ended = False

        async def pull():
            nonlocal last
            try:
                m = await arg.__anext__()
            except StopAsyncIteration:
                rec["hin"].append("n")
                return None
            rec["hin"].append("s%d" % m.a)
            last = m.a
            return m
        for a in script:
            if a == "p":
                if is_iter:
                    await pull()
            elif a == "P":
                if is_iter and await pull() is None:
                    return
            elif a.startswith("y"):
                yield int(a[1:])
            elif a == "e":
                yield last + 1000
            elif a in ("d", "D"):
                if is_iter:
                    for _ in range(len_bound[0]):
                        m = await pull()
                        if m is None:
                            break
                        if a == "D":
                            yield m.a + 1000

    len_bound = [64]

    def final_gen():
        if fin.startswith("raise"):
            raise grpclib.GRPCError(Status(int(fin[5:])))

    async def gen_handler(arg):
        rec["calls"] += 1
        if not CS[card]:
            rec["hin"].append("s%d" % arg.a if arg is not None else "n")
        async for n in steps(arg, CS[card]):
            yield pr.Rep(b=str(n))
        final_gen()

    async def coro_handler(arg):
        rec["calls"] += 1
        if not CS[card]:
            rec["hin"].append("s%d" % arg.a if arg is not None else "n")
        async for _ in steps(arg, CS[card]):
            pass                                  # a coroutine cannot yield (the model skips these)
        final_gen()
        if fin == "retnone":
            return None
        return pr.Rep(b=fin[3:])

    obj = pr.Base()
    setattr(obj, METHOD[card], gen_handler if gen else coro_handler)
    return obj, rec


async def agen(items, wait=None):
    for i in items:
        yield i
    if wait is not None:
        await wait.wait()


async def real_call(pr, card, gen, script, fin, reqs, source="list", wait=None):
    """-> the reply text in the driver's format (without q= / served=)"""
    obj, rec = make_service(pr, card, gen, script, fin)
    yielded = []
    async with ChannelFor([obj]) as channel:
        stub = pr.Stub(channel)
        msgs = [pr.Req(a=r) for r in reqs]
        arg = msgs[0] if not CS[card] else (msgs if source == "list" else agen(msgs, wait))

        async def go():
            m = getattr(stub, METHOD[card])
            if SS[card]:
                async for r in m(arg):
                    yielded.append(int(r.b))
                return "ret:none"
            r = await m(arg)
            return "ret:none" if r is None else "ret:%d" % int(r.b)
        try:
            result = await asyncio.wait_for(go(), CALL_TIMEOUT)
        except grpclib.GRPCError as e:
            result = "grpc:%d" % e.status.value
        except ProtocolError:
            result = "protocol"
        except AssertionError:
            result = "assert"
        except asyncio.TimeoutError:
            result = "hang"
        if wait is not None:
            wait.set()
    return "calls=%d hin=%s yielded=%s result=%s" % (
        rec["calls"], ",".join(rec["hin"]) or "-", ",".join(map(str, yielded)) or "-", result)


def strip_reply(reply):
    """the driver's reply without q= and served="""
    return " ".join(t for t in reply.split() if not t.startswith(("q=", "served=")))


def gen_case(rng):
    card = rng.choice(CARDS)
    fit = rng.random() < 0.85
    gen = SS[card] if fit else not SS[card]
    n = rng.choice([0, 1, 1, 2, 3, 4]) if CS[card] else 1
    reqs = [rng.choice([0, 1, 2, 7, 300, 70000]) for _ in range(n)]
    acts = []
    pool = (["p", "P", "d"] if CS[card] else []) + (["y%d" % rng.randrange(0, 50), "e"] + (["D"] if CS[card] else []) if gen else [])
    for _ in range(rng.choice([0, 1, 1, 2, 3, 5])):
        if pool:
            acts.append(rng.choice(pool))
    # a stream-stream handler that does not read to the end races with the sender task (D51): probed separately
    if card == "ss" and gen and not any(a in ("d", "D") for a in acts):
        acts.append("d")
    r = rng.random()
    if r < 0.3:
        fin = "raise%d" % rng.choice([1, 3, 5, 12, 13, 16])
    elif r < 0.4:
        fin = "retnone"
    else:
        fin = "ret%d" % rng.randrange(0, 1000)
    source = rng.choice(["list", "agen"]) if CS[card] else "list"
    return {"mode": "call-script", "card": card, "gen": gen, "script": acts, "fin": fin, "reqs": reqs, "source": source}


def gcall_line(case, sched=None):
    return "GCALL %s %d %s %s %s%s" % (case["card"], 1 if case["gen"] else 0, ",".join(case["script"]) or "-", case["fin"],
                                       ",".join(map(str, case["reqs"])) or "-", " " + sched if sched else "")


RACE_CASE = {"mode": "call-script", "card": "ss", "gen": True, "script": ["y7"], "fin": "retnone", "reqs": [1, 2],
             "source": "agen-waiting"}
RACE_SCHEDULE = "MMVVVMMMSSS"


def run_case(pr, case):
    loop_wait = None

    async def one():
        wait = asyncio.Event() if case["source"] == "agen-waiting" else None
        src = "agen" if case["source"] != "list" else "list"
        return await real_call(pr, case["card"], case["gen"], case["script"], case["fin"], case["reqs"], src, wait)
    return asyncio.run(one())


def run_extra(chk, drv):
    """correspondence of `call` with real calls + the D51 probe"""
    chk.extra["call_rule"] = ("scripted handlers (pull / yield / drain, return / raise, fitting and non-fitting kind) on the "
                              "generated probe service, requests 0..4, list and async-generator sources; model = driver GCALL")
    try:
        pr = Probe()
    except Exception as e:  # noqa
        chk.fail("call-probe-load", {"mode": "call-script-load"}, repr(e))
        return
    try:
        n = 120 if chk.tier == "quick" else 600
        cases = [gen_case(chk.rng) for _ in range(n)]
        replies = drv.ask([gcall_line(c) for c in cases]) if drv is not None else [None] * n
        seen = set()
        for c, rep in zip(cases, replies):
            line = gcall_line(c)
            real = run_case(pr, c)
            chk.case(line + " " + c["source"], line not in seen, c)
            seen.add(line)
            chk.count("call:" + c["card"] + (":fit" if c["gen"] == SS[c["card"]] else ":misfit"))
            if rep is not None and strip_reply(rep) != real:
                chk.disagree("GCALL", c, rep, real)
        # D51: the model's race witness, under the schedule of Props/C11Sched.lean `stream_stream_race`, and on the real
        # code with a request iterator that is still waiting when the handler returns
        if drv is not None:
            rep = drv.ask([gcall_line(RACE_CASE, RACE_SCHEDULE)])[0]
            real = run_case(pr, RACE_CASE)
            chk.case(gcall_line(RACE_CASE, RACE_SCHEDULE), True, RACE_CASE)
            chk.count("call:race")
            if strip_reply(rep) != real:
                chk.disagree("GCALL-race", RACE_CASE, rep, real)
        for kind, detail in race_fails(pr):
            chk.fail(kind, RACE_CASE, detail)
    finally:
        pr.cleanup()


def race_fails(pr):
    real = run_case(pr, RACE_CASE)
    if "result=ret:none" not in real:
        return [("stream-stream-race", "handler yields 7 and returns without reading; the request iterator is still "
                                       "waiting: the caller got " + real)]
    return []


def classify(failure, known):
    if failure.get("kind") == "stream-stream-race" and "result=protocol" in str(failure.get("detail")):
        for e in known:
            if e.get("class") == D51_CLASS:
                return e["id"]
    return None


def replay_input(inp):
    """re-run one stored call-script case; -> list of (kind, detail)"""
    pr = Probe()
    try:
        if inp.get("source") == "agen-waiting":
            return race_fails(pr)
        real = run_case(pr, inp)
        return [("call-script", real)]
    finally:
        pr.cleanup()
