"""C12 — AsyncChannel: exactly-once ordered delivery, no stranded receiver.

Correspondence: the real `AsyncChannel` runs under a schedule-controlled asyncio loop
(`harness/chanloop.py`); the Lean model (`BpModel/Chan.lean`, through `bpdriver`) is run on the
same configuration and the same choice sequence; before every step both sides must offer the
same set of runnable labels, after every step both must have produced the same events
(`r<task>:<item>` received, `d<task>:<outcome>` task finished).
Oracle (never uses the model): a monitor of the English property on the real channel — see
`judge`.  Quick: random schedules (+ all schedules of a few tiny configurations);
thorough: ALL schedules of the property's small configurations (DFS, state hashing)."""
import itertools
import json
import os
import random
import sys
import time

import chanloop as L

MAXSTEPS = 400


# --------------------------------------------------------------------------- configurations
def prog_tokens(p):
    if p[0] == "S":
        return "S %s %d %d" % (p[1], p[2], 1 if p[3] else 0)
    if p[0] == "R":
        return "R %s %d" % (p[1], 1 if p[2] else 0)
    if p[0] == "C":
        return "C"
    return "X %d" % p[1]


def cfg_line(cfg, schedule):
    buf, progs = cfg
    return "CHAN %d %d %s ; %s" % (buf, len(progs), " ".join(prog_tokens(p) for p in progs), " ".join(schedule))


def norm_cfg(cfg):
    buf, progs = cfg
    return (int(buf), [tuple(p) for p in progs])


def gen_cfg(rng):
    buf = rng.choice([0, 0, 1, 2])
    progs = []
    for _ in range(rng.choice([1, 1, 2])):
        progs.append(("S", rng.choice("ef"), rng.randint(1, 3), rng.random() < 0.3))
    nrecv = rng.choice([1, 2, 2, 3])
    cancelling = rng.random() < 0.5
    for _ in range(nrecv):
        progs.append(("R", rng.choice("rfm"), cancelling and rng.random() < 0.3))
    if rng.random() < 0.75:
        progs.append(("C",))
        if rng.random() < 0.1:
            progs.append(("C",))
    ncanc = 0
    if cancelling:
        ncanc = rng.choice([0, 1, 1, 2])
    rng.shuffle(progs)
    for _ in range(ncanc):
        kinds = "R" if rng.random() < 0.8 else "SRC"
        cands = [i for i, p in enumerate(progs) if p[0] in kinds]
        progs.append(("X", rng.choice(cands)))
    return (buf, progs)


# --------------------------------------------------------------------------- running a schedule
def run_real(cfg, schedule=None, rng=None, tolerant=False, complete=False):
    """Run the real channel.  `schedule`: labels to follow (tolerant: skip labels that are not
    runnable; complete: afterwards run task handles in FIFO order until quiescence).
    `rng`: choose randomly instead.  Returns (world, followed schedule, trace tokens)."""
    w = L.World(cfg)
    trace, followed = [], []

    def do(label, r):
        ev = w.step(label)
        followed.append(label)
        trace.append("%s>%s" % (",".join(r) or "-", ",".join(ev) or "-"))

    if schedule is not None:
        for label in schedule:
            r = w.runnable()
            if label not in r:
                if tolerant:
                    continue
                break
            do(label, r)
    if rng is not None or complete:
        while len(followed) < MAXSTEPS:
            r = w.runnable()
            if not r:
                break
            tasks = [l for l in r if l[0] == "t"]
            if rng is None:
                if not tasks:
                    break
                do(sorted(tasks, key=lambda l: int(l[1:]))[0], r)
            else:
                if not tasks and rng.random() < 0.5:
                    break
                do(rng.choice(r), r)
    trace.append(",".join(w.runnable()) or "-")
    return w, followed, trace


def norm_tok(tok):
    """runnable part compared as a set"""
    if ">" in tok:
        r, e = tok.split(">", 1)
    else:
        r, e = tok, None
    r = ",".join(sorted(x for x in r.split(",") if x != "-")) or "-"
    return r if e is None else r + ">" + e


def compare(chk_disagree, cfg, followed, trace, reply):
    """first difference between the real trace and the model's reply"""
    head = reply.split(" # ")[0].split()
    want = [norm_tok(t) for t in trace]
    got = [norm_tok(t) for t in head]
    if want != got:
        k = next((i for i, (a, b) in enumerate(zip(want, got)) if a != b), min(len(want), len(got)))
        chk_disagree("lock-step trace differs at step %d" % k,
                     {"cfg": list(cfg), "schedule": followed},
                     " ".join(got[max(0, k - 1):k + 2]), " ".join(want[max(0, k - 1):k + 2]))
        return False
    return True


# --------------------------------------------------------------------------- the oracle
def judge(w, cfg, epilogue=True):
    """Monitor of the English property on the real channel at a quiescent state.
    Returns a list of (kind, detail)."""
    buf, progs = cfg
    out = list(w.problems)
    if not w.quiescent():
        out.append(("livelock", "schedule did not reach quiescence within %d steps" % MAXSTEPS))
        return out
    receivers = [i for i, p in enumerate(progs) if p[0] == "R"]
    senders = [i for i, p in enumerate(progs) if p[0] == "S"]

    def delivery(tag):
        items = [x for _, x in w.recv_log]
        started = {it for it, _ in w.send_started}
        if len(set(items)) != len(items):
            out.append(("received-twice", "%s: %r" % (tag, w.recv_log)))
        for x in items:
            if x not in started:
                out.append(("invented-item", "%s: %r was never sent" % (tag, x)))
        for s in senders:
            seqs = [x[1] for x in items if isinstance(x, tuple) and x[0] == s]
            if seqs != sorted(seqs):
                out.append(("order-violated", "%s: sender %d received in order %r" % (tag, s, seqs)))

    delivery("at quiescence")
    closed = w.ch.closed()
    for i, p in enumerate(progs):
        t = w.loop.tasks[i]
        o = L.outcome_of(t)
        creq = i in w.cancel_req
        fired = i in w.timer_fired
        if p[0] == "R":
            if o is None:
                if closed:
                    out.append(("receiver-stranded-after-close", "receiver %d still blocked in a quiescent state of a closed channel" % i))
                continue
            if creq:
                want = ("cancelled",)
            elif fired:
                want = ("timeout",)
            else:
                want = ("ok",)
            if o not in want:
                kind = "cancellation-not-surfaced" if (creq or fired) else "receiver-raised"
                out.append((kind, "receiver %d ended with %s, expected %s" % (i, o, "/".join(want))))
            elif o == "ok" and not closed:
                out.append(("receiver-ended-on-open-channel", "receiver %d finished although the channel is not closed" % i))
        elif p[0] == "S":
            if o == "chanClosed":
                if any(s == i and not was_closed for s, was_closed in w.send_refused):
                    out.append(("send-refused-on-open-channel", "sender %d" % i))
            elif o == "cancelled":
                if not creq:
                    out.append(("sender-cancelled-unasked", "sender %d" % i))
            elif o not in (None, "ok"):
                out.append(("sender-raised", "sender %d ended with %s" % (i, o)))
        else:
            if o not in ("ok", "cancelled"):
                out.append(("task-raised", "task %d (%s) ended with %s" % (i, p[0], o)))
    for j in range(len(progs), len(w.loop.tasks)):
        o = L.outcome_of(w.loop.tasks[j])
        if o not in (None, "ok"):
            out.append(("flush-task-raised", "flush task %d ended with %s" % (j, o)))
    before_close = [it for it, c in w.send_completed if not c]
    got = {x for _, x in w.recv_log}
    if closed and receivers and not w.cancel_req and not w.timer_fired:
        lost = [it for it in before_close if it not in got]
        if lost:
            out.append(("item-lost", "sent before close but not received by any receiver (no cancellation): %r" % lost))
    if epilogue and not out:
        n0 = len(w.problems)
        extra = w.epilogue()
        out.extend(w.problems[n0:])
        for i in receivers:
            if not w.loop.tasks[i].done():
                out.append(("receiver-stranded-after-close", "receiver %d does not terminate after close()" % i))
        oe = L.outcome_of(extra)
        if oe != "ok":
            out.append(("channel-unusable", "a fresh receive() loop after the run ended with %s" % oe))
        delivery("after draining")
        before_close = [it for it, c in w.send_completed if not c]
        got = {x for _, x in w.recv_log}
        lost = [it for it in before_close if it not in got]
        if lost:
            out.append(("item-lost", "sent before close but never received, even by a fresh receiver: %r" % lost))
    return out


def check_schedule(cfg, schedule, tolerant=True):
    """oracle verdict of one (cfg, schedule); returns (problems, followed)"""
    w, followed, _ = run_real(cfg, schedule, tolerant=tolerant, complete=True)
    try:
        return judge(w, cfg), followed
    finally:
        w.dispose()


# --------------------------------------------------------------------------- shrinking
def drop_prog(cfg, schedule, k):
    buf, progs = cfg
    new = []
    for i, p in enumerate(progs):
        if i == k:
            continue
        if p[0] == "X":
            if p[1] == k:
                return None
            p = ("X", p[1] - 1 if p[1] > k else p[1])
        new.append(p)
    sched = []
    for l in schedule:
        i = int(l[1:])
        if i == k:
            continue
        sched.append(l[0] + str(i - 1 if i > k else i))
    return (buf, new), sched


def shrink(cfg, schedule, kind, budget=400):
    def fails(c, s):
        nonlocal budget
        budget -= 1
        pr, fol = check_schedule(c, s)
        return (kind in [k for k, _ in pr]), fol

    ok, fol = fails(cfg, schedule)
    if not ok:
        return cfg, schedule
    schedule = fol
    changed = True
    while changed and budget > 0:
        changed = False
        for k in range(len(cfg[1]) - 1, -1, -1):
            cand = drop_prog(cfg, schedule, k)
            if cand is None:
                continue
            ok, fol = fails(*cand)
            if ok:
                cfg, schedule, changed = cand[0], fol, True
                break
        if changed:
            continue
        for k, p in enumerate(cfg[1]):
            if p[0] == "S" and p[2] > 1:
                cand = (cfg[0], cfg[1][:k] + [("S", p[1], p[2] - 1, p[3])] + cfg[1][k + 1:])
                ok, fol = fails(cand, schedule)
                if ok:
                    cfg, schedule, changed = cand, fol, True
                    break
        if changed:
            continue
        for k in range(len(schedule) - 1, -1, -1):
            cand = schedule[:k] + schedule[k + 1:]
            ok, fol = fails(cfg, cand)
            if ok and len(fol) <= len(schedule):
                if fol != schedule:
                    schedule, changed = fol, True
                    break
    return cfg, schedule


# --------------------------------------------------------------------------- exhaustive search
def history_key(w):
    return "%s#%s#%s#%s#%s" % (L.fingerprint(w), sorted(w.cancel_req.items()), sorted(w.timer_fired),
                               w.send_refused, [(it, c) for it, c in w.send_completed])


def explore(cfg, max_states):
    """all schedules of one configuration (DFS over choice sequences; a state = internal state of the
    real objects + observable history).  Returns dict(states, edges, leaves, truncated, paths, failures)."""
    seen = set()
    stack = [[]]
    paths, failures = [], []
    states = edges = leaves = 0
    truncated = False
    flags = set()
    while stack:
        path = stack.pop()
        w, followed, trace = run_real(cfg, path)
        edges += 1
        try:
            if len(followed) != len(path):
                failures.append(("harness", path, "path not replayable"))
                continue
            paths.append((path, trace))
            key = history_key(w)
            if key in seen:
                continue
            seen.add(key)
            states += 1
            if states > max_states:
                truncated = True
                break
            r = w.runnable()
            # (branch accounting only; a channel with other internals simply does not report these)
            if getattr(w.ch, "_flushed", False):
                flags.add("flushed")
            if getattr(getattr(w.ch, "_queue", None), "_putters", None):
                flags.add("putter")
            for l in r:
                stack.append(path + [l])
            if w.quiescent():
                leaves += 1
                for kind, detail in judge(w, cfg):
                    failures.append((kind, path, detail))
        finally:
            w.dispose()
    return {"states": states, "edges": edges, "leaves": leaves, "truncated": truncated, "paths": paths,
            "failures": failures, "flags": sorted(flags)}


def explore_worker(args):
    cfg, max_states, use_driver = args
    sys.path.insert(0, os.path.dirname(os.path.dirname(os.path.abspath(__file__))))
    import common as C
    res = explore(cfg, max_states)
    dis = []
    if use_driver:
        drv = C.Driver()
        try:
            lines = [cfg_line(cfg, p) for p, _ in res["paths"]]
            for i in range(0, len(lines), 5000):
                replies = drv.ask(lines[i:i + 5000])
                for (p, tr), rep in zip(res["paths"][i:i + 5000], replies):
                    if len(dis) < 5:
                        compare(lambda *a: dis.append(a), cfg, p, tr, rep)
        finally:
            drv.close()
    res["disagreements"] = dis
    res["npaths"] = len(res["paths"])
    del res["paths"]
    res["cfg"] = cfg
    return res


def small_cfgs(tier):
    """the property's small configurations"""
    out = []
    if tier == "quick":
        out += [
            (0, [("S", "e", 2, False), ("R", "r", False), ("C",)]),
            (1, [("S", "f", 2, True), ("R", "f", False), ("R", "r", False)]),
            (0, [("S", "e", 1, False), ("R", "r", False), ("R", "f", False), ("C",), ("X", 1)]),
            (1, [("S", "e", 2, False), ("R", "m", True), ("C",)]),
            (2, [("S", "f", 3, False), ("R", "r", False), ("C",), ("X", 1)]),
        ]
        return out
    for buf in (0, 1, 2):
        for mode in "ef":
            for n in (1, 2, 3):
                for nrecv in (1, 2, 3):
                    fl = ["r", "f", "m"][:nrecv] if mode == "e" else ["f", "r", "m"][:nrecv]
                    base = [("S", mode, n, False)] + [("R", f, False) for f in fl]
                    out.append((buf, base + [("C",)]))
                    out.append((buf, [("S", mode, n, True)] + base[1:]))
                    if n + nrecv <= 5:
                        out.append((buf, base + [("C",), ("X", 1)]))
                        out.append((buf, [("S", mode, n, False), ("R", fl[0], True)] + base[2:] + [("C",)]))
                    if n <= 2 and nrecv == 2:
                        out.append((buf, base + [("C",), ("X", 1), ("X", 2)]))
                        out.append((buf, [("S", mode, n, False), ("R", fl[0], True), ("R", fl[1], False), ("C",), ("X", 1)]))
                        out.append((buf, base + [("C",), ("X", 0)]))
        # two senders
        for n1, n2 in ((1, 1), (2, 1), (2, 2)):
            for nrecv in (1, 2, 3):
                if n1 + n2 + nrecv > 5:
                    continue
                base = [("S", "e", n1, False), ("S", "f", n2, False)] + [("R", f, False) for f in ["r", "f", "m"][:nrecv]]
                out.append((buf, base + [("C",)]))
                out.append((buf, [("S", "e", n1, True), ("S", "f", n2, False)] + base[2:]))
                if n1 + n2 + nrecv <= 4:
                    out.append((buf, base + [("C",), ("X", 2)]))
                    out.append((buf, [base[0], base[1], ("R", "r", True)] + base[3:] + [("C",)]))
    return out


# --------------------------------------------------------------------------- the check
def report(chk, cfg, schedule, problems):
    for kind, detail in problems:
        chk.fail(kind, {"cfg": [cfg[0], [list(p) for p in cfg[1]]], "schedule": list(schedule)}, detail)


def shrink_failures(chk):
    """replace the inputs of the (first of each kind of) oracle failures by shrunk ones"""
    seen = set()
    for fl in chk.oracle_failures:
        if fl["kind"] in seen or not isinstance(fl["input"], dict) or "cfg" not in fl["input"]:
            continue
        seen.add(fl["kind"])
        cfg = norm_cfg(fl["input"]["cfg"])
        c2, s2 = shrink(cfg, fl["input"]["schedule"], fl["kind"])
        pr, fol = check_schedule(c2, s2)
        det = [d for k, d in pr if k == fl["kind"]]
        if det:
            fl["input"] = {"cfg": [c2[0], [list(p) for p in c2[1]]], "schedule": fol, "line": cfg_line(c2, fol)}
            fl["detail"] = det[0]
    # smallest first within a kind (run.py writes the first of each kind)
    chk.oracle_failures.sort(key=lambda f: len(json.dumps(f["input"], default=str)))


def random_runs(chk, drv, n, oracle_only=False):
    rng = chk.rng
    batch = []
    for _ in range(n):
        cfg = gen_cfg(rng)
        w, followed, trace = run_real(cfg, rng=rng)
        try:
            line = cfg_line(cfg, followed)
            buf, progs = cfg
            chk.case(line, len(followed) > len(progs), {"config": line, "trace": " ".join(trace)})
            chk.count("buffer_%d" % buf)
            chk.count("schedule_len_%s" % ("<8" if len(followed) < 8 else "8-15" if len(followed) < 16 else "16+"))
            chk.count("closed" if w.ch.closed() else "never_closed")
            if len(w.loop.tasks) > len(progs) and getattr(w.ch, "_flushed", False):
                chk.count("flush_ran")
            if w.cancel_req:
                chk.count("cancel_" + "+".join(sorted(set(w.cancel_req.values()))))
            if w.timer_fired:
                chk.count("timer_fired")
            if any(c for _, c in w.send_refused):
                chk.count("send_after_close")
            if any(c for _, c in w.send_completed):
                chk.count("send_completed_after_close")
            batch.append((cfg, followed, trace))
            report(chk, cfg, followed, judge(w, cfg))
        finally:
            w.dispose()
    if drv and not oracle_only:
        replies = drv.ask([cfg_line(c, f) for c, f, _ in batch])
        for (c, f, tr), rep in zip(batch, replies):
            compare(chk.disagree, c, f, tr, rep)


def exhaustive(chk, drv, cfgs, max_states, procs):
    import multiprocessing as mp
    args = [(c, max_states, drv is not None) for c in cfgs]
    if procs > 1:
        with mp.get_context("fork").Pool(procs) as pool:
            results = pool.map(explore_worker, args, chunksize=1)
    else:
        results = [explore_worker(a) for a in args]
    tot = {"configs": 0, "states": 0, "schedule_prefixes": 0, "quiescent_states": 0, "truncated": 0}
    for res in results:
        cfg = res["cfg"]
        tot["configs"] += 1
        tot["states"] += res["states"]
        tot["schedule_prefixes"] += res["npaths"]
        tot["quiescent_states"] += res["leaves"]
        tot["truncated"] += 1 if res["truncated"] else 0
        chk.evaluations += res["npaths"]
        chk.count("exhaustive_states", res["states"])
        chk.count("exhaustive_cfg_buffer_%d" % cfg[0])
        for f in res["flags"]:
            chk.count("exhaustive_cfg_reached_" + f)
        import hashlib
        chk.hashes.add(hashlib.sha1(repr(cfg).encode()).digest()[:8])
        for kind, path, detail in res["failures"][:20]:
            chk.fail(kind, {"cfg": [cfg[0], [list(p) for p in cfg[1]]], "schedule": list(path)}, detail)
        for d in res["disagreements"]:
            chk.disagree(*d)
    return tot


def run(chk, drv):
    quick = chk.tier == "quick"
    chk.extra["rule"] = (
        "configuration = buffer limit 0/1/2 x 1-2 senders (send xN or send_from, 1-3 items, optional close) x 1-3 receivers "
        "(receive loop / async for / ServiceStub._send_messages, optionally under wait_for) x closer(s) x canceller(s) of a receiver "
        "(sometimes of a sender); schedule = the sequence of ready handles / timers chosen; random: uniform choice at every step; "
        "exhaustive: every choice sequence (DFS, states hashed on the real objects' state + history). "
        "non-trivial = the schedule has more steps than tasks (some task was suspended and resumed); distinct by config+schedule line")
    chk.extra["partial"] = ("termination is proved for the model without a fairness assumption (Props/C12Term: every schedule of enabled choices is at most "
                            "schedBound(progs) steps long and every maximal one ends quiescent with no blocked receiver once the channel is closed); "
                            "assumed: CPython's event loop runs some ready handle while one exists, and the asyncio model's fidelity (lock-step correspondence)")
    chk.extra["assumptions"] = [
        "asyncio.Queue / Task / Future / wait_for of CPython 3.12 behave as modelled in BpModel/Chan.lean (validated in lock-step here)",
        "receivers keep receiving until the channel is done and do not catch CancelledError; _flush_queue tasks are never cancelled",
    ]
    t0 = time.time()
    random_runs(chk, drv, 4000 if quick else 30000)
    chk.extra["random_s"] = round(time.time() - t0, 1)
    t0 = time.time()
    procs = min(16, os.cpu_count() or 1)
    tot = exhaustive(chk, drv, small_cfgs(chk.tier), 20000 if quick else 400000, procs)
    tot["wall_s"] = round(time.time() - t0, 1)
    chk.extra["exhaustive_exploration"] = tot
    if tot["truncated"]:
        chk.notes.append("%d exhaustive configurations hit the state cap" % tot["truncated"])
    shrink_failures(chk)


def classify(failure, known):
    # D06 is fixed; no violation of C12 is a listed known finding
    return None


def search(chk):
    random_runs(chk, None, 60000, oracle_only=True)
    shrink_failures(chk)


def _witness_fails(wit):
    cfg = norm_cfg(wit["cfg"])
    pr, _ = check_schedule(cfg, wit["schedule"], tolerant=True)
    return bool(pr), pr


def replay(chk, rp):
    fl = rp.get("failure")
    if fl and isinstance(fl.get("input"), dict) and "cfg" in fl["input"]:
        still, pr = _witness_fails(fl["input"])
        for k, d in pr:
            print("  %s: %s" % (k, d))
        return still
    # proof-broken / correspondence-broken without a failing input: re-run the stored disagreeing lines
    import common as C
    still = False
    try:
        drv = C.Driver()
    except Exception:
        return True
    try:
        for d in rp.get("correspondence") or []:
            inp = d.get("input")
            if not (isinstance(inp, dict) and "cfg" in inp):
                continue
            cfg = norm_cfg(inp["cfg"])
            w, fol, tr = run_real(cfg, inp["schedule"])
            w.dispose()
            if not compare(lambda *a: None, cfg, fol, tr, drv.ask1(cfg_line(cfg, fol))):
                still = True
    finally:
        drv.close()
    if rp.get("kind") == "proof-broken":
        ok, _ = C.lake_build(["BpProofs.Props.C12"])
        still = still or not ok or not C.audit("C12")["ok"]
    return still


def replay_known(chk, entry):
    wits = entry.get("witnesses") or [entry["witness"]]
    return any(_witness_fails(w)[0] for w in wits)
