"""C13 — cross-package type references in generated code resolve to the right class.

(a) correspondence: the Lean model of parse_source_type_name / get_type_reference (verbatim
    reference string + import statement) against the real function on all ordered pairs of
    package paths of depth 0–3 over a small segment alphabet × {message, nested message,
    enum, nested enum} × {unwrap} × {pydantic}, plus well-known types and the D19/D20 inputs;
(b) oracle: packages are really generated with protoc + the plugin of the working tree
    (pairs in isolation, and "all at once" universes in which every package refers to every
    package, so packages depend on each other circularly and many aliases coexist), imported
    under a root package, and every reference site {field, repeated, map value, oneof member,
    enum field, rpc input, rpc output} is evaluated in the module's namespace and compared
    by identity with the class generated for the target; a message is round-tripped through
    the referencing field.  The model's PyImport denotation is compared with what Python
    resolved."""
import concurrent.futures
import importlib
import inspect
import itertools
import os
import re
import shutil
import subprocess
import sys
import tempfile
import threading
import typing
import uuid

import common as C
import pluginrun

KINDS = [("msg", "Msg", "Msg"), ("nested", "Msg.Inner", "MsgInner"), ("enum", "Color", "Color"),
         ("nestedenum", "Msg.NestedEnum", "MsgNestedEnum")]
WKT = ["Timestamp", "Duration", "Empty", "Struct", "Value", "ListValue", "Any", "FieldMask", "DoubleValue", "FloatValue",
       "Int32Value", "Int64Value", "UInt32Value", "UInt64Value", "BoolValue", "StringValue", "BytesValue"]


# ------------------------------------------------------------------ package paths

def paths(alphabet, maxdepth):
    out = [()]
    for d in range(1, maxdepth + 1):
        out += list(itertools.product(alphabet, repeat=d))
    return out


def dot(p):
    return ".".join(p)


def relation(cur, tgt):
    if cur == tgt:
        return "same"
    if not tgt:
        return "root-ancestor"
    if not cur:
        return "from-root-descendant"
    if tgt[:len(cur)] == cur:
        return "descendant"
    if cur[:len(tgt)] == tgt:
        return "ancestor"
    if cur[:-1] == tgt[:-1]:
        return "sibling"
    return "cousin"


# ------------------------------------------------------------------ proto sources of a universe

def defs_proto(pkg, lower_types=False):
    lines = ['syntax = "proto3";']
    if pkg:
        lines.append("package %s;" % dot(pkg))
    lines += ["message Msg {", "  int32 x = 1;", "  message Inner { int32 y = 1; }",
              "  enum NestedEnum { NE_ZERO = 0; NE_ONE = 1; }", "}",
              "enum Color { COLOR_ZERO = 0; COLOR_RED = 1; }"]
    if lower_types:
        lines += ["message lower { message inner { int32 z = 1; } }"]
    return "\n".join(lines) + "\n"


def fq(pkg, ty):
    return "." + ".".join(list(pkg) + [ty])



def streaming_rpcs(i, tin, tout):
    """the same pair of types under the three streaming cardinalities (the server base class annotates streaming
    handlers with AsyncIterator[<reference>] — a reference evaluated where the class is defined, not lazily)"""
    return ["  rpc SCall%d(stream %s) returns (stream %s);" % (i, tin, tout),
            "  rpc CCall%d(stream %s) returns (%s);" % (i, tin, tout),
            "  rpc RCall%d(%s) returns (stream %s);" % (i, tin, tout)]

def refs_proto(cur, targets, fileof, lower_types=False, wkt=False, sites="all"):
    lines = ['syntax = "proto3";']
    for t in sorted(set(targets)):
        lines.append('import "%s";' % fileof[t])
    if wkt:
        for f in ("timestamp", "duration", "empty", "struct", "any", "field_mask", "wrappers"):
            lines.append('import "google/protobuf/%s.proto";' % f)
    if cur:
        lines.append("package %s;" % dot(cur))
    body, rpcs, n = [], [], 1
    if sites == "rpc":
        # the RPC input / output types are the ONLY references to the other package in this module
        body.append("  int32 plain = 1;")
        for i, t in enumerate(targets):
            rpcs.append("  rpc Call%d(%s) returns (%s);" % (i, fq(t, "Msg"), fq(t, "Msg.Inner")))
            rpcs += streaming_rpcs(i, fq(t, "Msg"), fq(t, "Msg.Inner"))
        targets = []
    for i, t in enumerate(targets):
        body.append("  %s f%d = %d;" % (fq(t, "Msg"), i, n)); n += 1
        body.append("  repeated %s r%d = %d;" % (fq(t, "Msg.Inner"), i, n)); n += 1
        body.append("  map<string, %s> m%d = %d;" % (fq(t, "Msg"), i, n)); n += 1
        body.append("  %s e%d = %d;" % (fq(t, "Color"), i, n)); n += 1
        body.append("  repeated %s ne%d = %d;" % (fq(t, "Msg.NestedEnum"), i, n)); n += 1
        body.append("  oneof g%d { %s om%d = %d; %s oe%d = %d; }" % (i, fq(t, "Msg.Inner"), i, n, fq(t, "Color"), i, n + 1)); n += 2
        if lower_types:
            body.append("  %s lt%d = %d;" % (fq(t, "lower.inner"), i, n)); n += 1
        if sites != "fields":
            rpcs.append("  rpc Call%d(%s) returns (%s);" % (i, fq(t, "Msg"), fq(t, "Msg.Inner")))
            rpcs += streaming_rpcs(i, fq(t, "Msg"), fq(t, "Msg.Inner"))
    if wkt:
        for j, w in enumerate(WKT):
            body.append("  .google.protobuf.%s w%d = %d;" % (w, j, n)); n += 1
        rpcs.append("  rpc Wkt(.google.protobuf.Empty) returns (.google.protobuf.Struct);")
    lines += ["message Ref {"] + body + ["}", "service Svc {"] + rpcs + ["}"]
    return "\n".join(lines) + "\n"


def universe_sources(u):
    """u: {"packages": [tuple…], "refs": [(cur, [tgt…])…], "lower_types": bool, "wkt": bool}"""
    pk = [tuple(p) for p in u["packages"]]
    fileof = {p: "p%d_defs.proto" % i for i, p in enumerate(pk)}
    src = {fileof[p]: defs_proto(p, u.get("lower_types", False)) for p in pk}
    for j, (cur, tgts) in enumerate(u["refs"]):
        src["q%d_refs.proto" % j] = refs_proto(tuple(cur), [tuple(t) for t in tgts], fileof,
                                               u.get("lower_types", False), u.get("wkt", False), u.get("sites", "all"))
    return src


# ------------------------------------------------------------------ running the plugin (thread-safe variant of pluginrun.generate)

def generate(protos, opts=(), timeout=600):
    base = tempfile.mkdtemp(prefix="bpgen_")
    root = "genroot_" + uuid.uuid4().hex[:12]
    src, out = os.path.join(base, "_src"), os.path.join(base, root)
    os.makedirs(src)
    os.makedirs(out)
    for name, text in protos.items():
        with open(os.path.join(src, name), "w") as f:
            f.write(text)
    env = dict(os.environ)
    env["PATH"] = pluginrun._tooldir(base) + os.pathsep + env.get("PATH", "")
    env["PYTHONPATH"] = os.path.join(C.REPO, "src") + os.pathsep + env.get("PYTHONPATH", "")
    cmd = [C.PY, "-m", "grpc_tools.protoc", "-I", src, "--python_betterproto_out=" + out]
    try:
        import grpc_tools
        cmd += ["-I", os.path.join(os.path.dirname(grpc_tools.__file__), "_proto")]
    except Exception:  # noqa
        pass
    for o in opts:
        cmd.append("--python_betterproto_opt=" + o)
    cmd += sorted(protos)
    try:
        p = subprocess.run(cmd, env=env, cwd=src, stdout=subprocess.PIPE, stderr=subprocess.STDOUT, text=True, timeout=timeout)
        ok, log = p.returncode == 0, p.stdout
    except subprocess.TimeoutExpired:
        ok, log = False, "timeout"
    if ok and not os.path.exists(os.path.join(out, "__init__.py")):
        open(os.path.join(out, "__init__.py"), "w").close()
    return pluginrun.Gen(base, root, ok, log, b"")


# ------------------------------------------------------------------ inspecting an imported universe

_IMPORT_RE = re.compile(r"^(?:from\s+(\.+[\w.]*)\s+import\s+(\w+)(?:\s+as\s+(\w+))?|import\s+([\w.]+)\s+as\s+(\w+))\s*$", re.M)


def bound_names(source):
    """name -> set of import statements of the generated module that bind it"""
    out = {}
    for m in _IMPORT_RE.finditer(source):
        if m.group(1) is not None:
            name = m.group(3) or m.group(2)
        else:
            name = m.group(5)
        if m.group(0).startswith(("import betterproto", "import grpclib", "import warnings", "import builtins")) and not m.group(5):
            continue
        out.setdefault(name, set()).add(m.group(0).strip())
    return out


def classes_in(hint, acc=None):
    acc = [] if acc is None else acc
    args = getattr(hint, "__args__", None)
    if args:
        for a in args:
            classes_in(a, acc)
    elif isinstance(hint, type) and hint not in (str, int, float, bool, bytes, type(None)):
        acc.append(hint)
    return acc


def eval_annotation(module, ann):
    holder = type("Holder", (), {"__annotations__": {"v": ann}, "__module__": module.__name__})
    return typing.get_type_hints(holder)["v"]


def check_universe(u, opts=()):
    """generate, import, check every reference site.  Returns (failures, facts) where
    failures = [(kind, input, detail)], facts = [(cur, tgt, kindname, resolved (module-relative, class) or None)]"""
    fails, facts = [], []
    tag = {"universe": u["name"], "packages": [dot(p) for p in u["packages"]],
           "refs": [[dot(c), [dot(t) for t in ts]] for c, ts in u["refs"]],
           "opts": list(opts), "lower_types": u.get("lower_types", False), "wkt": u.get("wkt", False), "sites": u.get("sites", "all")}
    g = generate(universe_sources(u), opts)
    try:
        if not g.ok:
            return [("generation-failed", dict(tag), g.log[-1500:])], facts
        with _import_lock:
            return _check_imported(u, g, tag, fails, facts, opts)
    finally:
        with _import_lock:
            g.cleanup()


_import_lock = threading.RLock()


def _check_imported(u, g, tag, fails, facts, opts):
    files = g.files()
    mods = {}
    for p in {tuple(p) for p in u["packages"]} | {tuple(c) for c, _ in u["refs"]}:
        try:
            mods[p] = g.import_module(dot(p))
        except Exception as e:  # noqa
            mods[p] = e
    pyd = "pydantic_dataclasses" in opts
    for cur, tgts in u["refs"]:
        cur = tuple(cur)
        m = mods[cur]
        src = files.get(os.path.join(*(list(cur) + ["__init__.py"])), "")
        collisions = {n: sorted(s) for n, s in bound_names(src).items() if len(s) > 1}
        base_in = {"cur": dot(cur), "universe": tag}
        if isinstance(m, Exception):
            fails.append(("package-not-importable", dict(base_in, tgt=None, site="import", collisions=collisions,
                                                          features=features(cur, None, u)), repr(m)[:400]))
            continue
        Ref = getattr(m, "Ref", None)
        if Ref is None:
            fails.append(("class-missing", dict(base_in, tgt=None, site="Ref"), "no class Ref in module"))
            continue
        anns = dict(Ref.__annotations__)
        stub, basecls = getattr(m, "SvcStub", None), getattr(m, "SvcBase", None)
        try:
            mapping = basecls().__mapping__() if basecls else {}
        except Exception as e:  # noqa
            mapping = e
        for i, tgt in enumerate(tgts):
            tgt = tuple(tgt)
            tm = mods[tgt]
            inp0 = dict(base_in, tgt=dot(tgt), relation=relation(cur, tgt), collisions=collisions, features=features(cur, tgt, u))
            if isinstance(tm, Exception):
                fails.append(("package-not-importable", dict(inp0, site="import-target"), repr(tm)[:400]))
                continue
            sites = [("field", "f%d" % i, "Msg"), ("repeated", "r%d" % i, "MsgInner"), ("mapvalue", "m%d" % i, "Msg"),
                     ("enumfield", "e%d" % i, "Color"), ("nestedenum", "ne%d" % i, "MsgNestedEnum"),
                     ("oneof-message", "om%d" % i, "MsgInner"), ("oneof-enum", "oe%d" % i, "Color")]
            if u.get("lower_types"):
                sites.append(("lowertype", "lt%d" % i, "LowerInner"))
            only = u.get("sites", "all")
            if only == "rpc":
                sites = []
            for site, fname, cname in sites:
                want = getattr(tm, cname, None)
                inp = dict(inp0, site=site, field=fname, expect=cname)
                try:
                    hint = eval_annotation(m, anns[fname])
                    got = classes_in(hint)
                except Exception as e:  # noqa
                    fails.append(("reference-unresolvable", inp, "%s: %r" % (anns.get(fname), e)))
                    facts.append((cur, tgt, cname, None))
                    continue
                rel = [(c.__module__[len(g.root):].lstrip("."), c.__name__) for c in got]
                facts.append((cur, tgt, cname, rel[0] if len(rel) == 1 else rel))
                if want is None or len(got) != 1 or got[0] is not want:
                    fails.append(("reference-wrong-class", inp, "%s resolves to %r, expected %s.%s" % (anns.get(fname), rel, dot(tgt), cname)))
            # rpc input / output: stub annotations and the server's handler table
            inp = dict(inp0, site="rpc")
            want_in, want_out = getattr(tm, "Msg", None), getattr(tm, "MsgInner", None)
            if only == "fields":
                stub = mapping = None
            try:
                if stub is None and only == "fields":
                    raise LookupError
                fn = getattr(stub, "call%d" % i)
                sig = inspect.signature(fn)
                params = list(sig.parameters.values())
                got_in = eval_annotation(m, params[1].annotation)
                got_out = eval_annotation(m, sig.return_annotation)
                if got_in is not want_in or got_out is not want_out:
                    fails.append(("reference-wrong-class", dict(inp, site="rpc-stub"), "stub call%d: %r -> %r" % (i, got_in, got_out)))
            except LookupError:
                pass
            except Exception as e:  # noqa
                fails.append(("reference-unresolvable", dict(inp, site="rpc-stub"), repr(e)[:300]))
            if only == "fields":
                pass
            elif isinstance(mapping, Exception):
                fails.append(("reference-unresolvable", dict(inp, site="rpc-server"), repr(mapping)[:300]))
            else:
                hs = [h for route, h in mapping.items() if route.endswith("/Call%d" % i)]
                if len(hs) != 1 or hs[0].request_type is not want_in or hs[0].reply_type is not want_out:
                    fails.append(("reference-wrong-class", dict(inp, site="rpc-server"), repr(hs)[:300]))
                for pre in ("SCall", "CCall", "RCall"):
                    hs = [h for route, h in mapping.items() if route.endswith("/%s%d" % (pre, i))]
                    if len(hs) != 1 or hs[0].request_type is not want_in or hs[0].reply_type is not want_out:
                        fails.append(("reference-wrong-class", dict(inp, site="rpc-server-streaming"), "%s%d: %r" % (pre, i, hs)[:300]))
            # round trip a message through the referencing fields
            if only == "rpc":
                continue
            try:
                r = Ref(**{"f%d" % i: want_in(x=5), "r%d" % i: [want_out(y=6), want_out(y=7)],
                           "m%d" % i: {"k": want_in(x=8)}, "e%d" % i: tm.Color(1), "om%d" % i: want_out(y=9)})
                back = Ref().parse(bytes(r))
                back2 = Ref().from_dict(r.to_dict())
                ok = (back == r and back2 == r and type(getattr(back, "f%d" % i)) is want_in
                      and type(getattr(back, "r%d" % i)[0]) is want_out and type(getattr(back, "m%d" % i)["k"]) is want_in
                      and type(getattr(back, "om%d" % i)) is want_out and getattr(back, "e%d" % i) is tm.Color(1))
                if not ok:
                    fails.append(("roundtrip-through-reference-failed", dict(inp, site="roundtrip"), "%r vs %r" % (back, r)))
            except Exception as e:  # noqa
                fails.append(("roundtrip-through-reference-failed", dict(inp, site="roundtrip"), repr(e)[:300]))
        if u.get("wkt"):
            check_wkt(m, Ref, anns, stub, mapping, pyd, base_in, fails, [x for x in features(cur, None, u) if x == "package-named-like-bundled-library"])
        try:
            Ref._type_hints()
        except Exception as e:  # noqa
            if not any(f[1].get("cur") == dot(cur) for f in fails):
                fails.append(("reference-unresolvable", dict(base_in, tgt=None, site="_type_hints", collisions=collisions,
                                                              features=features(cur, None, u)), repr(e)[:300]))
    return fails, facts


def check_wkt(m, Ref, anns, stub, mapping, pyd, base_in, fails, ufeats=()):
    import datetime
    lib = importlib.import_module("betterproto.lib.pydantic.google.protobuf" if pyd else "betterproto.lib.google.protobuf")
    unwrapped = {"Timestamp": datetime.datetime, "Duration": datetime.timedelta, "DoubleValue": float, "FloatValue": float,
                 "Int32Value": int, "Int64Value": int, "UInt32Value": int, "UInt64Value": int, "BoolValue": bool,
                 "StringValue": str, "BytesValue": bytes}
    for j, w in enumerate(WKT):
        inp = dict(base_in, tgt="google.protobuf", site="wkt-field", field="w%d" % j, expect=w, features=list(ufeats))
        try:
            hint = eval_annotation(m, anns["w%d" % j])
        except Exception as e:  # noqa
            fails.append(("reference-unresolvable", inp, repr(e)[:300]))
            continue
        if w in unwrapped:
            ok = hint is unwrapped[w] or unwrapped[w] in getattr(hint, "__args__", ())
        else:
            ok = hint is getattr(lib, w)
        if not ok:
            fails.append(("wkt-wrong-class", inp, "%r resolves to %r" % (anns["w%d" % j], hint)))
    if not isinstance(mapping, Exception):
        hs = [h for route, h in mapping.items() if route.endswith("/Wkt")]
        if len(hs) != 1 or hs[0].request_type is not lib.Empty or hs[0].reply_type is not lib.Struct:
            fails.append(("wkt-wrong-class", dict(base_in, tgt="google.protobuf", site="wkt-rpc", features=list(ufeats)), repr(hs)[:300]))
    try:
        r = Ref(**{"w%d" % WKT.index("Struct"): lib.Struct(fields={"a": lib.Value(number_value=1.5)}), "w%d" % WKT.index("Int32Value"): 7})
        if Ref().parse(bytes(r)) != r:
            fails.append(("roundtrip-through-reference-failed", dict(base_in, tgt="google.protobuf", site="wkt-roundtrip", features=list(ufeats)), repr(r)))
    except Exception as e:  # noqa
        fails.append(("roundtrip-through-reference-failed", dict(base_in, tgt="google.protobuf", site="wkt-roundtrip", features=list(ufeats)), repr(e)[:300]))


def features(cur, tgt, u):
    """input features that delimit the known classes (computed from the package names only)"""
    f = []
    pk = [tuple(p) for p in u["packages"]]
    involved = [p for p in pk] if tgt is None else [tgt]
    if any(any(c.isupper() for c in seg) for p in involved for seg in p):
        f.append("capitalised-package-segment")
    if u.get("lower_types"):
        f.append("lower-case-type-name")
    if any("_" in seg or re.search(r"[0-9][a-z]", seg) for p in pk for seg in p):
        f.append("universe-has-underscore-segment")
    for lib in (("betterproto", "lib", "google", "protobuf"), ("betterproto", "lib", "pydantic", "google", "protobuf")):
        if any(len(p) > len(lib) and p[-len(lib):] == lib for p in pk):
            f.append("package-named-like-bundled-library")
    return f


# ------------------------------------------------------------------ universes

def pair_universe(cur, tgt, name=None):
    pk = [cur] if cur == tgt else [cur, tgt]
    return {"name": name or "pair %s -> %s" % (dot(cur) or "<root>", dot(tgt) or "<root>"), "packages": pk, "refs": [(cur, [tgt])]}


def all_at_once(ps, name, **kw):
    return dict({"name": name, "packages": list(ps), "refs": [(c, list(ps)) for c in ps]}, **kw)


D20_UNIVERSE = {"name": "D20 underscore aliases", "packages": [(), ("a",), ("a", "b"), ("a", "b", "c"), ("a", "b_c"), ("d",), ("d", "e"), ("d_e",), ("x",)],
                "refs": [((), [("a", "b", "c"), ("a", "b_c")]), (("x",), [("d", "e"), ("d_e",)])]}
D50_UNIVERSE = {"name": "D50 descendant named like the bundled library", "packages": [("x",), ("x", "betterproto", "lib", "google", "protobuf")],
                "refs": [(("x",), [("x", "betterproto", "lib", "google", "protobuf")])], "wkt": True}
D19_CAP = {"name": "D19 capitalised package", "packages": [(), ("Cap",)], "refs": [((), [("Cap",)])]}
D19_LOWER = {"name": "D19 lower-case type", "packages": [("a",)], "refs": [(("a",), [("a",)])], "lower_types": True}


def universes(chk):
    quick = chk.tier == "quick"
    rng = chk.rng
    us = []
    alpha = ["a", "b", "c_d"]
    ps2 = paths(alpha, 2)
    pairs = [(c, t) for c in ps2 for t in ps2]
    if not quick:
        ps3 = paths(["a", "b"], 3)
        extra = [(c, t) for c in ps3 for t in ps3 if max(len(c), len(t)) == 3]
        pairs += rng.sample(extra, 120)
    # package names where one is a character prefix of the other without being its ancestor (a / ab, api.v1 / api.v1beta)
    psx = paths(["a", "ab"], 2) + [("api", "v1"), ("api", "v1beta"), ("api", "v1beta", "types")]
    lookalike = [(c, t) for c in psx for t in psx if c and t and c != t and (dot(t).startswith(dot(c)) or dot(c).startswith(dot(t)))
                 and relation(c, t) not in ("descendant", "ancestor")]
    pairs += lookalike if not quick else rng.sample(lookalike, min(8, len(lookalike)))
    us += [pair_universe(c, t) for c, t in pairs]
    # reference sites in isolation: the RPC input / output types are the only reference to the other package
    # (quick: two pairs per relation class; thorough: every pair)
    byrel = {}
    for c, t in pairs:
        byrel.setdefault((relation(c, t), len(c), len(t)), []).append((c, t))
    iso = pairs if not quick else [p for k in sorted(byrel) for p in rng.sample(byrel[k], min(2, len(byrel[k])))]
    for c, t in iso:
        us.append(dict(pair_universe(c, t, "rpc-only %s -> %s" % (dot(c) or "<root>", dot(t) or "<root>")), sites="rpc"))
    us.append(dict(all_at_once(paths(["a", "b"], 2), "all-at-once rpc-only"), sites="rpc"))
    # all at once: every package refers to every package (circular package dependencies, many aliases in one module)
    us.append(all_at_once(paths(["a", "b", "c"], 2), "all-at-once depth<=2 over {a,b,c}"))
    us.append(all_at_once([(), ("a",), ("a", "b"), ("a", "b", "a"), ("a", "b", "c"), ("b",), ("b", "a"), ("b", "a", "c"), ("c", "c", "c")],
                          "all-at-once mixed depth<=3", wkt=True))
    us.append({"name": "circular a <-> b <-> root", "packages": [(), ("a",), ("b",)],
               "refs": [((), [("a",)]), (("a",), [("b",), ()]), (("b",), [()])]})
    us.append({"name": "well-known types", "packages": [(), ("a", "b")], "refs": [((), [()]), (("a", "b"), [()])], "wkt": True})
    # packages spelled like the type names of the root package up to CASE (msg / Msg, color / Color): the import lines
    # `from .. import Msg as _Msg__` and `from .. import msg as _msg__` of one module differ in case only
    us.append(all_at_once([(), ("msg",), ("color",), ("msg", "color"), ("x",), ("x", "msg")],
                          "packages spelled like root type names up to case (msg / Msg, color / Color)"))
    if not quick:
        us.append(all_at_once(paths(["a", "b"], 3), "all-at-once depth<=3 over {a,b}", wkt=True))
        us.append(all_at_once(paths(["v1", "x2y", "pkg"], 2), "all-at-once digits in segments"))
    return us


def run_universes(chk, us, opts=()):
    results = []
    with concurrent.futures.ThreadPoolExecutor(max_workers=min(14, os.cpu_count() or 4)) as ex:
        futs = [ex.submit(check_universe, u, opts) for u in us]
        for u, f in zip(us, futs):
            try:
                results.append((u, f.result()))
            except Exception as e:  # noqa
                results.append((u, ([("harness-error", {"universe": u["name"]}, repr(e))], [])))
    return results


# ------------------------------------------------------------------ (a) model vs get_type_reference

def impl_typeref(package, source, unwrap, pydantic):
    from betterproto.compile.importing import get_type_reference
    from betterproto.plugin.typing_compiler import DirectImportTypingCompiler
    imports = set()
    try:
        r = get_type_reference(package=package, imports=imports, source_type=source,
                               typing_compiler=DirectImportTypingCompiler(), unwrap=unwrap, pydantic=pydantic)
    except Exception as e:  # noqa
        return "ERR " + type(e).__name__
    if len(imports) > 1:
        return "ERR more than one import: %r" % sorted(imports)
    return "%s|%s" % (r, "".join(imports))


def typeref_cases(chk):
    quick = chk.tier == "quick"
    cases = []
    ps = paths(["a", "b", "c_d"], 3)
    for c in ps:
        for t in ps:
            for _, ty, _ in KINDS:
                for unwrap in (True, False):
                    for pyd in (False, True):
                        cases.append((dot(c), fq(t, ty), unwrap, pyd))
    ps = paths(["a", "b", "c", "b_c"], 3 if not quick else 2)
    for c in ps:
        for t in ps:
            cases.append((dot(c), fq(t, "Msg"), True, False))
    ps = paths(["a", "ab", "a_b"], 2) + [("api", "v1"), ("api", "v1beta"), ("api", "v1beta", "types"), ("google", "protobuf2"), ("google", "proto")]
    for c in ps:
        for t in ps:
            cases.append((dot(c), fq(t, "Msg"), True, False))
    for c in [(), ("a",), ("a", "b"), ("google",), ("google", "protobuf"), ("google", "protobuf", "compiler"), ("betterproto",)]:
        for w in WKT + ["Msg", "compiler.Version"]:
            for unwrap in (True, False):
                for pyd in (False, True):
                    cases.append((dot(c), ".google.protobuf." + w, unwrap, pyd))
    odd = [".Cap.X", ".a.Cap.X", ".a.lower.inner", ".lower", ".a.lower", "a.b.Msg", "Msg", ".Msg", ".a.b.", ".a1.b2.Msg3.In4", ".a.b.MSG.inner",
           ".betterproto.lib.X", ".betterproto.X", ".v1.x2y.Msg", ".v1.x2.y.Msg", ".a._b.Msg", ".a.b_.Msg", ".class.Msg", ".a.class.Msg",
           ".a.B.c.D", ".a.b.HTTPStatus", ".a.b.Msg.HTTPStatus.x_y", ".a.b.Outer_Inner"]
    for c in ["", "a", "a.b", "x.y.z", "class", "v1"]:
        for s in odd:
            cases.append((c, s, True, False))
    return cases


def bound_name_of(imp):
    m = _IMPORT_RE.match(imp)
    if not m:
        return None
    return (m.group(3) or m.group(2)) if m.group(1) is not None else m.group(5)


def odd_segment(p):
    return any("_" in seg or re.search(r"[0-9][a-z]", seg) for seg in p)


def alias_collisions(cur, targets):
    """two different target packages must not be bound to one name in the module of `cur`"""
    seen, out = {}, []
    for tgt in targets:
        r = impl_typeref(dot(cur), fq(tgt, "Msg"), True, False)
        if "|" not in r:
            continue
        name = bound_name_of(r.split("|", 1)[1])
        if name is None:
            continue
        if name in seen and seen[name] != tgt:
            out.append(("alias-collision", {"cur": dot(cur), "tgts": [dot(seen[name]), dot(tgt)], "alias": name,
                                            "features": ["underscore-or-digit-boundary-segment"] if odd_segment(seen[name]) or odd_segment(tgt) else []},
                        "both imported as %s" % name))
        seen.setdefault(name, tgt)
    return out


def expected_resolution(c, src):
    """(module path below the root, class name) protoc + the plugin generate for the type `src` = .pkg.Type[.Nested]"""
    parts = src.lstrip(".").split(".")
    k = 0
    while k < len(parts) and not parts[k][:1].isupper():
        k += 1
    return ".".join(parts[:k]), "".join(parts[k:])


def run(chk, drv):
    quick = chk.tier == "quick"
    chk.extra["rule"] = ("(a) get_type_reference: all ordered pairs of package paths of depth 0–3 over {a,b,c_d} × {message, nested message, enum, nested enum} × unwrap × pydantic, "
                         "pairs over {a,b,c,b_c}, well-known types from 7 current packages, hand-made odd type names; a case is one call, non-trivial = an import is generated, distinct by arguments. "
                         "(b) generated universes: every ordered pair of depth ≤ 2 over {a,b,c_d} in isolation%s, all-at-once universes (each package refers to every package: circular, many aliases), "
                         "well-known types; a case is one (universe, referencing package, target package, site), non-trivial = packages differ."
                         % ("" if quick else " + 120 random pairs of depth 3 over {a,b}"))
    chk.extra["assumptions"] = [
        "Python's import system and the evaluation of forward-reference strings are modelled by PyImport (Import.bind / denote); validated against real imports of generated packages, not proved",
        "an import statement / reference string is kept as a structure with its verbatim rendering; the rendering is compared with the real function's output, that Python parses it as the structure says is validated by the real imports",
        "that the circular `imports_end` placement is tolerated by the import machinery is runtime behaviour: observed (circular universes), not modelled",
        "`from X import n` yields a class for names beginning with a capital/digit and a sub-package otherwise (generated class names vs package directories)",
        "protoc fully qualifies type names with a leading dot; ruff pass-through shim",
    ]
    chk.extra["partial"] = ("reference_resolves is proved for packages whose segments have no capital letter and types whose parts begin with a capital (forced by the regex, D19 otherwise); "
                            "alias injectivity only for single-word lower-case segments (D20 otherwise); tolerance of circular imports is observed, not proved")

    # ---------------- (a) correspondence on the string-building function
    cases = typeref_cases(chk)
    if drv:
        lines = ["TYPEREF =%s =%s %d %d" % (c, s, u, p) for c, s, u, p in cases]
        replies = drv.ask(lines)
        for (c, s, u, p), ln, r in zip(cases, lines, replies):
            want = impl_typeref(c, s, u, p)
            chk.case(ln, "|" in want and not want.endswith("|"), {"call": [c, s, u, p], "model": r, "implementation": want})
            if r != want:
                chk.disagree("get_type_reference", [c, s, u, p], r, want)
        from betterproto.compile.importing import parse_source_type_name
        srcs = sorted({s for _, s, _, _ in cases})
        rp = drv.ask(["PARSE =%s" % s for s in srcs])
        for s, r in zip(srcs, rp):
            want = "=%s =%s" % parse_source_type_name(s)
            chk.case("PARSE " + s, True)
            if r != want:
                chk.disagree("parse_source_type_name", s, r, want)
        # the decided witness of Props/C13SrcParse.src_parse_newline_witness (the source tie holds on names without a
        # newline; with one, `(.+)` stops there and the model's scan does not), replayed on the real function
        got = parse_source_type_name("a.b\nc")
        chk.count("newline_witness_replayed")
        chk.extra["newline_witness"] = "parse_source_type_name('a.b\\nc') == %r (Lean: source ('a', 'b'), model ('a', 'b\\nc'))" % (got,)
        if got != ("a", "b"):
            chk.disagree("parse_source_type_name newline witness (PyRegex semantics of `.`)", "a.b\\nc", "=a =b", "=%s =%s" % got)

    # ---------------- many references in one module: bound names must be pairwise distinct (real function)
    col0 = Collector(chk)
    for alpha, depth in ((["a", "b", "c"], 3), (["a", "b", "c", "b_c"], 2 if quick else 3), (["v1", "x2y", "x2", "y"], 2)):
        ps = paths(alpha, depth)
        for cur in ps:
            for kind, inp, detail in alias_collisions(cur, ps):
                col0.fail(kind, inp, detail)
            chk.count("alias_modules")
    col0.flush()

    # ---------------- (b) real generation
    us = universes(chk)
    known_us = [D20_UNIVERSE, D19_CAP, D19_LOWER, D50_UNIVERSE]
    results = run_universes(chk, us + known_us)
    if not quick:
        pyd_us = [u for u in us if not u["name"].startswith("pair")] + [pair_universe(c, t) for c, t in
                                                                       [((), ("a",)), (("a",), ()), (("a", "b"), ("a", "c")), (("a",), ("a", "b", "c"))]]
        results += [(dict(u, name=u["name"] + " [pydantic]"), r) for u, r in run_universes(chk, pyd_us, ("pydantic_dataclasses",))]
    col = Collector(chk)
    resolve_lines, resolve_facts = [], []
    for u, (fails, facts) in results:
        chk.count("universes")
        clean = not features((), None, u)
        for kind, inp, detail in fails:
            col.fail(kind, inp, detail)
        for cur, tgt, cname, rel in facts:
            chk.case("site %s %s %s %s" % (u["name"], dot(cur), dot(tgt), cname), cur != tgt)
            chk.count("relation_" + relation(cur, tgt))
            if clean and drv:
                src = fq(tgt, {"MsgInner": "Msg.Inner", "MsgNestedEnum": "Msg.NestedEnum"}.get(cname, cname))
                resolve_lines.append("RESOLVE =%s =%s 1 0" % (dot(cur), src))
                resolve_facts.append((u["name"], cur, tgt, cname, rel))
    if drv and resolve_lines:
        uniq = sorted(set(resolve_lines))
        rep = dict(zip(uniq, drv.ask(uniq)))
        for ln, (uname, cur, tgt, cname, rel) in zip(resolve_lines, resolve_facts):
            m = rep[ln].split(" ")
            model = (m[2][1:], m[3][1:]) if len(m) == 4 and m[1] == "gen" else None
            real = tuple(rel) if isinstance(rel, tuple) else None
            if model != real:
                chk.disagree("PyImport denotation vs Python", [uname, dot(cur), dot(tgt), cname], rep[ln], repr(rel))
    col.flush()


class Collector:
    """unlisted failures first (common.Check keeps at most 200), a few samples of each known class"""

    def __init__(self, chk):
        self.chk, self.fails = chk, []

    def fail(self, kind, inp, detail):
        self.fails.append({"kind": kind, "input": inp, "detail": detail})

    def flush(self):
        known = [e for e in self.chk.known if e.get("status") == "known"]
        listed = {}
        for fl in self.fails:
            fid = classify(fl, known)
            if fid is None:
                self.chk.fail(fl["kind"], fl["input"], fl["detail"])
            else:
                listed.setdefault((fid, fl["kind"]), []).append(fl)
        for (fid, kind), fls in sorted(listed.items()):
            self.chk.count("instances_of_%s_%s" % (fid, kind), len(fls))
            for fl in fls[:3]:
                self.chk.fail(fl["kind"], fl["input"], fl["detail"])


# ------------------------------------------------------------------ classification / replay

def classify(failure, known):
    ids = {e["id"] for e in known}
    inp = failure.get("input") or {}
    kind = failure["kind"]
    feats = inp.get("features") or []
    if kind == "alias-collision":
        return "D20" if "D20" in ids and "underscore-or-digit-boundary-segment" in feats else None
    if kind not in ("reference-unresolvable", "reference-wrong-class", "package-not-importable", "roundtrip-through-reference-failed"):
        return None
    if "D19" in ids and ("capitalised-package-segment" in feats or ("lower-case-type-name" in feats and
                                                                    (inp.get("site") in ("lowertype", "import", "_type_hints", "import-target")
                                                                     or "lower" in failure.get("detail", "")))):
        return "D19"
    if "D50" in ids and "package-named-like-bundled-library" in feats:
        # the module binds the bundled library's alias by two different import statements
        col = inp.get("collisions") or {}
        if any(len(st) > 1 and k.startswith("betterproto_lib_") for k, st in col.items()) or inp.get("tgt") == "google.protobuf":
            return "D50"
    if "D20" in ids and "universe-has-underscore-segment" in feats:
        # the generated module binds one name by two different import statements, and an underscore segment is involved
        col = inp.get("collisions") or {}
        if any(len(st) > 1 and any("_" in s.split(" import ")[0] + s.split(" import ")[1].split(" as ")[0] for s in st) for st in col.values()):
            return "D20"
    return None


def _parse_universe(tag):
    return {"name": tag["universe"], "packages": [tuple(p.split(".")) if p else () for p in tag["packages"]],
            "refs": [(tuple(c.split(".")) if c else (), [tuple(t.split(".")) if t else () for t in ts]) for c, ts in tag["refs"]],
            "lower_types": tag.get("lower_types", False), "wkt": tag.get("wkt", False), "sites": tag.get("sites", "all")}, tuple(tag.get("opts", []))


def replay(chk, rp):
    fl = rp.get("failure")
    if not fl:
        return True
    inp = fl["input"]
    if fl["kind"] == "alias-collision":
        cur = tuple(inp["cur"].split(".")) if inp["cur"] else ()
        tg = [tuple(x.split(".")) if x else () for x in inp["tgts"]]
        return bool(alias_collisions(cur, tg))
    tag = inp.get("universe") if isinstance(inp.get("universe"), dict) else inp
    if not isinstance(tag, dict) or "packages" not in tag:
        return True
    u, opts = _parse_universe(tag)
    fails, _ = check_universe(u, opts)
    for kind, i2, _ in fails:
        if kind == fl["kind"] and i2.get("cur") == inp.get("cur") and i2.get("tgt") == inp.get("tgt") and i2.get("site") == inp.get("site"):
            return True
    return False


def replay_known(chk, entry):
    u = {"D19": [D19_CAP, D19_LOWER], "D20": [D20_UNIVERSE], "D50": [D50_UNIVERSE]}.get(entry["id"], [])
    for uu in u:
        fails, _ = check_universe(uu)
        if any(classify({"kind": k, "input": i, "detail": d}, [entry]) == entry["id"] for k, i, d in fails):
            return True
    return False


def search(chk):
    """proof or correspondence broke and the quick oracle was silent: more pairs, deeper, both option sets"""
    rng = chk.rng
    ps3 = paths(["a", "b", "c_d"], 3)
    pairs = [(c, t) for c in ps3 for t in ps3 if max(len(c), len(t)) == 3]
    us = [pair_universe(c, t) for c, t in rng.sample(pairs, 300)]
    us.append(all_at_once(paths(["a", "b"], 3), "all-at-once depth<=3 over {a,b}", wkt=True))
    us.append(all_at_once(paths(["v1", "x2y", "pkg"], 2), "all-at-once digits in segments"))
    col = Collector(chk)
    for opts in ((), ("pydantic_dataclasses",)):
        for u, (fails, _) in run_universes(chk, us if not opts else us[-2:] + us[:40], opts):
            for kind, inp, detail in fails:
                col.fail(kind, inp, detail)
    col.flush()
