"""C14 — observers are pure; copy, deepcopy and pickle are faithful and independent."""
import copy
import json
import pickle

import betterproto
import bpgen
import heapcopy
import wirecases as W
import wiresplit as WS
from common import is_err
from props.c01 import presence
from props.c09 import schema_from_desc, parse_term


def read_all(m, depth=2):
    for f in type(m)._betterproto.meta_by_field_name:
        try:
            v = getattr(m, f)
        except AttributeError:
            continue
        if isinstance(v, betterproto.Message) and depth > 0:
            read_all(v, depth - 1)
        elif isinstance(v, list):
            for x in v:
                if isinstance(x, betterproto.Message) and depth > 0:
                    read_all(x, depth - 1)


OBSERVERS = {
    "reads": lambda m: read_all(m),
    "bytes": lambda m: bytes(m),
    "len": lambda m: len(m),
    "eq": lambda m: m == m,
    "bool": lambda m: bool(m),
    "repr": lambda m: repr(m),
    "to_dict": lambda m: m.to_dict(),
    "to_dict_snake": lambda m: m.to_dict(casing=betterproto.Casing.SNAKE),
    "to_json": lambda m: m.to_json(),
    "to_pydict": lambda m: m.to_pydict(),
    "is_set": lambda m: [m.is_set(f) for f in type(m)._betterproto.meta_by_field_name],
    "which_one_of": lambda m: [betterproto.which_one_of(m, g) for g in type(m)._betterproto.oneof_field_by_group],
}
MODEL_OP = {"reads": "read", "bytes": "read", "len": "read", "to_dict": "read", "to_json": "read", "to_pydict": "read",
            "to_dict_snake": "read", "eq": "raw", "bool": "raw", "repr": "raw",
            "is_set": "raw", "which_one_of": "raw"}


def eq_others(m):
    """== against OTHER messages of the class, both ways (a fresh one, and ones with each field set)"""
    cls = type(m)
    others = [cls()]
    for name in cls._betterproto.meta_by_field_name:
        try:
            v = getattr(cls(), name)
        except AttributeError:
            v = cls()._get_field_default(name)
        try:
            others.append(cls(**{name: v}))
        except Exception:
            pass
    for o in others:
        m == o
        o == m
        m != o


OBSERVERS["eq_others"] = eq_others
MODEL_OP["eq_others"] = "raw"


def snapshot(m, schema, ci):
    return {"bytes": bytes(m), "presence": presence(m, schema, ci)}


def mutate_everything(c, schema, ci, classes, rng, depth=2):
    """change every mutable path of a copy"""
    md = schema[ci]
    for f in md.fields:
        try:
            v = getattr(c, f.name)
        except AttributeError:
            # an unselected oneof member: assigning it switches the selection OF THE COPY
            if rng.random() < 0.5:
                nv = bpgen.gen_field(rng, schema, f, 1)
                try:
                    setattr(c, f.name, bpgen.to_py(nv, classes, f.ty))
                except Exception:
                    pass
            continue
        if isinstance(v, list):
            item = bpgen.gen_field(rng, schema, bpgen.dataclasses.replace(f, repeated=False), 1)
            try:
                v.append(bpgen.to_py(item, classes, f.ty))
            except Exception:
                pass
            if v and isinstance(v[0], betterproto.Message) and depth > 0 and f.kind.startswith("u"):
                mutate_everything(v[0], schema, int(f.kind[1:]), classes, rng, depth - 1)
        elif isinstance(v, dict):
            for k in list(v):
                if isinstance(v[k], betterproto.Message) and depth > 0 and f.mapVKind.startswith("u"):
                    mutate_everything(v[k], schema, int(f.mapVKind[1:]), classes, rng, depth - 1)
            nv = bpgen.gen_field(rng, schema, f, 1)
            try:
                v.update(bpgen.to_py(nv, classes, f.mapV))
            except Exception:
                pass
        elif isinstance(v, betterproto.Message) and depth > 0 and f.kind.startswith("u"):
            mutate_everything(v, schema, int(f.kind[1:]), classes, rng, depth - 1)
        else:
            nv = bpgen.gen_field(rng, schema, f, 1)
            try:
                setattr(c, f.name, bpgen.to_py(nv, classes, f.ty))
            except Exception:
                pass


def mutate_toplevel(c, schema, ci, classes, rng):
    """assign top-level attributes of a SHALLOW copy (never mutate a shared container in place):
    scalars, whole lists / dicts / sub-messages, and other members of oneof groups"""
    for f in schema[ci].fields:
        if rng.random() < 0.3:
            continue
        nv = bpgen.gen_field(rng, schema, f, 1)
        try:
            setattr(c, f.name, bpgen.to_py(nv, classes, f.ty if f.ty != "map" else f.mapV))
        except Exception:
            pass


def oracle(chk, inp, m, schema, ci, classes, rng, obs_names):
    cls = classes[ci]
    try:
        before = snapshot(m, schema, ci)
        frozen = cls().parse(before["bytes"])
    except Exception as e:
        return
    for name in obs_names:
        try:
            OBSERVERS[name](m)
        except Exception as e:
            # an observer that raises is not an impure observer: C14 is about what the message
            # encodes to / equals / reports afterwards, which is still checked below.  (Seen: to_dict on an
            # enum number without a member, D14; to_json on a bytes wrapper, D17; to_pydict on repeated
            # Timestamp/Duration.)  An earlier version of this oracle flagged the raise itself: false alarm.
            chk.count("observer_raises_%s_%s" % (type(e).__name__, name))
        try:
            after = snapshot(m, schema, ci)
        except Exception as e:
            chk.fail("observer-breaks-encoding:" + name, inp, repr(e))
            return
        if after["bytes"] != before["bytes"]:
            chk.fail("observer-changes-bytes:" + name, inp, "%s -> %s" % (before["bytes"].hex(), after["bytes"].hex()))
        if after["presence"] != before["presence"]:
            chk.fail("observer-changes-presence:" + name, inp, "%r -> %r" % (before["presence"], after["presence"]))
        if not (m == frozen):
            chk.fail("observer-changes-equality:" + name, inp, repr(m))
    for cname, fn in (("copy", copy.copy), ("deepcopy", copy.deepcopy), ("pickle", lambda x: pickle.loads(pickle.dumps(x)))):
        try:
            c = fn(m)
        except Exception as e:
            chk.fail("copy-raises:" + cname, inp, repr(e))
            continue
        if not (c == m):
            chk.fail("copy-not-equal:" + cname, inp, repr(c))
        try:
            cb = bytes(c)
        except Exception as e:
            chk.fail("copy-not-encodable:" + cname, inp, repr(e))
            continue
        if cb != before["bytes"]:
            chk.fail("copy-bytes-differ:" + cname, inp, "%s vs %s" % (before["bytes"].hex(), cb.hex()))
        if presence(c, schema, ci) != before["presence"]:
            chk.fail("copy-presence-differs:" + cname, inp, repr(presence(c, schema, ci)))
        if cname != "copy":
            mutate_everything(c, schema, ci, classes, rng)
        else:
            mutate_toplevel(c, schema, ci, classes, rng)
        # … and a merge INTO the copy of bytes carrying a field its class does not know: the copy's unknown
        # fields grow, the original's must not (they are bytes — shared storage would show here)
        used = {f.num for f in schema[ci].fields}
        n = next(k for k in (2047, 2046, 1000, 999, 19, 18, 17) if k not in used)
        try:
            c.parse(betterproto.encode_varint(n << 3) + b"\x05")
        except Exception:
            pass
        try:
            now = snapshot(m, schema, ci)
        except Exception as e:
            chk.fail("copy-not-independent:" + cname, inp, "original no longer encodable: %r" % e)
            continue
        if now["bytes"] != before["bytes"]:
            chk.fail("copy-not-independent:" + cname, inp, "%s -> %s" % (before["bytes"].hex(), now["bytes"].hex()))
        if now["presence"] != before["presence"]:
            chk.fail("copy-not-independent:" + cname, inp, "presence %r -> %r" % (before["presence"], now["presence"]))


def reset_in_place(m, depth=3):
    """take content back IN PLACE: clear every list / dict, store the default into every readable plain scalar, recurse
    into sub-messages through attribute access (they are never assigned)"""
    for name, meta in type(m)._betterproto.meta_by_field_name.items():
        try:
            v = getattr(m, name)
        except AttributeError:
            continue
        if isinstance(v, (list, dict)):
            v.clear()
        elif isinstance(v, betterproto.Message):
            if depth > 0:
                reset_in_place(v, depth - 1)
        elif v is not None and not meta.group and not meta.optional:
            try:
                setattr(m, name, m._get_field_default(name))
            except Exception:
                pass


def twin_stage(chk, inp, m, twin, schema, ci, classes, rng, obs_names, force=None):
    """"never change what a message SUBSEQUENTLY encodes to / reports as present": `m` is observed, its `twin` (built
    the same way) is not; then BOTH get the same further history — content taken back in place, or every mutable path
    changed with equally seeded generators — and must stay indistinguishable (bytes, presence, bytes of a deep copy).
    On a tree with pure observers the two objects go through identical states, so this cannot raise a false alarm."""
    import random
    # (the twin is NOT looked at before the history: comparing the two objects first would observe it)
    for name in obs_names:
        try:
            OBSERVERS[name](m)
        except Exception:
            pass
    how = rng.choice(["reset", "reset", "mutate"])
    sd = rng.getrandbits(32)
    if force:
        how, sd = force
    for x in (m, twin):
        try:
            if how == "reset":
                reset_in_place(x)
            else:
                mutate_everything(x, schema, ci, classes, random.Random(sd))
        except Exception as e:
            chk.count("twin_history_raises_" + type(e).__name__)
    chk.count("twin_" + how)
    try:
        a, t = snapshot(m, schema, ci), snapshot(twin, schema, ci)
        ca, ct = bytes(copy.deepcopy(m)), bytes(copy.deepcopy(twin))
    except Exception as e:
        chk.count("twin_snapshot_raises_" + type(e).__name__)
        return
    inp = dict(inp, then=how, then_seed=sd)
    if a["bytes"] != t["bytes"]:
        chk.fail("observed-then-%s-bytes-differ-from-unobserved-twin" % how, inp, "%s vs %s" % (a["bytes"].hex(), t["bytes"].hex()))
    elif a["presence"] != t["presence"]:
        chk.fail("observed-then-%s-presence-differs-from-unobserved-twin" % how, inp, "%r vs %r" % (a["presence"], t["presence"]))
    elif ca != ct:
        chk.fail("observed-then-%s-deepcopy-differs-from-unobserved-twin" % how, inp, "%s vs %s" % (ca.hex(), ct.hex()))


def make_message(rng, b, v):
    """value from a constructor, from bytes (with unknown fields) or from a dict"""
    ci = v[1]
    m = bpgen.to_py(v, b.classes)
    how = rng.choice(["ctor", "ctor", "bytes", "bytes+unknown", "dict"])
    try:
        if how == "bytes":
            return b.classes[ci]().parse(bytes(m)), how, bytes(m)
        if how == "bytes+unknown":
            data = bytes(m) + WS.random_unknown_record(rng, {f.num for f in b.schema[ci].fields})
            return b.classes[ci]().parse(data), how, data
        if how == "dict":
            return b.classes[ci]().from_dict(m.to_dict()), how, None
    except Exception:
        pass
    return m, "ctor", None


def zeroed(v):
    """the same shape with every scalar leaf at its default: in place, such a value is PRESENCE only"""
    k = v[0]
    if k == "i":
        return ("i", 0)
    if k == "b":
        return ("b", False)
    if k in ("f32", "f64"):
        return (k, 0)
    if k in ("s", "y"):
        return (k, b"")
    if k == "l":
        return ("l", [zeroed(x) for x in v[1]])
    if k == "D":
        return ("D", [(a, zeroed(x)) for a, x in v[1]])
    if k == "c":
        return ("c", v[1], {i: zeroed(x) for i, x in v[2].items()})
    return v


def build_in_place(b, v, sd):
    """Cls() filled through nested access / container mutation only (props.c09.fill_inplace): the holders are not marked"""
    import random
    from props.c09 import fill_inplace
    m = b.classes[v[1]]()
    return m, fill_inplace(m, b, v[1], v, random.Random(sd))


def run(chk, drv):
    quick = chk.tier == "quick"
    rng = chk.rng
    chk.extra["rule"] = ("messages built by constructors, filled in place through nested access (also with default values only: presence without content), decoded from bytes (with unknown fields) and loaded from dicts; a random sequence of observers (attribute reads incl. "
                         "lazily defaulted nested messages, bytes, len, ==, bool, repr, to_dict, to_json, to_pydict, is_set, which_one_of), then copy / deepcopy / pickle; every mutable "
                         "path of a deep / unpickled copy is mutated and the original re-checked. non-trivial = message with ≥ 1 set field; distinct by (schema, value, observer sequence)")
    nb = 160 if quick else 800
    heap_every, heap_p = (2, 0.0) if quick else (1, 1.0)
    chk.extra["rule_heap"] = ("stage heap: the same messages with ALIASED sub-objects (one sub-message twice in a list, under two map keys, in two fields); "
                              "copy / deepcopy / pickle; identity of every message / list / dict along all paths (`is`), random mutations through one side; "
                              "compared with the heap model (HEAPCOPY) and with 'the other side is untouched'")
    # stage "pydict": to_pydict / from_pydict against the model (BpModel/PyDict.lean) and the round-trip oracle
    import pydictstage
    pydictstage.stage(chk, drv, 40 if quick else 240)
    pydictstage.replay_witnesses(chk)
    for bi in range(nb):
        b = W.Batch(rng, "p%d" % bi, 8)
        W.count_features(chk, b)
        if bi % heap_every == 0:
            heapcopy.stage_rich(chk, drv, 4 if quick else 8)
        if drv:
            assert drv.ask1(b.schema_line()) == "ok"
        for v in b.values:
            ci = v[1]
            m, how, data = make_message(rng, b, v)
            raw = sd = None
            if rng.random() < 0.25:
                vz, sd = (zeroed(v) if rng.random() < 0.5 else v), rng.getrandbits(32)
                try:
                    m, raw = build_in_place(b, vz, sd)
                    how, data, v = "inplace", None, vz
                except Exception as e:
                    chk.count("inplace_skipped_" + type(e).__name__)
                    raw = None
            names = [rng.choice(list(OBSERVERS)) for _ in range(rng.randint(1, 6))]
            inp = {"schema": b.describe(), "value": bpgen.term(v), "how": how, "data": data.hex() if data else None, "observers": names}
            if raw:
                inp["built_in_place"], inp["fill_seed"] = raw, sd
            chk.count("built_" + how)
            for n in names:
                chk.count("observer_" + n)
            chk.case(b.schema_line() + bpgen.term(v) + how + ",".join(names), not W.is_trivial(v), {"value": bpgen.term(v), "how": how, "observers": names})
            oracle(chk, inp, m, b.schema, ci, b.classes, rng, names)
            # stage "twin": an observed message and an unobserved twin built the same way, then the same further history
            try:
                if raw:
                    m_a, m_t = build_in_place(b, v, sd)[0], build_in_place(b, v, sd)[0]
                elif data is not None:
                    m_a, m_t = b.classes[ci]().parse(data), b.classes[ci]().parse(data)
                else:
                    m_a, m_t = bpgen.to_py(v, b.classes), bpgen.to_py(v, b.classes)
                twin_stage(chk, inp, m_a, m_t, b.schema, ci, b.classes, rng, names)
            except Exception as e:
                if "betterproto" in (getattr(e, "__traceback__", None) and e.__traceback__.tb_frame.f_code.co_filename or ""):
                    raise
                chk.count("twin_skipped_" + type(e).__name__)
            # stage "heap": the SHARING pattern of copy / deepcopy / pickle against the heap model (Props/C14Heap.lean)
            if bi % heap_every == 0 or not W.is_trivial(v) and rng.random() < heap_p:
                heapcopy.stage(chk, drv, b, v, {"schema": b.describe(), "value": bpgen.term(v)})
            # correspondence: the same observers and copies through the model, lock-step
            if drv and how in ("ctor", "bytes", "bytes+unknown", "inplace"):
                m2 = bpgen.to_py(v, b.classes)
                ops = []
                if raw:
                    m2, init = build_in_place(b, v, sd)
                elif data is not None:
                    m2 = b.classes[ci]()
                    m2.parse(data)
                    init, ops = "c %d 0" % ci, ["parse %s" % W.hexs(data)]
                else:
                    init = bpgen.term(v)
                want = []
                if ops:
                    want.append(bpgen.obsp_msg(m2, b.schema, ci) + " | " + W.hexs(bytes(m2)))
                for n in names + ["copy", "deepcopy", "pickle"]:
                    try:
                        if n in OBSERVERS:
                            OBSERVERS[n](m2)
                            ops.append(MODEL_OP[n])
                        else:
                            m2 = {"copy": copy.copy, "deepcopy": copy.deepcopy, "pickle": lambda x: pickle.loads(pickle.dumps(x))}[n](m2)
                            ops.append(n)
                        want.append(bpgen.obsp_msg(m2, b.schema, ci) + " | " + W.hexs(bytes(m2)))
                    except Exception:
                        break
                if ops and len(want) == len(ops):
                    r = drv.ask1("OPS %s %s ; %s" % (b.sid, init, " ".join(ops)))
                    outs = r.split(" ;; ")
                    if outs != want:
                        k = next((i for i, (a, c) in enumerate(zip(outs, want)) if a != c), min(len(outs), len(want)))
                        chk.disagree("observer/copy history step %d" % k, {"schema": b.schema_line(), "init": init, "ops": ops},
                                     outs[k] if k < len(outs) else r[:200], want[k] if k < len(want) else "-")


def _d13():
    schema = [bpgen.M("M0", [bpgen.F("i", 2, "int32")])]
    C, = bpgen.build_bp(schema)
    m = C().parse(bytes([0x78, 0x01]))
    return bytes(copy.copy(m)) != bytes(m) or bytes(copy.deepcopy(m)) != bytes(m)


def _d45():
    """a read-but-unset sub-message of a field-less type: deepcopy gained `0a 00`, copy.copy changed the original"""
    schema = [bpgen.M("M0", [bpgen.F("e", 1, "message", kind="u1"), bpgen.F("n", 2, "int32")]), bpgen.M("M1", [])]
    C, E = bpgen.build_bp(schema)
    m = C(n=1)
    m.e                     # a read: the default E() is stored in the slot
    b = bytes(m)
    if bytes(copy.deepcopy(m)) != b:
        return True
    c = copy.copy(m)
    return bytes(c) != b or bytes(m) != b


def _d04():
    schema = [bpgen.M("M0", [bpgen.F("m", 1, "map", mapK="string", mapV="message", mapVKind="u1")]), bpgen.M("M1", [bpgen.F("x", 1, "int32")])]
    C, Sub = bpgen.build_bp(schema)
    m = C(m={"k": Sub(x=1)})
    b = bytes(m)
    try:
        m.to_pydict()
        return bytes(m) != b
    except Exception:
        return True


def _d05():
    schema = [bpgen.M("M0", [bpgen.F("a", 1, "int32", group=0), bpgen.F("b", 2, "string", group=0)], 1)]
    C, = bpgen.build_bp(schema)
    try:
        C(a=5).to_pydict()
        return False
    except AttributeError:
        return True


def replay_known(chk, entry):
    return {"D13": _d13, "D04": _d04, "D05": _d05, "D45": _d45}[entry["id"]]()


def classify(failure, known):
    return None


def search(chk):
    saved = chk.tier
    chk.tier = "thorough"
    try:
        run(chk, None)
    finally:
        chk.tier = saved


def replay(chk, rp):
    inp = (rp.get("failure") or {}).get("input") or {}
    if "value" not in inp:
        return True
    schema = schema_from_desc(inp["schema"])
    classes = bpgen.build_bp(schema)
    v = parse_term(inp["value"].split())[0]
    if inp.get("stage") == "pydict":
        import pydictstage
        import types
        c = type(chk)(chk.pid, "quick", 0)
        b = types.SimpleNamespace(classes=classes, schema=schema, describe=lambda: inp["schema"])
        pydictstage.oracle(c, b, v, lambda: bpgen.to_py(v, classes), {inp["casing"]: True}, {"schema": inp["schema"], "value": inp["value"]})
        return bool(c.oracle_failures)
    if inp.get("stage") == "heap":
        c = type(chk)(chk.pid, "quick", 0)
        heapcopy.heap_case(c, None, schema, classes, v, inp["heap_seed"], {"schema": inp["schema"], "value": inp["value"]})
        return bool(c.oracle_failures)
    ci = v[1]

    def build():
        m = bpgen.to_py(v, classes)
        if inp.get("data"):
            m = classes[ci]().parse(bytes.fromhex(inp["data"]))
        elif inp.get("how") == "dict":
            m = classes[ci]().from_dict(m.to_dict())
        elif inp.get("how") == "inplace":
            import types
            m, _ = build_in_place(types.SimpleNamespace(classes=classes, schema=schema), v, inp["fill_seed"])
        return m

    m = build()
    c = type(chk)(chk.pid, "quick", 0)
    if inp.get("then"):
        twin_stage(c, inp, m, build(), schema, ci, classes, c.rng, inp["observers"], force=(inp["then"], inp["then_seed"]))
        return bool(c.oracle_failures)
    oracle(c, inp, m, schema, ci, classes, c.rng, inp["observers"])
    return bool(c.oracle_failures)
