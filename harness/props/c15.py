"""C15 — Timestamp/Duration <-> datetime/timedelta conversion is exact and normalised."""
import io
from datetime import datetime, timedelta, timezone

import betterproto
import bpgen
from betterproto import _Duration, _Timestamp
from common import is_err

EPOCH = bpgen.EPOCH
US = timedelta(microseconds=1)
TS_MIN, TS_MAX = bpgen.TS_MIN_US, bpgen.TS_MAX_US
DUR_MAX = bpgen.DUR_MAX_US


def ts_values(chk):
    rng = chk.rng
    quick = chk.tier == "quick"
    out = set()
    for c in (0, TS_MIN, TS_MAX, 1 << 53, -(1 << 53), 10**15, -10**15, 1577836800 * 10**6):
        for d in range(-3, 4):
            out.add(c + d)
    for s in (-2, -1, 0, 1, 2, 86399, 86400, -86400, 2**31, -2**31):
        for d in (-1000001, -1000000, -999999, -1001, -1000, -999, -1, 0, 1, 999, 1000, 1001, 999999, 1000000, 1000001):
            out.add(s * 10**6 + d)
    for _ in range(3000 if quick else 100000):
        out.add(rng.randint(TS_MIN, TS_MAX))
    for _ in range(3000 if quick else 100000):
        out.add(rng.randint(-5 * 10**6, 5 * 10**6))
    if not quick:
        out.update(range(0, 10**6))           # every fraction value
        out.update(range(-10**6, 0))
    return sorted(v for v in out if TS_MIN <= v <= TS_MAX)


def dur_values(chk):
    rng = chk.rng
    quick = chk.tier == "quick"
    out = set()
    for c in (0, DUR_MAX, -DUR_MAX, 1 << 53, -(1 << 53), 10**15):
        for d in range(-3, 4):
            out.add(c + d)
    for s in (-2, -1, 0, 1, 2, 86400, -86400):
        for d in (-1000001, -1000000, -999999, -500000, -1001, -1000, -999, -1, 0, 1, 999, 1000, 1001, 500000, 999999, 1000000, 1000001):
            out.add(s * 10**6 + d)
    for _ in range(3000 if quick else 100000):
        out.add(rng.randint(-DUR_MAX, DUR_MAX))
    for _ in range(3000 if quick else 100000):
        out.add(rng.randint(-5 * 10**6, 5 * 10**6))
    if not quick:
        out.update(range(-10**6, 10**6))
    return sorted(v for v in out if -DUR_MAX <= v <= DUR_MAX)


_schema = [bpgen.M("T", [bpgen.F("t", 1, "message", kind="ts"), bpgen.F("d", 2, "message", kind="dur"),
                         # the same two kinds in the other placements a field can have
                         bpgen.F("ts", 3, "message", kind="ts", repeated=True), bpgen.F("ds", 4, "message", kind="dur", repeated=True),
                         bpgen.F("ot", 5, "message", kind="ts", optional=True), bpgen.F("od", 6, "message", kind="dur", optional=True),
                         bpgen.F("gt", 7, "message", kind="ts", group=0), bpgen.F("gd", 8, "message", kind="dur", group=0)], 1)]
_cls = None
_ref = None


def classes():
    global _cls, _ref
    if _cls is None:
        _cls = bpgen.build_bp(_schema)[0]
        _ref = bpgen.build_ref(_schema)[0]
    return _cls, _ref


def ts_oracle(chk, us, offset_min, offset_us=0):
    from google.protobuf import timestamp_pb2
    C, R = classes()
    # (a utcoffset need not be a whole number of minutes, nor of seconds: offset_us adds a sub-second part — D52)
    tz = timezone(timedelta(minutes=offset_min, microseconds=offset_us))
    dt = (EPOCH + timedelta(microseconds=us)).astimezone(tz)
    inp = {"kind": "timestamp", "us": us, "utc_offset_min": offset_min}
    if offset_us:
        inp["utc_offset_us"] = offset_us
    try:
        b = bytes(C(t=dt))
    except Exception as e:
        chk.fail("timestamp-encode-raises", inp, repr(e))
        return
    r = R.FromString(b)
    want = timestamp_pb2.Timestamp()
    want.FromDatetime(dt.astimezone(timezone.utc).replace(tzinfo=None) if dt.tzinfo else dt)
    got = (r.t.seconds, r.t.nanos)
    if got != (want.seconds, want.nanos):
        chk.fail("timestamp-pair-differs-from-reference", inp, "%r vs %r" % (got, (want.seconds, want.nanos)))
    if not (0 <= got[1] < 10**9):
        chk.fail("timestamp-nanos-not-normalised", inp, repr(got))
    back = C().parse(b).t
    if us == 0:
        pass        # epoch is the implicit default of a plain Timestamp field (omitted on the wire)
    if back != dt or (back - EPOCH) // US != us:
        chk.fail("timestamp-roundtrip", inp, repr(back))
    # JSON: RFC 3339 UTC, accepted by the reference and read back identically
    js = C(t=dt).to_dict().get("t", "1970-01-01T00:00:00Z")
    try:
        p = timestamp_pb2.Timestamp()
        p.FromJsonString(js)
        if (p.seconds, p.nanos) != (want.seconds, want.nanos):
            chk.fail("timestamp-json-misread-by-reference", inp, "%s -> %r" % (js, (p.seconds, p.nanos)))
    except Exception as e:
        chk.fail("timestamp-json-rejected-by-reference", inp, "%s: %r" % (js, e))
    if not js.endswith("Z"):
        chk.fail("timestamp-json-not-utc", inp, js)
    try:
        if C().from_dict({"t": js}).t != dt:
            chk.fail("timestamp-json-roundtrip", inp, js)
        if C().from_dict({"t": want.ToJsonString()}).t != dt:
            chk.fail("timestamp-reference-json-misread", inp, want.ToJsonString())
    except Exception as e:
        chk.fail("timestamp-json-parse-raises", inp, "%s: %r" % (js, e))
    if offset_min != 0 or us % 7 == 0:
        placements(chk, "timestamp", dt, (want.seconds, want.nanos), us, inp)


def placements(chk, kind, value, want_pair, want_json_us, inp):
    """the same datetime / timedelta in a repeated field (twice, beside a neighbour), a proto3-optional field and a oneof
    member: same (seconds, nanos) on the wire as the reference computes, JSON strings the reference reads as the same
    instant / span, and the same value back from bytes and from JSON"""
    from google.protobuf import timestamp_pb2, duration_pb2
    C, R = classes()
    rep, opt, grp = ("ts", "ot", "gt") if kind == "timestamp" else ("ds", "od", "gd")
    for how, kw, read in (("repeated", {rep: [value, value]}, lambda m: list(getattr(m, rep))),
                          ("optional", {opt: value}, lambda m: [getattr(m, opt)]),
                          ("oneof", {grp: value}, lambda m: [getattr(m, grp)])):
        inp2 = dict(inp, placement=how)
        try:
            m = C(**kw)
            b = bytes(m)
            r = R.FromString(b)
            got = [(x.seconds, x.nanos) for x in (list(getattr(r, rep)) if how == "repeated" else [getattr(r, opt if how == "optional" else grp)])]
            if any(g != want_pair for g in got):
                chk.fail(kind + "-pair-differs-from-reference", inp2, "%r vs %r" % (got, want_pair))
            if any(x != value for x in read(C().parse(b))):
                chk.fail(kind + "-roundtrip", inp2, repr(read(C().parse(b))))
            d = m.to_dict()
            key = [k for k in d][0]
            strs = d[key] if how == "repeated" else [d[key]]
            for js in strs:
                p = timestamp_pb2.Timestamp() if kind == "timestamp" else duration_pb2.Duration()
                p.FromJsonString(js)
                if (p.seconds, p.nanos) != want_pair:
                    chk.fail(kind + "-json-misread-by-reference", inp2, "%s -> %r, expected %r" % (js, (p.seconds, p.nanos), want_pair))
            if any(x != value for x in read(C().from_dict(d))):
                chk.fail(kind + "-json-roundtrip", inp2, repr(d))
        except Exception as e:
            chk.fail(kind + "-placement-raises", inp2, repr(e))
    chk.count(kind + "_placements")


def dst_fold_stage(chk):
    """'aware datetimes in any time zone denote the same instant': real DST zones, and in particular BOTH readings
    (fold=0 / fold=1) of the wall-clock times of a repeated hour — equal and equally hashed as datetime objects,
    yet different instants — serialised one after the other in the same process"""
    try:
        from zoneinfo import ZoneInfo
        zones = [ZoneInfo(z) for z in ("America/New_York", "Europe/Berlin", "Australia/Lord_Howe", "America/St_Johns")]
    except Exception as e:           # no tz database in this environment: the stage does not apply
        chk.notes.append("dst_fold_stage skipped: %r" % (e,))
        return
    from datetime import datetime
    from google.protobuf import timestamp_pb2
    C, R = classes()
    for tz in zones:
        for year in (1999, 2021, 2022):
            for month in (3, 4, 10, 11):
                for day in range(1, 32):
                    for hour in (0, 1, 2, 3):
                        for minute in (0, 30, 59):
                            try:
                                a = datetime(year, month, day, hour, minute, 15, 250000, tzinfo=tz)
                            except ValueError:
                                continue
                            b2 = a.replace(fold=1)
                            if a.utcoffset() == b2.utcoffset():
                                continue                      # not in a repeated hour
                            for dt in (a, b2, a):             # first pass, second pass, first pass again
                                inp = {"kind": "timestamp", "zone": str(tz), "wall": dt.replace(tzinfo=None).isoformat(), "fold": dt.fold}
                                chk.case("fold %s %s %d" % (tz, dt.replace(tzinfo=None).isoformat(), dt.fold), True, inp)
                                chk.count("dst_fold_cases")
                                want = timestamp_pb2.Timestamp()
                                want.FromDatetime(dt.astimezone(timezone.utc).replace(tzinfo=None))
                                try:
                                    m = C(t=dt)
                                    data = bytes(m)
                                    r = R.FromString(data)
                                    if (r.t.seconds, r.t.nanos) != (want.seconds, want.nanos):
                                        chk.fail("timestamp-pair-differs-from-reference", inp, "%r vs %r" % ((r.t.seconds, r.t.nanos), (want.seconds, want.nanos)))
                                    if len(m) != len(data):
                                        chk.fail("timestamp-len-differs", inp, "%d vs %d" % (len(m), len(data)))
                                    back = C().parse(data).t
                                    if back.astimezone(timezone.utc) != dt.astimezone(timezone.utc):
                                        chk.fail("timestamp-roundtrip", inp, repr(back))
                                except Exception as e:
                                    chk.fail("timestamp-encode-raises", inp, repr(e))


def dur_oracle(chk, us):
    from google.protobuf import duration_pb2
    C, R = classes()
    td = timedelta(microseconds=us)
    inp = {"kind": "duration", "us": us}
    try:
        b = bytes(C(d=td))
    except Exception as e:
        chk.fail("duration-encode-raises", inp, repr(e))
        return
    r = R.FromString(b)
    want = duration_pb2.Duration()
    want.FromTimedelta(td)
    got = (r.d.seconds, r.d.nanos)
    if got != (want.seconds, want.nanos):
        chk.fail("duration-pair-differs-from-reference", inp, "%r vs %r" % (got, (want.seconds, want.nanos)))
    if got[0] * got[1] < 0 or abs(got[1]) >= 10**9:
        chk.fail("duration-sign-or-range", inp, repr(got))
    back = C().parse(b).d
    if back != td:
        chk.fail("duration-roundtrip", inp, repr(back))
    js = C(d=td).to_dict().get("d", "0s")
    try:
        p = duration_pb2.Duration()
        p.FromJsonString(js)
        if (p.seconds, p.nanos) != (want.seconds, want.nanos):
            chk.fail("duration-json-misread-by-reference", inp, "%s -> %r" % (js, (p.seconds, p.nanos)))
    except Exception as e:
        chk.fail("duration-json-rejected-by-reference", inp, "%s: %r" % (js, e))
    try:
        if C().from_dict({"d": js}).d != td:
            chk.fail("duration-json-roundtrip", inp, js)
        if C().from_dict({"d": want.ToJsonString()}).d != td:
            chk.fail("duration-reference-json-misread", inp, want.ToJsonString())
    except Exception as e:
        chk.fail("duration-json-parse-raises", inp, "%s: %r" % (js, e))
    if us % 7 == 0:
        placements(chk, "duration", td, (want.seconds, want.nanos), us, inp)


def run(chk, drv):
    rng = chk.rng
    chk.extra["rule"] = ("microsecond counts: every second boundary ±1 µs / ±1 ms around the epoch, year 1, year 9999, ±10000 years, 2^53 µs, random over the whole range and near zero "
                         "(thorough: all 10^6 fraction values, both signs); Timestamps under random fixed UTC offsets. non-trivial = non-zero value; distinct by (kind, value, offset)")
    dst_fold_stage(chk)
    tvals, dvals = ts_values(chk), dur_values(chk)
    # ---- correspondence: the arithmetic of the four conversion functions + JSON fraction rules
    lines, wants = [], []
    for us in tvals:
        t = _Timestamp.from_datetime(EPOCH + timedelta(microseconds=us))
        lines.append("TSSPLIT %d" % us)
        wants.append("%d %d" % (t.seconds, t.nanos))
        back = (t.to_datetime() - EPOCH) // US
        lines.append("TSJOIN %d %d" % (t.seconds, t.nanos))
        wants.append(str(back))
        js = _Timestamp.timestamp_to_json(EPOCH + timedelta(microseconds=us))
        frac = js[:-1].split(".")[1] if "." in js else None
        lines.append("TSFRAC %d" % (us % 10**6))
        wants.append("-" if frac is None else "%d %d" % (len(frac), int(frac)))
    for us in dvals:
        d = _Duration.from_timedelta(timedelta(microseconds=us))
        lines.append("DURSPLIT %d" % us)
        wants.append("%d %d" % (d.seconds, d.nanos))
        lines.append("DURJOIN %d %d" % (d.seconds, d.nanos))
        wants.append(str(d.to_timedelta() // US))
        js = _Duration.delta_to_json(timedelta(microseconds=us))
        body = js[:-1]
        neg = body.startswith("-")
        whole, _, frac = body.lstrip("-").partition(".")
        lines.append("DURJSON %d" % us)
        wants.append("%d %d %d %d" % (int(neg and us != 0 or (neg and True)), int(whole), len(frac), int(frac or 0)))
        lines.append("DURFROMJSON %d %d %d %d" % (int(neg), int(whole), len(frac), int(frac or 0)))
        wants.append(str(_Duration.delta_from_json(js) // US))
    # foreign nanos (not multiples of 1000) through to_datetime / to_timedelta
    for _ in range(2000):
        s, n = rng.randint(-10**9, 10**9), rng.randint(0, 10**9 - 1)
        lines.append("TSJOIN %d %d" % (s, n))
        wants.append(str((_Timestamp(seconds=s, nanos=n).to_datetime() - EPOCH) // US))
        n2 = rng.randint(-(10**9) + 1, 10**9 - 1)
        lines.append("DURJOIN %d %d" % (s, n2))
        wants.append(str(_Duration(seconds=s, nanos=n2).to_timedelta() // US))
    if drv:
        for ln, r, w in zip(lines, drv.ask(lines), wants):
            if r != w:
                chk.disagree("time arithmetic", ln, r, w)
    # ---- oracle on the implementation, against the reference
    offsets = [0, 60, -300, 330, 765, -720, 840]
    # thorough: the exhaustive fraction sweep (2·10^6 values per kind) goes through the model correspondence above in
    # full; the reference-implementation oracle below, ~100× dearer per value, takes every 16th of them (plus everything else)
    def sampled(vals):
        if chk.tier == "quick":
            return vals
        return [v for v in vals if not (-10**6 <= v < 10**6) or v % 16 == 0 or abs(v) < 2000 or v % 1000 in (0, 1, 999)]
    for us in sampled(tvals):
        if len(chk.oracle_failures) >= 200:
            break           # (the failure list is capped at 200: when everything fails there is nothing more to learn, and the
                            #  per-case work of a failing case — reference parses, placements — made such runs take tens of minutes)
        off = rng.choice(offsets)
        lo = TS_MIN - off * 60 * 10**6
        hi = TS_MAX - off * 60 * 10**6
        if not (max(TS_MIN, lo) <= us <= min(TS_MAX, hi)):
            off = 0
        chk.case("t %d %d" % (us, off), us != 0, {"timestamp_us": us, "utc_offset_min": off})
        chk.count("ts_" + ("epoch" if us == 0 else "pre_epoch" if us < 0 else "post_epoch"))
        chk.count("ts_frac_" + ("none" if us % 10**6 == 0 else "ms" if us % 1000 == 0 else "us"))
        ts_oracle(chk, us, off)
        # one case in sixteen again under an offset with a sub-second part (legal for datetime.timezone)
        if us % 16 == 0 and abs(off) < 1000 and max(TS_MIN, lo) + 2 * 10**6 <= us <= min(TS_MAX, hi) - 2 * 10**6:
            sub = rng.choice([1, 250000, 500000, 999999, -1, -250000])
            chk.count("ts_subsecond_offset")
            ts_oracle(chk, us, off, sub)
    for us in sampled(dvals):
        if len(chk.oracle_failures) >= 200:
            break
        chk.case("d %d" % us, us != 0, {"duration_us": us})
        chk.count("dur_" + ("zero" if us == 0 else "neg" if us < 0 else "pos"))
        dur_oracle(chk, us)


def replay_known(chk, entry):
    w = entry["witness"]
    c = type(chk)(chk.pid, "quick", 0)
    if w["kind"] == "duration":
        dur_oracle(c, w["us"])
    else:
        ts_oracle(c, w["us"], w.get("utc_offset_min", 0), w.get("utc_offset_us", 0))
    return bool(c.oracle_failures)


def classify(failure, known):
    return None


def search(chk):
    saved = chk.tier
    chk.tier = "thorough"
    import time
    # the thorough value sets have 10^6 elements each: the search gets a TIME budget (a changed tree that breaks a proof
    # obligation without any failing input — e.g. another but equally valid text — made it run for tens of minutes)
    budget = 150 if saved == "quick" else 600
    try:
        t0 = time.time()
        for us in ts_values(chk):
            ts_oracle(chk, us, 0)
            if len(chk.oracle_failures) > 5:
                return
            if time.time() - t0 > budget:
                break
        t0 = time.time()
        for us in dur_values(chk):
            dur_oracle(chk, us)
            if len(chk.oracle_failures) > 5:
                return
            if time.time() - t0 > budget:
                break
    finally:
        chk.tier = saved


def replay(chk, rp):
    inp = (rp.get("failure") or {}).get("input") or {}
    if "us" not in inp:
        return True
    c = type(chk)(chk.pid, "quick", 0)
    if inp["kind"] == "duration":
        dur_oracle(c, inp["us"])
    else:
        ts_oracle(c, inp["us"], inp.get("utc_offset_min", 0), inp.get("utc_offset_us", 0))
    return bool(c.oracle_failures)
