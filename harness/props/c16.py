"""C16 — scalar codec primitives: correspondence of the model's varint / zig-zag /
fixed-width functions with betterproto's, plus direct oracles on the implementation
(canonical form, inverse, size, rejection, byte identity with the reference encoder)."""
import io
import itertools

import betterproto
import bpgen
from common import is_err


def ints(chk):
    rng = chk.rng
    quick = chk.tier == "quick"
    out = set(range(-(1 << 12), 1 << (16 if quick else 21)))
    for k in range(0, 11):
        c = 1 << (7 * k)
        out.update(range(c - 66, c + 66))
    for c in (1 << 31, 1 << 32, 1 << 63, 1 << 64, -(1 << 31), -(1 << 32), -(1 << 63), -(1 << 64), 1 << 70):
        out.update(range(c - 66, c + 66))
    for _ in range(50000 if quick else 2000000):
        out.add(rng.getrandbits(64) - (1 << 63 if rng.random() < 0.5 else 0))
    for _ in range(2000):
        out.add(rng.getrandbits(rng.randint(1, 80)) * rng.choice([1, -1]))
    return sorted(out)


def impl(fn, *a):
    try:
        return fn(*a)
    except Exception as e:  # noqa
        return e


def py_canonical(bs, v):
    """independent statement of 'canonical minimal base-128 little-endian'"""
    if not bs or any(b < 128 for b in bs[:-1]) or bs[-1] >= 128:
        return False
    if len(bs) > 1 and bs[-1] == 0:
        return False
    val = sum((b & 0x7f) << (7 * i) for i, b in enumerate(bs))
    return val == v % (1 << 64) and len(bs) <= 10


def byte_strings(chk):
    rng = chk.rng
    quick = chk.tier == "quick"
    out = [b""]
    maxlen = 2 if quick else 3
    for n in range(1, maxlen + 1):
        if n <= 2:
            out += [bytes(t) for t in itertools.product(range(256), repeat=n)]
        else:
            vals = [0, 1, 0x7f, 0x80, 0x81, 0xff, 0x40]
            out += [bytes(t) for t in itertools.product(vals, repeat=n)]
            out += [bytes(rng.getrandbits(8) for _ in range(3)) for _ in range(200000)]
    for _ in range(50000 if quick else 400000):
        n = rng.randint(1, 12)
        k = rng.randint(0, n)
        bs = [rng.choice([0x80, 0x81, 0xff, 0x80 | rng.getrandbits(7)]) for _ in range(k)]
        bs += [rng.getrandbits(8) for _ in range(n - k)]
        out.append(bytes(bs))
    return out


def run(chk, drv):
    from google.protobuf.internal import encoder as ref_encoder
    chk.extra["rule"] = ("integers: all |v| < 2^12..2^16/2^21, ±66 around every 2^(7k), 2^31, 2^32, 2^63, 2^64, 2^70, random 64-bit "
                         "and random 1..80-bit; byte strings: all of length ≤ 2 (thorough: structured ≤ 3), structured ≤ 12; "
                         "scalar kinds × boundary/random values vs reference. non-trivial = value ≠ 0 / byte string non-empty; distinct by input line")
    vs = ints(chk)
    # ---------------- the very first encodings of the process: an in-range k, then k - 2^64 (same low 64 bits, below the
    # range) — rejection must not depend on what was encoded before (memo tables are typically filled first-come)
    for k in [0, 1, 2, 3, 5, 127, 128, 129, 300, 16383, 16384, 1 << 31, (1 << 32) - 1, 1 << 32, 1 << 62, (1 << 63) - 1] + \
             [chk.rng.randrange(1 << 63) for _ in range(200)]:
        first = impl(betterproto.encode_varint, k)
        enc = impl(betterproto.encode_varint, k - (1 << 64))
        size = impl(betterproto.size_varint, k - (1 << 64))
        chk.count("below_range_right_after_its_twin")
        if isinstance(first, Exception) or not isinstance(enc, Exception) or not isinstance(size, Exception):
            chk.fail("below-range-not-rejected", k - (1 << 64), "right after encoding %d: encode=%r size=%r" % (k, enc, size))
    # ---------------- encode / size: model vs implementation + oracles on the implementation
    lines = []
    for v in vs:
        lines.append("ENCV %d" % v)
        lines.append("SIZEV %d" % v)
    replies = drv.ask(lines) if drv else None
    for idx, v in enumerate(vs):
        enc = impl(betterproto.encode_varint, v)
        size = impl(betterproto.size_varint, v)
        chk.case("int %d" % v, v != 0, {"encode_varint": v, "bytes": enc.hex() if isinstance(enc, bytes) else "raises"})
        cls = "neg" if v < 0 else ("zero" if v == 0 else ("small" if v < 1 << 32 else "big"))
        chk.count("int_" + cls)
        if replies:
            m_enc, m_size = replies[2 * idx], replies[2 * idx + 1]
            i_enc = "ERR" if isinstance(enc, Exception) else (enc.hex() or "-")
            i_size = "ERR" if isinstance(size, Exception) else str(size)
            if (m_enc[:3] == "ERR") != (i_enc == "ERR") or (i_enc != "ERR" and m_enc != i_enc):
                chk.disagree("encode_varint", v, m_enc, i_enc)
            if (m_size[:3] == "ERR") != (i_size == "ERR") or (i_size != "ERR" and m_size != i_size):
                chk.disagree("size_varint", v, m_size, i_size)
        # oracles (the property itself, on the implementation)
        if v < -(1 << 63):
            if not isinstance(enc, Exception) or not isinstance(size, Exception):
                chk.fail("below-range-not-rejected", v, "encode=%r size=%r" % (enc, size))
            continue
        if isinstance(enc, Exception) or isinstance(size, Exception):
            chk.fail("encode-raises", v, repr(enc))
            continue
        if size != len(enc):
            chk.fail("size-mismatch", v, "size_varint=%d len=%d" % (size, len(enc)))
        if v < (1 << 64):
            if not py_canonical(enc, v):
                chk.fail("not-canonical", v, enc.hex())
            if v < 0 and len(enc) != 10:
                chk.fail("negative-not-10-bytes", v, enc.hex())
            if enc != ref_encoder._VarintBytes(v % (1 << 64)):
                chk.fail("differs-from-reference", v, enc.hex())
            dec = impl(betterproto.decode_varint, b"\x55" + enc + b"\x80\x01", 1)
            if dec != (v % (1 << 64), 1 + len(enc)):
                chk.fail("decode-not-inverse", v, repr(dec))
            lv = impl(betterproto.load_varint, io.BytesIO(enc + b"\xff"))
            if lv != (v % (1 << 64), enc):
                chk.fail("load-not-inverse", v, repr(lv))
            st = io.BytesIO()
            betterproto.dump_varint(v, st)
            if st.getvalue() != enc:
                chk.fail("dump-differs-from-encode", v, st.getvalue().hex())
    # ---------------- rejection below -2^63 must not depend on what was encoded before: every in-range k above has now
    # been through the encoder; k - 2^64 (same low 64 bits, below the range) must still be rejected, and so must the
    # same value in an int64 message field
    again = [v - (1 << 64) for v in vs if 0 <= v < (1 << 63)]
    again = again[:400] + chk.rng.sample(again, min(len(again), 600))
    for v in again:
        enc = impl(betterproto.encode_varint, v)
        size = impl(betterproto.size_varint, v)
        chk.count("below_range_after_history")
        if not isinstance(enc, Exception) or not isinstance(size, Exception):
            chk.fail("below-range-not-rejected", v, "after encoding %d: encode=%r size=%r" % (v + (1 << 64), enc, size))
    # ---------------- decoder on arbitrary byte strings
    bss = byte_strings(chk)
    replies = drv.ask(["LOADV %s" % (b.hex() or "-") for b in bss]) if drv else None
    for idx, b in enumerate(bss):
        r = impl(betterproto.load_varint, io.BytesIO(b))
        chk.case("bytes " + b.hex(), len(b) > 0, {"load_varint": b.hex(), "result": repr(r)})
        kind = "ok" if not isinstance(r, Exception) else type(r).__name__
        chk.count("decode_" + kind)
        if replies:
            m = replies[idx]
            i = "ERR" if isinstance(r, Exception) else "%d %d" % (r[0], len(r[1]))
            if (m[:3] == "ERR") != (i == "ERR") or (i != "ERR" and m != i):
                chk.disagree("load_varint", b.hex(), m, i)
            elif i == "ERR":
                # the kind of failure is part of the property (premature end vs too long)
                want = "eof" if isinstance(r, EOFError) else "value"
                if not m.endswith(want):
                    chk.disagree("load_varint error kind", b.hex(), m, type(r).__name__)
        # oracle: classification demanded by the property
        cont = 0
        while cont < len(b) and b[cont] >= 128:
            cont += 1
        if cont >= 10:
            if not isinstance(r, ValueError):
                chk.fail("long-varint-not-rejected", b.hex(), repr(r))
        elif cont == len(b):
            if not isinstance(r, EOFError):
                chk.fail("premature-end-not-signalled", b.hex(), repr(r))
        else:
            want = sum((x & 0x7f) << (7 * j) for j, x in enumerate(b[:cont + 1])) % (1 << 64)
            if isinstance(r, Exception) or r != (want, b[:cont + 1]):
                chk.fail("decode-wrong", b.hex(), repr(r))
    # ---------------- load_varint(stream, first): the caller has already taken the first byte (load_fields does) — the
    # result, the raw bytes and what is left in the stream must be those of reading everything from the stream
    for b in bss:
        if not b:
            continue
        whole, s1 = io.BytesIO(b + b"\x2a\x2b"), io.BytesIO(b[1:] + b"\x2a\x2b")
        r0 = impl(betterproto.load_varint, whole)
        r1 = impl(betterproto.load_varint, s1, b[:1])
        chk.count("load_varint_with_first_byte")
        same = (type(r0) is type(r1)) if isinstance(r0, Exception) or isinstance(r1, Exception) else (r0 == r1 and whole.read() == s1.read())
        if not same:
            chk.fail("load_varint-first-byte-differs", b.hex(), "reading all from the stream: %r; with first=%r taken by the caller: %r" % (r0, b[:1], r1))
    # ---------------- load_varint on BUFFERED readers (what open(path, "rb") / a socket file give: peek() exists, a read
    # may be split over refills): the varint starts `off` bytes into a reader with a tiny buffer, so that it straddles a
    # refill boundary somewhere; result, raw bytes and the rest of the stream must be those of a plain BytesIO
    multi = [b for b in bss if len(b) >= 2]
    for b in (multi if len(multi) <= 4000 else chk.rng.sample(multi, 4000)):
        bs, off = chk.rng.choice([1, 2, 3, 5, 8, 16]), chk.rng.randint(0, 17)
        f = buffered_differs(b, bs, off)
        chk.count("load_varint_buffered_reader")
        if f:
            chk.fail("load_varint-buffered-differs", {"bytes": b.hex(), "buffer_size": bs, "offset": off}, f)
    # ---------------- decode_varint(buffer, pos) on the same arbitrary byte strings, at an offset
    sample = bss if len(bss) < 120000 else bss[:66000] + chk.rng.sample(bss[66000:], 50000)
    pre = b"\x7f\x80"
    replies = drv.ask(["DECV %s %d" % ((pre + b).hex(), len(pre)) for b in sample]) if drv else None
    for idx, b in enumerate(sample):
        r = impl(betterproto.decode_varint, pre + b, len(pre))
        l = impl(betterproto.load_varint, io.BytesIO(b))
        chk.count("decode_varint_" + ("ok" if not isinstance(r, Exception) else type(r).__name__))
        # the two decoders must classify every input alike (value, consumed count, kind of rejection)
        same = (type(r) is type(l)) if isinstance(r, Exception) or isinstance(l, Exception) else r == (l[0], len(pre) + len(l[1]))
        if not same:
            chk.fail("decode_varint-differs-from-load_varint", b.hex(), "%r vs %r" % (r, l))
        if replies:
            m = replies[idx]
            i = "ERR" if isinstance(r, Exception) else "%d %d" % r
            if (m[:3] == "ERR") != (i == "ERR") or (i != "ERR" and m != i):
                chk.disagree("decode_varint", b.hex(), m, i)
    # ---------------- zig-zag, sign recovery (model vs implementation through one-field messages)
    scalar_messages(chk, drv)


def scalar_messages(chk, drv):
    """every scalar kind in a one-field message: bytes vs the reference encoder and vs the model"""
    rng = chk.rng
    kinds = bpgen.SCALAR_T
    # `v`: implicit presence (the default is not written); `o`: proto3 optional, so that EVERY value is
    # written when set — zero, the empty string and both signed zeros included
    schema = [bpgen.M("S%d" % i, [bpgen.F("v", rng.choice([1, 15, 16, 2047, 2048, 536870910]), t),
                                  bpgen.F("o", 536870911 if i % 2 else 3, t, optional=True)]) for i, t in enumerate(kinds)]
    classes = bpgen.build_bp(schema)
    refs = bpgen.build_ref(schema)
    if drv:
        assert drv.ask1(bpgen.schema_line("c16", schema)) == "ok"
    n = 300 if chk.tier == "quick" else 5000
    lines, cases = [], []
    for ci, t in enumerate(kinds):
        vals = [bpgen.gen_scalar(rng, t) for _ in range(n)]
        if t == "float":
            vals += [("f32", 0), ("f32", 0x80000000), ("f32", 0), ("f32", 0x7fc00000), ("f32", 0x7f800000), ("f32", 0xff800000)]
        if t == "double":
            vals += [("f64", 0), ("f64", 1 << 63), ("f64", 0), ("f64", 0x7ff8000000000000), ("f64", 0x7ff0000000000000), ("f64", 0xfff0000000000000)]
        for v in vals:
            cases.append((ci, t, v))
            lines.append("DUMP c16 c %d 1 0 %s" % (ci, bpgen.term(v)))
            lines.append("DUMP c16 c %d 1 1 %s" % (ci, bpgen.term(v)))
    replies = drv.ask(lines) if drv else None
    for idx, (ci, t, v) in enumerate(cases):
        pv = bpgen.to_py(v, classes, t)
        m = classes[ci](v=pv)
        b = bytes(m)
        chk.case(lines[2 * idx], True, {"scalar": t, "value": bpgen.term(v), "bytes": b.hex()})
        chk.count("scalar_" + t)
        r = refs[ci]()
        if t == "enum":
            r.v = int(pv)
        else:
            r.v = pv
        rb = r.SerializeToString()
        if b != rb:
            # -0.0 is a value the reference emits and betterproto treats as default (D25, a note)
            if t in ("float", "double") and pv == 0:
                chk.count("negzero_note")
            else:
                chk.fail("scalar-bytes-differ-from-reference", {"type": t, "value": bpgen.term(v)}, "%s vs %s" % (b.hex(), rb.hex()))
        back = classes[ci]().parse(b)
        if bpgen.obs_scalar(t, back.v) != bpgen.obs_scalar(t, pv) and not (t in ("float", "double") and pv == 0):
            chk.fail("scalar-roundtrip", {"type": t, "value": bpgen.term(v)}, bpgen.obs_scalar(t, back.v))
        if replies and replies[2 * idx] != (b.hex() or "-"):
            chk.disagree("scalar dump", lines[2 * idx], replies[2 * idx], b.hex())
        # the same value in the explicit-presence field: always written, byte-identical to the reference — no exception for zeros
        mo = classes[ci](o=pv)
        bo = bytes(mo)
        ro = refs[ci]()
        ro.o = int(pv) if t == "enum" else pv
        rbo = ro.SerializeToString()
        if bo != rbo and not (t in ("float", "double") and pv != pv):      # NaN payloads: struct.pack keeps them, compare below through the model
            chk.fail("scalar-bytes-differ-from-reference", {"type": t, "value": bpgen.term(v), "field": "optional"}, "%s vs %s" % (bo.hex(), rbo.hex()))
        if replies and replies[2 * idx + 1] != (bo.hex() or "-"):
            chk.disagree("scalar dump (optional field)", lines[2 * idx + 1], replies[2 * idx + 1], bo.hex())


def buffered_differs(b, bs, off):
    """None, or how load_varint on io.BufferedReader(buffer_size=bs), `off` bytes in, differs from a plain BytesIO"""
    tail = b"\x2a\x2b"
    plain = io.BytesIO(b + tail)
    r0 = impl(betterproto.load_varint, plain)
    buf = io.BufferedReader(io.BytesIO(b"\x01" * off + b + tail), buffer_size=bs)
    buf.read(off)
    r1 = impl(betterproto.load_varint, buf)
    if isinstance(r0, Exception) or isinstance(r1, Exception):
        return None if type(r0) is type(r1) else "BytesIO: %r; BufferedReader: %r" % (r0, r1)
    if r0 != r1 or plain.read() != buf.read():
        return "BytesIO: %r; BufferedReader: %r" % (r0, r1)
    return None


def classify(failure, known):
    return None


def search(chk):
    # the oracles above already ran on the whole input set; escalate the random part
    pass


def replay(chk, rp):
    fl = rp.get("failure") or {}
    inp = fl.get("input")
    kind = fl.get("kind", "")
    if isinstance(inp, int):
        c = type(chk)(chk.pid, "quick", 0)
        enc = impl(betterproto.encode_varint, inp)
        size = impl(betterproto.size_varint, inp)
        if inp < -(1 << 63):
            return not (isinstance(enc, Exception) and isinstance(size, Exception))
        if isinstance(enc, Exception) or isinstance(size, Exception):
            return True
        return not (size == len(enc) and (inp >= 1 << 64 or (py_canonical(enc, inp)
                    and impl(betterproto.decode_varint, enc, 0) == (inp % (1 << 64), len(enc)))))
    if kind == "load_varint-buffered-differs" and isinstance(inp, dict):
        return bool(buffered_differs(bytes.fromhex(inp["bytes"]), inp["buffer_size"], inp["offset"]))
    if kind == "load_varint-first-byte-differs" and isinstance(inp, str) and inp:
        b = bytes.fromhex(inp)
        whole, s1 = io.BytesIO(b + b"\x2a\x2b"), io.BytesIO(b[1:] + b"\x2a\x2b")
        r0 = impl(betterproto.load_varint, whole)
        r1 = impl(betterproto.load_varint, s1, b[:1])
        if isinstance(r0, Exception) or isinstance(r1, Exception):
            return type(r0) is not type(r1)
        return not (r0 == r1 and whole.read() == s1.read())
    if isinstance(inp, str) and "varint" in kind or kind in ("decode-wrong", "premature-end-not-signalled", "long-varint-not-rejected"):
        b = bytes.fromhex(inp)
        r = impl(betterproto.load_varint, io.BytesIO(b))
        cont = 0
        while cont < len(b) and b[cont] >= 128:
            cont += 1
        if cont >= 10:
            return not isinstance(r, ValueError)
        if cont == len(b):
            return not isinstance(r, EOFError)
        want = sum((x & 0x7f) << (7 * j) for j, x in enumerate(b[:cont + 1])) % (1 << 64)
        return isinstance(r, Exception) or r != (want, b[:cont + 1])
    return True
