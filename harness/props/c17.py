"""C17 — malformed or truncated input is rejected or isolated, never mis-decoded."""
import dataclasses
from datetime import datetime, timedelta

import betterproto
import bpgen
import wirecases as W
import wiresplit as WS
from common import is_err
from props.c09 import schema_from_desc


def type_ok_scalar(ty, v):
    if ty == "bool":
        return isinstance(v, bool)
    if ty in ("float", "double"):
        return isinstance(v, float)
    if ty == "string":
        return isinstance(v, str)
    if ty == "bytes":
        return isinstance(v, bytes)
    if ty == "enum":
        return isinstance(v, betterproto.Enum)
    # the property demands the declared Python *type* (and that the message re-encodes, checked
    # separately); a uint32 varint carrying more than 32 bits stays an int (false alarm of
    # an earlier version of this oracle, which also demanded the proto range)
    return isinstance(v, int) and not isinstance(v, bool)


def type_ok_kind(kind, v, schema, classes):
    if kind == "ts":
        return isinstance(v, datetime)
    if kind == "dur":
        return isinstance(v, timedelta)
    ci = int(kind[1:])
    return isinstance(v, classes[ci]) and typed_ok(v, schema, classes, ci) is None


def typed_ok(m, schema, classes, ci):
    """None if every field holds a value of its declared Python type, else a description"""
    for f in schema[ci].fields:
        if (f.ty == "message" and not f.wraps and f.kind.startswith("u") and not f.repeated and not f.optional
                and not m.is_set(f.name)):
            continue      # never set: reading it would materialise a fresh default (recursive types)
        try:
            v = getattr(m, f.name)
        except AttributeError:
            continue
        if f.ty == "map":
            if not isinstance(v, dict):
                return "%s: not a dict: %r" % (f.name, v)
            for k, x in v.items():
                if not type_ok_scalar(f.mapK, k):
                    return "%s: key %r" % (f.name, k)
                ok = type_ok_kind(f.mapVKind, x, schema, classes) if f.mapV == "message" else type_ok_scalar(f.mapV, x)
                if not ok:
                    return "%s: value %r" % (f.name, x)
            continue

        def one(x):
            if f.ty == "message":
                if f.wraps:
                    return x is None or type_ok_scalar(f.wraps, x)
                return type_ok_kind(f.kind, x, schema, classes)
            return type_ok_scalar(f.ty, x)
        if f.repeated:
            if not isinstance(v, list) or not all(one(x) for x in v):
                return "%s: %r" % (f.name, v)
        elif v is None:
            if not (f.optional or f.wraps):
                return "%s: None" % f.name
        elif not one(v):
            return "%s: %r" % (f.name, v)
    return None


def decode(cls, data):
    try:
        return cls().parse(data)
    except Exception as e:  # noqa
        return e


def oracle(chk, inp, cls, schema, classes, ci, data, expect=None):
    """expect: None | 'reject' (must raise) """
    r = decode(cls, data)
    if isinstance(r, Exception):
        return r
    if expect == "reject":
        chk.fail("malformed-input-accepted:" + inp.get("mutation", "?"), inp, "decoded to %r" % r)
        return r
    bad = typed_ok(r, schema, classes, ci)
    if bad:
        chk.fail("wrong-typed-field", inp, bad)
        return r
    try:
        bytes(r)
    except Exception as e:
        chk.fail("decoded-message-cannot-be-encoded", inp, repr(e))
    return r


def mutations(rng, data, known_numbers, wire_of, packable=(), msg_numbers=()):
    """yield (name, bytes, expectation)"""
    try:
        recs = WS.split(data)
        bounds = WS.boundaries(data)
    except Exception:
        return
    bset = set(bounds)
    # every truncation point (sampled for long inputs)
    cuts = range(len(data)) if len(data) <= 48 else sorted(rng.sample(range(len(data)), 48))
    for c in cuts:
        yield ("truncate", data[:c], None if c in bset else "reject")
    if not recs:
        return
    # invalid wire type / field number 0 at a record boundary
    for _ in range(3):
        pos = rng.choice(bounds)
        wt = rng.choice([3, 4, 6, 7])
        num = rng.choice([1, 2, 3, 15, 16, 2047])
        yield ("invalid-wire-type", data[:pos] + WS.enc_varint(num << 3 | wt) + data[pos:], "reject")
        yield ("field-number-0", data[:pos] + WS.enc_varint(rng.choice([0, 1, 2, 5])) + b"\x01\x00\x00\x00\x00\x00\x00\x00\x00"[:9] + data[pos:], "reject")
    # a known number with a wire type that does not fit: must be isolated as unknown
    for _ in range(4):
        num = rng.choice(sorted(known_numbers))
        fits = wire_of[num]
        wt = rng.choice([w for w in (0, 1, 2, 5) if w not in fits])
        tag = WS.enc_varint(num << 3 | wt)
        body = {0: WS.enc_varint(rng.getrandbits(rng.choice([1, 7, 32, 64]))), 1: bytes(rng.getrandbits(8) for _ in range(8)),
                5: bytes(rng.getrandbits(8) for _ in range(4)), 2: b"\x03abc"}[wt]
        pos = rng.choice(bounds)
        yield ("mismatch", (data[:pos], tag + body, data[pos:]), "isolate")
    # a cut INSIDE a record the class does not know, or knows under another wire type (such records go to the unknown
    # fields verbatim and never reach struct.unpack / the typed decoders: a shortened one must be rejected by the framing)
    free = [k for k in (2046, 1000, 999, 19, 18, 14, 13, 12, 11, 9, 8, 6) if k not in known_numbers]
    for _ in range(6):
        if rng.random() < 0.5 and free:
            num, wt = rng.choice(free), rng.choice([0, 1, 2, 5])
        else:
            num = rng.choice(sorted(known_numbers))
            wt = rng.choice([w for w in (0, 1, 2, 5) if w not in wire_of[num]])
        body = {0: WS.enc_varint((1 << rng.choice([14, 35, 63])) | rng.getrandbits(7)), 1: bytes(rng.getrandbits(8) for _ in range(8)),
                5: bytes(rng.getrandbits(8) for _ in range(4)), 2: b"\x05abcde"}[wt]
        rec = WS.enc_varint(num << 3 | wt) + body
        pos = rng.choice(bounds)
        cut = rng.randrange(1, len(rec))
        yield ("truncate-inside-unknown", data[:pos] + rec[:cut], "reject")
    # malformed bytes INSIDE the payload of a known message-typed field (sub-message, wrapper, Timestamp / Duration, map
    # entry), after its well-formed content, with the outer length prefix covering them: the nested decoder must reject
    # them exactly as the top level does (a decoder that stops reading the payload early would accept and later drop them)
    nested = [r for r in recs if r[1] == 2 and r[0] in msg_numbers]
    for _ in range(4 if nested else 0):
        r = rng.choice(nested)
        garbage = rng.choice([b"\x08", b"\x0d\x01\x02", b"\x00\x00", b"\x0e", b"\x12\x05ab", b"\x80"])
        newp = r[3] + garbage
        rec = WS.enc_varint(r[0] << 3 | 2) + WS.enc_varint(len(newp)) + newp
        i = data.find(r[2])
        yield ("nested-malformed", data[:i] + rec + data[i + len(r[2]):], "reject")
    # a packed payload that does not consist of whole elements (fixed width: length not a multiple of
    # the width; varint: ends inside an element): decoding it into fewer elements would be a mis-decode
    for num, width in packable:
        pos = rng.choice(bounds)
        tag = WS.enc_varint(num << 3 | 2)
        if width:
            n = rng.choice([k for k in range(1, 3 * width) if k % width])
            payload = bytes(rng.getrandbits(8) for _ in range(n))
        else:
            payload = WS.enc_varint(rng.getrandbits(20)) + bytes([0x80 | rng.getrandbits(7)])
        yield ("packed-partial-element", data[:pos] + tag + WS.enc_varint(len(payload)) + payload + data[pos:], "reject")
    # single-byte corruption anywhere; random strings
    for _ in range(6):
        i = rng.randrange(len(data))
        yield ("corrupt-byte", data[:i] + bytes([data[i] ^ (1 << rng.randrange(8))]) + data[i + 1:], None)
    yield ("random", bytes(rng.getrandbits(8) for _ in range(rng.randint(1, 12))), None)


def observed(chk, inp, m, schema, ci):
    """the observation line compared with the model; a decoded message that cannot even be observed as its declared
    types (a list in an int field …) is an oracle failure, not a harness error"""
    try:
        return bpgen.obs_msg(m, schema, ci) + " | " + W.hexs(bytes(m))
    except Exception as e:  # noqa
        chk.fail("wrong-typed-field", inp, "decoded message cannot be observed as its declared types: %r" % e)
        return "UNOBSERVABLE %r" % e


def twin_repeatedness(chk, drv):
    """decode HISTORY across classes: two classes with a same-numbered field of the same scalar type, singular in one and
    repeated in the other, decoded one after the other in both orders (a fresh field number per order, so that nothing
    an earlier decode may have left behind for that (number, type) is shared between the two orders): the singular
    field must keep a LEN record as unknown, the repeated one must read it as a packed list — whoever decoded first"""
    import struct
    n = 40
    for ty in ("int32", "sint64", "uint64", "bool", "fixed32", "sfixed64", "double", "float", "enum"):
        for order in ("repeated-first", "singular-first"):
            n += 1
            schema = [bpgen.M("M0", [bpgen.F("x", n, ty)]), bpgen.M("M1", [bpgen.F("x", n, ty, repeated=True)])]
            classes = bpgen.build_bp(schema)
            sid = "tw%d" % n
            if drv:
                assert drv.ask1(bpgen.schema_line(sid, schema)) == "ok"
            if ty in ("fixed32", "float"):
                one, payload = struct.pack("<I", 7), struct.pack("<III", 1, 2, 3)
                wt = 5
            elif ty in ("sfixed64", "double"):
                one, payload = struct.pack("<Q", 7), struct.pack("<QQ", 1, 2)
                wt = 1
            else:
                one, payload, wt = b"\x01", b"\x01\x00\x01", 0
            key = lambda w: betterproto.encode_varint(n << 3 | w)
            plain = key(wt) + one
            packed = key(2) + betterproto.encode_varint(len(payload)) + payload
            seq = [(1, packed), (1, plain), (0, packed), (0, plain), (1, packed + plain)]
            if order == "singular-first":
                seq = [(0, plain), (0, packed), (1, packed), (1, plain), (0, plain + packed)]
            lines, wants = [], []
            for ci, data in seq:
                inp = {"schema": [[f.line() for f in m.fields] for m in schema], "cls": ci, "bytes": data.hex(), "mutation": "twin:" + order,
                       "history": [[c, d.hex()] for c, d in seq]}
                chk.count("twin_repeatedness_decodes")
                chk.case("twin %s %s %d %s" % (ty, order, ci, data.hex()), True, {"type": ty, "order": order, "cls": ci})
                r = oracle(chk, inp, classes[ci], schema, classes, ci, data)
                if ci == 0 and data == packed and not isinstance(r, Exception):
                    if not (r == classes[0]()) or packed not in bytes(r):
                        chk.fail("mismatch-alters-known-field", inp, "%r / %s" % (r, bytes(r).hex()))
                if ci == 1 and data == packed and not isinstance(r, Exception) and len(r.x) != (3 if wt != 1 else 2):
                    chk.fail("packed-list-not-decoded", inp, repr(r))
                if drv:
                    lines.append("PARSE %s %d %s" % (sid, ci, W.hexs(data)))
                    if isinstance(r, Exception):
                        wants.append("ERR")
                    else:
                        m3 = classes[ci]().parse(data)      # a fresh decode: the oracle's reads materialise defaults
                        wants.append(observed(chk, inp, m3, schema, ci))
            if drv:
                for ln, rep, want in zip(lines, drv.ask(lines), wants):
                    if (want == "ERR") != is_err(rep) or (want != "ERR" and rep != want):
                        chk.disagree("parse-twin-history", ln, rep, want)


def run(chk, drv):
    quick = chk.tier == "quick"
    rng = chk.rng
    twin_repeatedness(chk, drv)
    chk.extra["rule"] = ("valid encodings of random values × {every truncation point, wire types 3/4/6/7 and field number 0 inserted at a record boundary, "
                         "a known field number with every non-fitting wire type, single-bit corruptions, random strings}. non-trivial = non-empty input; distinct by (schema, bytes)")
    nb = 40 if quick else 400
    for bi in range(nb):
        b = W.Batch(rng, "t%d" % bi, 5)
        W.count_features(chk, b)
        if drv:
            assert drv.ask1(b.schema_line()) == "ok"
        lines, wants = [], []
        for v in b.values:
            ci = v[1]
            cls = b.classes[ci]
            try:
                data = bytes(bpgen.to_py(v, b.classes))
            except Exception:
                continue
            known = {f.num for f in b.schema[ci].fields}
            wire_of = {}
            for f in b.schema[ci].fields:
                w = {0} if f.ty in bpgen.VARINT_T else {5} if f.ty in ("float", "fixed32", "sfixed32") else {1} if f.ty in ("double", "fixed64", "sfixed64") else {2}
                if f.repeated and f.ty not in ("string", "bytes", "message"):
                    w = w | {2}
                wire_of[f.num] = w
            if not known:
                continue
            packable = [(f.num, 4 if f.ty in ("float", "fixed32", "sfixed32") else 8 if f.ty in ("double", "fixed64", "sfixed64") else 0)
                        for f in b.schema[ci].fields if f.repeated and f.ty not in ("string", "bytes", "message")]
            msg_numbers = {f.num for f in b.schema[ci].fields if f.ty in ("message", "map")}
            for name, mdata, expect in mutations(rng, data, known, wire_of, packable, msg_numbers):
                chk.count("mutation_" + name)
                if name == "mismatch":
                    pre, rec, post = mdata
                    full = pre + rec + post
                    inp = {"schema": b.describe(), "cls": ci, "bytes": full.hex(), "mutation": name, "record": rec.hex()}
                    r = oracle(chk, inp, cls, b.schema, b.classes, ci, full)
                    base = decode(cls, pre + post)
                    if isinstance(base, Exception):
                        continue
                    if isinstance(r, Exception):
                        chk.fail("mismatch-not-isolated:raises", inp, repr(r))
                    else:
                        if not (r == base):
                            chk.fail("mismatch-alters-known-field", inp, "%r vs %r" % (r, base))
                        if rec not in bytes(r):
                            chk.fail("mismatch-not-kept-as-unknown", inp, bytes(r).hex())
                    mdata = full
                else:
                    inp = {"schema": b.describe(), "cls": ci, "bytes": mdata.hex(), "mutation": name}
                    r = oracle(chk, inp, cls, b.schema, b.classes, ci, mdata, expect)
                chk.case(b.schema_line() + mdata.hex(), len(mdata) > 0, {"mutation": name, "bytes": mdata.hex(),
                                                                      "result": "raises " + type(r).__name__ if isinstance(r, Exception) else "returns"})
                chk.count("result_" + ("raises_" + type(r).__name__ if isinstance(r, Exception) else "returns"))
                if drv:
                    lines.append("PARSE %s %d %s" % (b.sid, ci, W.hexs(mdata)))
                    if isinstance(r, Exception):
                        wants.append("ERR")
                    else:
                        m3 = cls().parse(mdata)
                        wants.append(observed(chk, inp, m3, b.schema, ci))
        if drv and lines:
            for ln, rep, want in zip(lines, drv.ask(lines), wants):
                if (want == "ERR") != is_err(rep) or (want != "ERR" and rep != want):
                    chk.disagree("parse-malformed", ln, rep, want)


def _wit(kind):
    schema = [bpgen.M("M0", [bpgen.F("i", 2, "int32"), bpgen.F("b", 5, "bytes"), bpgen.F("u", 7, "uint64")])]
    C, = bpgen.build_bp(schema)
    data = {"truncated-payload": bytes([0x2a, 0x05, 0x68, 0x65]), "field0": bytes([0x00, 0x01]), "group": bytes([0x13, 0x10, 0x05, 0x14]),
            "tag-cut": bytes([0x10, 0x05, 0x80]), "list-in-int32": bytes([0x12, 0x02, 0x01, 0x02]), "int-in-bytes": bytes([0x28, 0x07]),
            "varint70": bytes([0x38] + [0xff] * 9 + [0x7f])}[kind]
    r = decode(C, data)
    if kind in ("truncated-payload", "field0", "group", "tag-cut"):
        return not isinstance(r, Exception)
    if isinstance(r, Exception):
        return True
    return typed_ok(r, schema, [C], 0) is not None


def replay_known(chk, entry):
    return _wit(entry["witness"]["kind"])


def classify(failure, known):
    return None


def search(chk):
    saved = chk.tier
    chk.tier = "thorough"
    try:
        run(chk, None)
    finally:
        chk.tier = saved


def replay(chk, rp):
    inp = (rp.get("failure") or {}).get("input") or {}
    if "bytes" in inp and "schema" in inp:
        schema = schema_from_desc(inp["schema"])
        classes = bpgen.build_bp(schema)
        ci = inp["cls"]
        c = type(chk)(chk.pid, "quick", 0)
        kind = (rp.get("failure") or {}).get("kind", "")
        expect = "reject" if kind.startswith("malformed-input-accepted") else None
        if "history" in inp:
            # the decodes that came before, in order, on the freshly built classes (a fresh pair of classes has fresh metadata
            # objects; state keyed by their VALUE, as in seed C17-c, is shared all the same)
            for hc, hd in inp["history"]:
                r = decode(classes[hc], bytes.fromhex(hd))
                if not isinstance(r, Exception):
                    bad = typed_ok(r, schema, classes, hc)
                    try:
                        if not bad:
                            observed(c, inp, r, schema, hc)
                    except Exception:
                        pass
                    if bad or c.oracle_failures:
                        return True
                if hc == 0 and not isinstance(r, Exception) and len(hd) > 6 and not (r == classes[0]()):
                    return True
            return False
        r = oracle(c, inp, classes[ci], schema, classes, ci, bytes.fromhex(inp["bytes"]), expect)
        if kind.startswith("mismatch") and not isinstance(r, Exception):
            rec = bytes.fromhex(inp["record"])
            return rec not in bytes(r)
        return bool(c.oracle_failures)
    return True
