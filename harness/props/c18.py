"""C18 — every supported plugin option yields importable, behaviourally identical code.

ORACLE (real code only): generated schemas (services of every streaming cardinality, oneofs,
proto3 optionals, maps, enums with negative numbers, wrappers, Timestamp/Duration, nested and
cross-package types) are compiled under the 3 typing options x {standard, pydantic}; every
variant must generate, import, define the same classes with the same field numbers / proto
types / groups / wraps / map types / resolved type shapes / enum values as the default
configuration, and for identical field values give identical bytes() and to_json().

CORRESPONDENCE (model vs code): the three typing compilers' seven methods on generated
argument strings; for every generated module the model's predicted text of every field
line and of every service annotation site is diffed against the generated source (parsed
with `ast`); `denote` vs an independent Python reading of the annotation; `wellQuoted` vs
Python's parser on the site texts of the current and the pre-D07 template."""
import ast
import builtins
import concurrent.futures
import dataclasses
import datetime
import json
import keyword
import re
import struct
import sys

import betterproto
import pluginrun

OPTION_SETS = [
    ("direct", ()),
    ("root", ("typing.root",)),
    ("310", ("typing.310",)),
    ("direct+pydantic", ("pydantic_dataclasses",)),
    ("root+pydantic", ("typing.root", "pydantic_dataclasses")),
    ("310+pydantic", ("typing.310", "pydantic_dataclasses")),
]
OPTS = dict(OPTION_SETS)

SCALARS = ["double", "float", "int32", "int64", "uint32", "uint64", "sint32", "sint64", "fixed32", "fixed64",
           "sfixed32", "sfixed64", "bool", "string", "bytes"]
MAP_KEYS = ["int32", "int64", "uint32", "uint64", "sint32", "sint64", "fixed32", "fixed64", "sfixed32", "sfixed64",
            "bool", "string"]
WRAPPERS = {"DoubleValue": "double", "FloatValue": "float", "Int32Value": "int32", "Int64Value": "int64",
            "UInt32Value": "uint32", "UInt64Value": "uint64", "BoolValue": "bool", "StringValue": "string",
            "BytesValue": "bytes"}
PY_OF = {"double": "float", "float": "float", "bool": "bool", "string": "str", "bytes": "bytes"}


def hx(s):
    return s.encode("ascii").hex() or "-"


def unhx(s):
    return "" if s == "-" else bytes.fromhex(s).decode("ascii")


# ------------------------------------------------------------------ schema generation

ABSENT = [{"oneof"}, {"optional"}, {"oneof", "repeated", "map"}, {"map"}, {"repeated"}, {"oneof", "optional"}, {"oneof", "map"},
          {"optional", "repeated", "map"}, {"oneof", "repeated"}, {"repeated", "map"}, {"oneof", "optional", "repeated", "map"},
          {"optional", "map"}, {"optional", "repeated"}, {"oneof", "optional", "map"}, {"oneof", "optional", "repeated"}]


def gen_schema(rng, idx, force_service=True):
    """returns dict(protos={name: text}, pkg=..., other_pkg=..., messages=[...], enums=[...], service=...)"""
    pkg = rng.choice(["c18gen", "c18gen.v1", "alpha.beta.gamma", "x"])
    other = rng.choice(["c18other", pkg + ".sub", "alpha.zeta" if not pkg.startswith("alpha") else "alpha.beta", "shared.lib"])
    if other == pkg:
        other = "c18other"
    # the other package also defines types with the SAME NAMES as the main package (Color, Msg1) and uses them in
    # repeated / optional / map positions: `List["Color"]` is then the same annotation text in two generated modules
    # that are imported into one process, and must still denote each module's own class
    other_proto = ['syntax = "proto3";', "package %s;" % other,
                   "enum Mode { MODE_UNSPECIFIED = 0; MODE_NEG = -2; MODE_ON = 1; }",
                   "enum Color { COLOR_ZERO = 0; COLOR_OTHER_A = 1; COLOR_OTHER_B = 2; COLOR_OTHER_C = 5; COLOR_OTHER_D = -1; COLOR_OTHER_E = -7; }",
                   "message Msg1 { string other_only = 1; }",
                   "message Shared { int32 x = 1; string s = 2; Mode mode = 3; repeated Color colors = 4; optional Msg1 twin = 5; "
                   "map<string, Color> cmap = 6; repeated Msg1 twins = 7; }"]
    enums = []
    for ei in range(rng.randint(1, 2)):
        name = ["Color", "Kind"][ei]
        pre = name.upper() + "_"
        vals = [(pre + "ZERO", 0)]
        used = {0}
        for k in range(rng.randint(1, 4)):
            v = rng.choice([-1, -7, -2147483648, 1, 2, 5, 2147483647, rng.randint(-1000, 1000)])
            if v in used:
                continue
            used.add(v)
            vals.append((pre + "V%d" % k, v))
        if not any(v < 0 for _, v in vals):
            vals.append((pre + "NEG", -3))
        enums.append({"name": name, "values": vals, "ref": name, "pkg": pkg})
    nmsg = rng.randint(2, 4)
    msgs = [{"name": "Msg%d" % i, "fields": [], "oneofs": [], "nested": None} for i in range(nmsg)]
    # one nested message + nested enum inside Msg0
    msgs[0]["nested"] = {"msg": "Inner", "enum": "Level"}
    type_pool = []   # (kind, proto type text)
    for m in msgs:
        type_pool.append(("msg", m["name"]))
    type_pool += [("msg", "Msg0.Inner"), ("msg", other + ".Shared"), ("ts", "google.protobuf.Timestamp"),
                  ("dur", "google.protobuf.Duration")]
    enum_pool = [("enum", e["name"]) for e in enums] + [("enum", "Msg0.Level"), ("enum", other + ".Mode")]

    def pick_type(allow_wrapper=True):
        r = rng.random()
        if r < 0.45:
            return ("scalar", rng.choice(SCALARS))
        if r < 0.6:
            return rng.choice(enum_pool)
        if r < 0.85 or not allow_wrapper:
            return rng.choice(type_pool)
        w = rng.choice(sorted(WRAPPERS))
        return ("wrap", "google.protobuf." + w)

    # features that are ABSENT from the whole package (imports and helper definitions of the generated module are gated on
    # "some message of the package uses X": a package with proto3-optional fields but no oneof at all, with no repeated
    # field, no map … must import just as well).
    absent = ABSENT[(idx // 2) % len(ABSENT)] if idx % 2 else set()      # every other schema, in a fixed order
    shapes = [x for x in ["plain", "plain", "repeated", "optional", "map"] if x not in absent]
    for mi, m in enumerate(msgs):
        num = 0
        nf = rng.randint(2, 7)
        for fi in range(nf):
            num += rng.choice([1, 1, 2, 14, 1000]) if fi else rng.choice([1, 1, 3, 16])
            shape = rng.choice(shapes)
            name = "f%d" % fi
            if shape == "map":
                vk = pick_type(allow_wrapper=False)
                if vk[0] in ("ts", "dur") and rng.random() < 0.5:
                    vk = ("scalar", "string")
                m["fields"].append({"name": name + "_map", "num": num, "shape": "map", "key": rng.choice(MAP_KEYS), "type": vk})
            else:
                t = pick_type(allow_wrapper=shape != "repeated" or rng.random() < 0.3)
                m["fields"].append({"name": "%s_%s" % (name, shape[:3]), "num": num, "shape": shape, "type": t})
        for gi in range(0 if "oneof" in absent else rng.choice([0, 1, 1, 2])):
            members = []
            for k in range(rng.randint(1, 3)):
                num += rng.choice([1, 2, 5])
                members.append({"name": "g%d_m%d" % (gi, k), "num": num, "shape": "oneof", "group": "grp%d" % gi,
                                "type": pick_type()})
            m["oneofs"].append({"name": "grp%d" % gi, "members": members})
    lines = ['syntax = "proto3";', "package %s;" % pkg, 'import "other.proto";',
             'import "google/protobuf/timestamp.proto";', 'import "google/protobuf/duration.proto";',
             'import "google/protobuf/wrappers.proto";', 'import "google/protobuf/empty.proto";']
    for e in enums:
        lines.append("enum %s { %s }" % (e["name"], " ".join("%s = %d;" % nv for nv in e["values"])))

    def ftext(f):
        t = f["type"][1]
        if f["shape"] == "map":
            return "map<%s, %s> %s = %d;" % (f["key"], t, f["name"], f["num"])
        pre = {"plain": "", "repeated": "repeated ", "optional": "optional ", "oneof": ""}[f["shape"]]
        return "%s%s %s = %d;" % (pre, t, f["name"], f["num"])

    for m in msgs:
        lines.append("message %s {" % m["name"])
        if m["nested"]:
            lines.append("  message Inner { sint64 v = 1; string note = 2; }")
            lines.append("  enum Level { LEVEL_NONE = 0; LEVEL_LOW = -1; LEVEL_HIGH = 9; }")
        for f in m["fields"]:
            lines.append("  " + ftext(f))
        for o in m["oneofs"]:
            lines.append("  oneof %s {" % o["name"])
            for f in o["members"]:
                lines.append("    " + ftext(f))
            lines.append("  }")
        lines.append("}")
    service = None
    if force_service or rng.random() < 0.7:
        svc = rng.choice(["Svc", "DataService", "HTTPGateway"])
        rtypes = [m["name"] for m in msgs] + [other + ".Shared", "google.protobuf.Empty", "Msg0.Inner"]
        methods = []
        combos = [(False, False), (False, True), (True, False), (True, True)]
        rng.shuffle(combos)
        for k, (cs, ss) in enumerate(combos + [rng.choice(combos) for _ in range(rng.randint(0, 2))]):
            mname = rng.choice(["Get", "List", "Push", "Chat", "doIt", "HTTPFetch", "Sync2"]) + "%d" % k
            methods.append({"name": mname, "cs": cs, "ss": ss, "in": rng.choice(rtypes), "out": rng.choice(rtypes)})
        lines.append("service %s {" % svc)
        for me in methods:
            lines.append("  rpc %s(%s%s) returns (%s%s);" % (me["name"], "stream " if me["cs"] else "", me["in"],
                                                            "stream " if me["ss"] else "", me["out"]))
        lines.append("}")
        service = {"name": svc, "methods": methods}
    protos = {"main.proto": "\n".join(lines) + "\n", "other.proto": "\n".join(other_proto) + "\n"}
    if rng.random() < 0.4:
        # the same package spread over a second file that needs no typing name at all (it comes LAST in the request)
        protos["ztail.proto"] = 'syntax = "proto3";\npackage %s;\nmessage Tail { int32 z = 1; string note = 2; }\n' % pkg
    return {"protos": protos,
            "pkg": pkg, "other": other, "messages": msgs, "enums": enums, "service": service}


# ------------------------------------------------------------------ values (class independent)

def gen_scalar(rng, t):
    z = rng.random() < 0.15
    if t in ("double", "float"):
        if z:
            return ("f", 0.0)
        v = rng.choice([1.5, -2.25, 1e10, -0.5, 3.0, float(rng.randint(-1000, 1000)) / 8])
        return ("f", struct.unpack("<f", struct.pack("<f", v))[0])
    if t == "bool":
        return ("b", rng.random() < 0.6)
    if t == "string":
        return ("s", "" if z else rng.choice(["a", "héllo", "x y", "ß", "0"]) * rng.randint(1, 3))
    if t == "bytes":
        return ("y", (b"" if z else bytes(rng.getrandbits(8) for _ in range(rng.randint(1, 5)))).hex())
    lo, hi = {"int32": (-2**31, 2**31 - 1), "sint32": (-2**31, 2**31 - 1), "sfixed32": (-2**31, 2**31 - 1),
              "int64": (-2**63, 2**63 - 1), "sint64": (-2**63, 2**63 - 1), "sfixed64": (-2**63, 2**63 - 1),
              "uint32": (0, 2**32 - 1), "fixed32": (0, 2**32 - 1), "uint64": (0, 2**64 - 1), "fixed64": (0, 2**64 - 1)}[t]
    if z:
        return ("i", 0)
    return ("i", rng.choice([lo, hi, 1, -1 if lo < 0 else 2, rng.randint(lo, hi), rng.randint(-100, 100) if lo < 0 else rng.randint(0, 100)]))


def gen_value(rng, sch, t, depth):
    kind, name = t
    if kind == "scalar":
        return gen_scalar(rng, name)
    if kind == "enum":
        vals = enum_values(sch, name)
        if rng.random() < 0.2:
            # proto3 enums are open: a number without a member is a legal value under every option set
            return ("e", name, rng.choice([n for n in (7, -7, 123456, -2147483648, 2147483647) if n not in vals]))
        return ("e", name, rng.choice(vals))
    if kind == "wrap":
        return gen_scalar(rng, WRAPPERS[name.split(".")[-1]])
    if kind == "ts":
        return ("t", rng.choice([0, 1, -1, 1700000000123456, rng.randint(-10**15, 10**15)]))
    if kind == "dur":
        return ("d", rng.choice([0, 1, -1, 3600000000, rng.randint(-10**12, 10**12)]))
    return gen_msg_value(rng, sch, name, depth + 1)


def enum_values(sch, name):
    if name == "Msg0.Level":
        return [0, -1, 9]
    if name.endswith(".Mode"):
        return [0, -2, 1]
    for e in sch["enums"]:
        if e["name"] == name:
            return [v for _, v in e["values"]]
    raise KeyError(name)


def gen_msg_value(rng, sch, name, depth=0):
    """('m', type name, {field: value})"""
    if name == "Msg0.Inner":
        return ("m", name, {"v": gen_scalar(rng, "sint64"), "note": gen_scalar(rng, "string")})
    if name.endswith(".Shared"):
        return ("m", name, {"x": gen_scalar(rng, "int32"), "s": gen_scalar(rng, "string"), "mode": ("e", sch["other"] + ".Mode", rng.choice([0, -2, 1]))})
    if name == "google.protobuf.Empty":
        return ("m", name, {})
    m = [x for x in sch["messages"] if x["name"] == name][0]
    out = {}
    if depth > 2:
        return ("m", name, out)
    p = rng.choice([0.0, 0.5, 0.9])
    for f in m["fields"]:
        if rng.random() > p:
            continue
        if f["shape"] == "map":
            d = []
            for _ in range(rng.randint(0, 3)):
                k = gen_scalar(rng, f["key"])
                if any(k == kk for kk, _ in d):
                    continue
                d.append((k, gen_value(rng, sch, f["type"], depth)))
            out[f["name"]] = ("D", d)
        elif f["shape"] == "repeated":
            out[f["name"]] = ("l", [gen_value(rng, sch, f["type"], depth) for _ in range(rng.randint(0, 3))])
        else:
            out[f["name"]] = gen_value(rng, sch, f["type"], depth)
    for o in m["oneofs"]:
        if rng.random() < 0.75:
            f = rng.choice(o["members"])
            out[f["name"]] = gen_value(rng, sch, f["type"], depth)
    return ("m", name, out)


EPOCH = datetime.datetime(1970, 1, 1, tzinfo=datetime.timezone.utc)


class Variant:
    """one generated package: class lookup by proto type name"""

    def __init__(self, label, gen, sch):
        self.label, self.gen, self.sch = label, gen, sch
        self.main = gen.import_module(sch["pkg"])
        self.othermod = gen.import_module(sch["other"])
        self.pydantic = "pydantic" in label
        if self.pydantic:
            import betterproto.lib.pydantic.google.protobuf as gp
        else:
            import betterproto.lib.google.protobuf as gp
        self.gp = gp

    def cls(self, name):
        from betterproto.compile.naming import pythonize_class_name
        if name.startswith("google.protobuf."):
            return getattr(self.gp, name.split(".")[-1])
        if name.startswith(self.sch["other"] + "."):
            return getattr(self.othermod, name[len(self.sch["other"]) + 1:])
        return getattr(self.main, pythonize_class_name(name.replace(".", "")))

    def build(self, v):
        k = v[0]
        if k in ("i", "b", "s", "f"):
            return v[1]
        if k == "y":
            return bytes.fromhex(v[1])
        if k == "e":
            return self.cls(v[1]).try_value(v[2])
        if k == "t":
            return EPOCH + datetime.timedelta(microseconds=v[1])
        if k == "d":
            return datetime.timedelta(microseconds=v[1])
        if k == "l":
            return [self.build(x) for x in v[1]]
        if k == "D":
            return {self.build(a): self.build(b) for a, b in v[1]}
        if k == "m":
            return self.cls(v[1])(**{n: self.build(x) for n, x in v[2].items()})
        raise ValueError(v)


# ------------------------------------------------------------------ metadata of a variant

def shape_of_hint(h):
    """canonical text of a resolved type hint (module names dropped for generated/bundled classes)"""
    import typing
    origin = typing.get_origin(h)
    if origin is typing.Union or str(origin) == "<class 'types.UnionType'>":
        return "or(" + ",".join(sorted(shape_of_hint(a) for a in typing.get_args(h))) + ")"
    if origin in (list, dict):
        return origin.__name__ + "[" + ",".join(shape_of_hint(a) for a in typing.get_args(h)) + "]"
    if h is type(None):
        return "None"
    if isinstance(h, type):
        return h.__name__
    return str(h)


def class_meta(cls):
    out = {}
    hints = cls._type_hints()
    for f in dataclasses.fields(cls):
        m = betterproto.FieldMetadata.get(f)
        out[f.name] = {"number": m.number, "proto_type": m.proto_type, "group": m.group, "wraps": m.wraps,
                       "map_types": list(m.map_types) if m.map_types else None, "optional": bool(m.optional),
                       "hint": shape_of_hint(hints[f.name])}
    return out


def module_meta(mod):
    classes, enums, services = {}, {}, {}
    for name in getattr(mod, "__all__", ()):
        obj = getattr(mod, name)
        if isinstance(obj, type) and issubclass(obj, betterproto.Message):
            classes[name] = class_meta(obj)
        elif isinstance(obj, type) and issubclass(obj, betterproto.Enum):
            enums[name] = {m.name: int(m.value) for m in obj}
        elif isinstance(obj, type):
            services[name] = sorted(n for n, v in vars(obj).items() if callable(v) and not n.startswith("_"))
    return {"classes": classes, "enums": enums, "services": services}


def strip_optional(meta):
    """metadata with the `optional` flag and the `| None` of oneof members removed (what pydantic may add)"""
    out = json.loads(json.dumps(meta))
    for c in out["classes"].values():
        for f in c.values():
            if f["group"] is not None:
                f["optional"] = False
                h = f["hint"]
                if h.startswith("or(") and ",None)" in h or h.startswith("or(None,"):
                    parts = [p for p in split_top(h[3:-1]) if p != "None"]
                    f["hint"] = parts[0] if len(parts) == 1 else "or(" + ",".join(parts) + ")"
    return out


def split_top(s):
    out, depth, cur = [], 0, ""
    for ch in s:
        if ch in "([":
            depth += 1
        elif ch in ")]":
            depth -= 1
        if ch == "," and depth == 0:
            out.append(cur)
            cur = ""
        else:
            cur += ch
    out.append(cur)
    return out


# ------------------------------------------------------------------ python reading of an annotation (independent of the model)

def norm_head(h):
    if h.startswith("typing."):
        h = h[7:]
    return {"List": "list", "Dict": "dict"}.get(h, h)


def py_shape(text):
    """shape string in the driver's format, or 'none' when Python cannot read `text` as an annotation"""
    try:
        node = ast.parse(text, mode="eval").body
        return show(shape_node(node))
    except Exception:  # noqa
        return "none"


def mk_or(a, b):
    if a[0] == "or":
        return ("or", a[1], mk_or(a[2], b))
    return ("or", a, b)


def shape_node(n):
    if isinstance(n, ast.Constant) and isinstance(n.value, str):
        if not n.value:
            raise ValueError("empty forward reference")
        return shape_node(ast.parse(n.value, mode="eval").body)
    if isinstance(n, ast.Constant) and n.value is None:
        return ("nm", "None")
    if isinstance(n, (ast.Name, ast.Attribute)):
        return ("nm", dotted(n))
    if isinstance(n, ast.BinOp) and isinstance(n.op, ast.BitOr):
        return mk_or(shape_node(n.left), shape_node(n.right))
    if isinstance(n, ast.Subscript):
        h = norm_head(dotted(n.value))
        args = n.slice.elts if isinstance(n.slice, ast.Tuple) else [n.slice]
        args = [shape_node(a) for a in args]
        if h == "Optional" and len(args) == 1:
            return mk_or(args[0], ("nm", "None"))
        if h == "Union" and len(args) == 2:
            return mk_or(args[0], args[1])
        if len(args) == 1:
            return ("app", h, args[0])
        if len(args) == 2:
            return ("app", h, args[0], args[1])
    raise ValueError(ast.dump(n))


def dotted(n):
    if isinstance(n, ast.Name):
        return n.id
    if isinstance(n, ast.Attribute):
        return dotted(n.value) + "." + n.attr
    raise ValueError(ast.dump(n))


def show(s):
    if s[0] == "nm":
        return "nm:" + s[1]
    if s[0] == "or":
        return "or(%s,%s)" % (show(s[1]), show(s[2]))
    return "app(" + s[1] + "," + ",".join(show(x) for x in s[2:]) + ")"


def py_wellformed(text):
    """Python reads `text` as an annotation whose forward references are expressions too"""
    try:
        shape_node(ast.parse(text, mode="eval").body)
        compile("x: %s = None" % text, "<ann>", "exec")
        return True
    except Exception:  # noqa
        return False


# ------------------------------------------------------------------ reading generated source

def source_sites(src, svc_py):
    """annotation texts at the template sites of one service: {py method: {site: text}}"""
    tree = ast.parse(src)
    seg = lambda n: ast.get_source_segment(src, n)  # noqa
    out = {}
    for node in tree.body:
        if not isinstance(node, ast.ClassDef) or node.name not in (svc_py + "Stub", svc_py + "Base"):
            continue
        is_stub = node.name.endswith("Stub")
        for fn in node.body:
            if isinstance(fn, ast.AsyncFunctionDef) and fn.name.startswith("__rpc_"):
                out.setdefault(fn.name[6:], {})["rpcStream"] = seg(fn.args.args[1].annotation)
            elif isinstance(fn, ast.AsyncFunctionDef):
                d = out.setdefault(fn.name, {})
                p = fn.args.args[1]
                it = p.arg.endswith("_iterator")
                gen = any(isinstance(x, (ast.Yield, ast.YieldFrom)) for x in ast.walk(fn))
                if is_stub:
                    d["stubIterParam" if it else "stubUnaryParam"] = seg(p.annotation)
                    d["stubReturnStream" if gen else "stubReturnUnary"] = seg(fn.returns)
                    for kw in fn.args.kwonlyargs:
                        d["stub" + kw.arg.capitalize()] = seg(kw.annotation)
                else:
                    d["baseIterParam" if it else "baseUnaryParam"] = seg(p.annotation)
                    d["baseReturnStream" if gen else "baseReturnUnary"] = seg(fn.returns)
            elif isinstance(fn, ast.FunctionDef) and fn.name == "__mapping__":
                out.setdefault("__mapping__", {})["mappingReturn"] = seg(fn.returns)
                ret = [s for s in fn.body if isinstance(s, ast.Return)][0].value
                for k, v in zip(ret.keys, ret.values):
                    nm = seg(v.args[0])[len("self.__rpc_"):]
                    out.setdefault(nm, {})["_in"] = seg(v.args[2])
                    out[nm]["_out"] = seg(v.args[3])
    return out


def source_fields(src):
    """{class: {field: (whole line, annotation text)}} of the message classes of a module"""
    tree = ast.parse(src)
    out = {}
    for node in tree.body:
        if isinstance(node, ast.ClassDef) and any(ast.get_source_segment(src, b) == "betterproto.Message" for b in node.bases):
            d = out.setdefault(node.name, {})
            for st in node.body:
                if isinstance(st, ast.AnnAssign) and isinstance(st.target, ast.Name):
                    d[st.target.id] = (ast.get_source_segment(src, st), ast.get_source_segment(src, st.annotation))
    return out


# ------------------------------------------------------------------ FieldDesc from the descriptor (model input)

def field_descs(sch, descriptor_bytes, pydantic):
    """{(py class, py field): token list for TFIELD} built from protoc's descriptor; names and
    type references come from the naming / importing code (other properties), the rest is C18's model"""
    from google.protobuf import descriptor_pb2
    from betterproto.lib.google.protobuf import FieldDescriptorProtoType
    from betterproto.compile.naming import pythonize_class_name, pythonize_field_name
    from betterproto.compile.importing import get_type_reference
    from betterproto.plugin.typing_compiler import DirectImportTypingCompiler
    from betterproto.plugin.models import is_map  # noqa: F401  (not used: needs compiler objects)
    fds = descriptor_pb2.FileDescriptorSet.FromString(descriptor_bytes)
    out = {}
    for fdp in fds.file:
        if fdp.package != sch["pkg"]:
            continue

        def walk(msg, prefix):
            pyc = pythonize_class_name(prefix + msg.name)
            entries = {n.name: n for n in msg.nested_type if n.options.map_entry}
            for f in msg.field:
                tname = FieldDescriptorProtoType(f.type).name.lower().replace("type_", "")
                rep = f.label == descriptor_pb2.FieldDescriptorProto.LABEL_REPEATED

                def pyt(fld):
                    t = FieldDescriptorProtoType(fld.type).name.lower().replace("type_", "")
                    if t in ("double", "float"):
                        return "s", "float"
                    if t == "bool":
                        return "s", "bool"
                    if t == "string":
                        return "s", "str"
                    if t == "bytes":
                        return "s", "bytes"
                    if t in ("message", "enum"):
                        short = fld.type_name.split(".")[-1]
                        if fld.type_name.startswith(".google.protobuf.") and short in WRAPPERS:
                            return "w", PY_OF.get(WRAPPERS[short], "int")
                        if fld.type_name == ".google.protobuf.Timestamp":
                            return "s", "datetime"
                        if fld.type_name == ".google.protobuf.Duration":
                            return "s", "timedelta"
                        ref = get_type_reference(package=sch["pkg"], imports=set(), source_type=fld.type_name,
                                                 typing_compiler=DirectImportTypingCompiler(), pydantic=pydantic)
                        return "r", ref.strip('"')
                    return "s", "int"
                ename = None
                if rep and f.type_name:
                    short = f.type_name.split(".")[-1]
                    if short in entries and f.type_name.endswith("." + msg.name + "." + short):
                        ename = short
                group = "-"
                if not f.proto3_optional and f.HasField("oneof_index"):
                    group = hx(msg.oneof_decl[f.oneof_index].name)
                wraps = "-"
                mw = re.match(r"\.google\.protobuf\.(.+)Value$", f.type_name)
                if mw and hasattr(betterproto, "TYPE_" + mw.group(1).upper()):
                    wraps = hx("betterproto.TYPE_" + mw.group(1).upper())
                kind, pname = pyt(f)
                if ename:
                    e = entries[ename]
                    kk, kn = pyt(e.field[0])
                    vk, vn = pyt(e.field[1])
                    toks = [hx(pythonize_field_name(f.name)), str(f.number), hx("map"), "s", hx("int"), "0", "0", "0", "-", "-", "1",
                            hx(kn), vk, hx(vn), hx(FieldDescriptorProtoType(e.field[0].type).name),
                            hx(FieldDescriptorProtoType(e.field[1].type).name)]
                else:
                    toks = [hx(pythonize_field_name(f.name)), str(f.number), hx(tname), kind, hx(pname), "0",
                            "1" if rep else "0", "1" if f.proto3_optional else "0", group, wraps, "0",
                            "-", "s", "-", "-", "-"]
                out[(pyc, pythonize_field_name(f.name))] = toks
            for n in msg.nested_type:
                if not n.options.map_entry:
                    walk(n, prefix + msg.name)
        for m in fdp.message_type:
            walk(m, "")
    return out


# ------------------------------------------------------------------ the check of one schema

class Sink:
    """collects failures / disagreements of one schema so that `replay` can reuse the code"""

    def __init__(self):
        self.fails, self.disagreements, self.cases, self.counts = [], [], [], {}

    def fail(self, kind, inp, detail):
        self.fails.append((kind, inp, str(detail)[:600]))

    def disagree(self, what, inp, model, impl):
        self.disagreements.append((what, inp, model, impl))

    def count(self, k, n=1):
        self.counts[k] = self.counts.get(k, 0) + n


def generate_variants(protos, labels):
    with concurrent.futures.ThreadPoolExecutor(max_workers=6) as ex:
        gens = list(ex.map(lambda l: pluginrun.generate(protos, OPTS[l]), labels))
    return dict(zip(labels, gens))


def check_schema(sch, values, labels, drv, sink, compiler_lines=True):
    protos = sch["protos"]
    from betterproto.compile.naming import pythonize_class_name, pythonize_method_name
    gens = generate_variants(protos, labels)
    variants = {}
    try:
        for label in labels:
            g = gens[label]
            inp = {"protos": protos, "opts": list(OPTS[label]), "option_set": label}
            if not g.ok:
                sink.fail("generation-failed", inp, g.log[-400:])
                continue
            try:
                variants[label] = Variant(label, g, sch)
            except BaseException as e:  # noqa  (SyntaxError, ImportError, NameError ...)
                where = ""
                if isinstance(e, SyntaxError):
                    where = " line %s: %r" % (e.lineno, (e.text or "").strip())
                sink.fail("import-failed", inp, "%s: %s%s" % (type(e).__name__, e, where))
        base = variants.get("direct")
        if base is None:
            return
        # ---- metadata of every variant against the default configuration
        metas = {}
        for label, v in variants.items():
            try:
                metas[label] = {"main": module_meta(v.main), "other": module_meta(v.othermod)}
            except BaseException as e:  # noqa
                sink.fail("metadata-unreadable", {"protos": protos, "opts": list(OPTS[label]), "option_set": label},
                          "%s: %s" % (type(e).__name__, e))
        ref = metas.get("direct")
        for label, mt in metas.items():
            if label == "direct" or ref is None:
                continue
            inp = {"protos": protos, "opts": list(OPTS[label]), "option_set": label}
            for part in ("main", "other"):
                a, b = ref[part], mt[part]
                if "pydantic" in label:
                    a, b = strip_optional(a), strip_optional(b)
                    # outside oneof members nothing at all may differ, optional flag included
                if a["enums"] != b["enums"]:
                    sink.fail("enum-values-differ", inp, diff(a["enums"], b["enums"]))
                if a["services"] != b["services"]:
                    sink.fail("service-classes-differ", inp, diff(a["services"], b["services"]))
                if sorted(a["classes"]) != sorted(b["classes"]):
                    sink.fail("classes-differ", inp, "%s vs %s" % (sorted(a["classes"]), sorted(b["classes"])))
                    continue
                for cn in a["classes"]:
                    if a["classes"][cn] != b["classes"][cn]:
                        sink.fail("field-metadata-differs", dict(inp, cls=cn), diff(a["classes"][cn], b["classes"][cn]))
                if "pydantic" in label:
                    # the only permitted difference: optional=True (+ `| None`) on members of a real oneof
                    for cn, fs in mt[part]["classes"].items():
                        for fn, fm in fs.items():
                            rf = ref[part]["classes"].get(cn, {}).get(fn)
                            if rf and fm["group"] is None and fm != rf:
                                sink.fail("pydantic-changes-non-oneof-field", dict(inp, cls=cn, field=fn), diff(rf, fm))
        # ---- identical values -> identical bytes and JSON
        for vi, val in enumerate(values):
            want = None
            for label, v in variants.items():
                inp = {"protos": protos, "opts": list(OPTS[label]), "option_set": label, "value": val}
                try:
                    m = v.build(val)
                except BaseException as e:  # noqa
                    sink.fail("value-not-constructible", inp, "%s: %s" % (type(e).__name__, str(e)[:300]))
                    continue
                got = (observe(lambda: bytes(m).hex()), observe(lambda: m.to_json()),
                       observe(lambda: json.dumps(m.to_dict(casing=betterproto.Casing.SNAKE), sort_keys=True, default=str)),
                       observe(lambda: bytes(type(m)().parse(bytes(m))).hex()))
                if label == "direct":
                    want = got
                elif want is not None:
                    if got[0] != want[0]:
                        sink.fail("bytes-differ", inp, "%s vs default %s" % (got[0], want[0]))
                    if got[1] != want[1]:
                        sink.fail("json-differs", inp, textdiff(got[1], want[1]))
                    if got[2] != want[2]:
                        sink.fail("dict-differs", inp, textdiff(got[2], want[2]))
                    if got[3] != want[3]:
                        sink.fail("reparse-differs", inp, "%s vs default %s" % (got[3], want[3]))
                sink.cases.append(("value %s %s %d" % (label, val[1], vi) + got[0], bool(val[2]), {"option_set": label, "type": val[1], "bytes": got[0][:60]}))
                sink.count("values_" + label)
        # ---- model vs generated source
        for label, v in variants.items():
            comp = label.split("+")[0]
            pyd = "1" if "pydantic" in label else "0"
            src = v.gen.files().get("/".join(sch["pkg"].split(".")) + "/__init__.py")
            if src is None:
                continue
            inp = {"protos": protos, "opts": list(OPTS[label]), "option_set": label}
            try:
                fields = source_fields(src)
            except SyntaxError as e:
                sink.fail("import-failed", inp, "SyntaxError: %s" % e)
                continue
            texts = set()
            for cn, fs in fields.items():
                for fn, (line, ann) in fs.items():
                    texts.add(ann)
            if sch["service"]:
                sites = source_sites(src, pythonize_class_name(sch["service"]["name"]))
                for me in sch["service"]["methods"]:
                    pn = pythonize_method_name(me["name"])
                    d = sites.get(pn, {})
                    for site, text in d.items():
                        if not site.startswith("_"):
                            texts.add(text)
                            if not py_wellformed(text):
                                sink.fail("annotation-not-wellformed", dict(inp, method=me["name"], site=site), text)
                for site, text in sites.get("__mapping__", {}).items():
                    texts.add(text)
            for t in sorted(texts):
                if not py_wellformed(t):
                    sink.fail("annotation-not-wellformed", dict(inp, text=t), t)
            if drv is None:
                continue
            # field lines
            descs = field_descs(sch, v.gen.descriptor, pyd == "1")
            lines, keys = [], []
            for (cn, fn), toks in sorted(descs.items()):
                if cn in fields and fn in fields[cn]:
                    lines.append("TFIELD %s %s %s" % (comp, pyd, " ".join(toks)))
                    keys.append(("field", cn, fn, fields[cn][fn][0]))
                    lines.append("TFIELDSHAPE %s %s %s" % (comp, pyd, " ".join(toks)))
                    keys.append(("fieldshape", cn, fn, py_shape(fields[cn][fn][1])))
            if sch["service"]:
                for me in sch["service"]["methods"]:
                    pn = pythonize_method_name(me["name"])
                    d = sites.get(pn, {})
                    tin, tout = d.get("_in"), d.get("_out")
                    if tin is None or tout is None:
                        continue
                    for site, text in d.items():
                        if site.startswith("_"):
                            continue
                        lines.append("TSITE %s %s %s %s" % (comp, site, hx(tin), hx(tout)))
                        keys.append(("site", me["name"], site, text))
                mr = sites.get("__mapping__", {}).get("mappingReturn")
                if mr:
                    lines.append("TSITE %s mappingReturn %s %s" % (comp, hx("X"), hx("X")))
                    keys.append(("site", "__mapping__", "mappingReturn", mr))
            for t in sorted(texts):
                lines.append("TDENOTE " + hx(t))
                keys.append(("denote", t, None, py_shape(t)))
                lines.append("TWQ " + hx(t))
                keys.append(("wq", t, None, "1" if py_wellformed(t) else "0"))
            replies = drv.ask(lines)
            for ln, key, rep in zip(lines, keys, replies):
                kind = key[0]
                model = unhx(rep) if kind in ("field", "site") and re.fullmatch(r"[0-9a-f]*|-", rep) else rep
                sink.cases.append((label + " " + ln, True, {"option_set": label, "what": kind, "impl": key[3][:80]}))
                sink.count("corr_" + kind)
                if model != key[3]:
                    sink.disagree(kind, dict(inp, line=ln, where=list(key[:3])), model, key[3])
    finally:
        for g in gens.values():
            g.cleanup()


def textdiff(a, b):
    i = 0
    while i < min(len(a), len(b)) and a[i] == b[i]:
        i += 1
    return "differ at %d: ...%s  vs default ...%s" % (i, a[max(0, i - 60):i + 80], b[max(0, i - 60):i + 80])


def observe(fn):
    """the value, or the kind of exception: an exception is a behaviour that must agree too"""
    try:
        return fn()
    except Exception as e:  # noqa
        return "RAISES " + type(e).__name__


def diff(a, b):
    out = []
    for k in sorted(set(a) | set(b)):
        if a.get(k) != b.get(k):
            out.append("%s: %r vs %r" % (k, a.get(k), b.get(k)))
    return "; ".join(out)[:600]


# ------------------------------------------------------------------ compiler methods: model vs implementation

def compiler_correspondence(chk, drv):
    from betterproto.plugin.typing_compiler import (DirectImportTypingCompiler, NoTyping310TypingCompiler,
                                                    TypingImportTypingCompiler)
    rng = chk.rng
    real = {"direct": DirectImportTypingCompiler, "root": TypingImportTypingCompiler, "310": NoTyping310TypingCompiler}
    names = ["int", "str", "Foo", "a.b.Foo", "builtins.int", "_x__.Bar", "datetime", "M", "Deadline", "float", "A1_b"]
    lines, want = [], []

    def arg(c, depth):
        """an argument string as the plugin would pass it (own output of the same compiler), sometimes adversarial"""
        r = rng.random()
        if depth > 2 or r < 0.35:
            return rng.choice(names)
        if r < 0.5:
            return '"%s"' % rng.choice(names)
        if r < 0.55:
            return rng.choice(['"', '""', "", 'x"y', '"a" | "b"', "A[", "]"])     # any string at all
        m = rng.choice(["optional", "list", "dict", "union"])
        return call(c, m, depth + 1)[1]

    def call(c, m, depth):
        obj = real[c]()
        if m == "dict":
            a = [rng.choice(["str", "int", "bool"]), arg(c, depth)]
            return a, obj.dict(*a)
        if m == "union":
            a = [arg(c, depth) for _ in range(rng.randint(1, 3))]
            return a, obj.union(*a)
        if m in ("iterable", "async_iterable", "async_iterator"):
            a = [rng.choice(names) if rng.random() < 0.9 else arg(c, depth)]
            return a, getattr(obj, m)(*a)
        a = [arg(c, depth)]
        return a, getattr(obj, m)(*a)

    n = 1500 if chk.tier == "quick" else 20000
    for _ in range(n):
        c = rng.choice(sorted(real))
        m = rng.choice(["optional", "list", "dict", "union", "iterable", "async_iterable", "async_iterator"])
        a, res = call(c, m, 0)
        if any(" " in hx(x) for x in a):
            continue
        lines.append("TYPING %s %s %s" % (c, m, " ".join(hx(x) for x in a)))
        want.append(res)
    replies = drv.ask(lines)
    for ln, w, r in zip(lines, want, replies):
        chk.case(ln, True, {"line": ln, "impl": w})
        chk.count("corr_compiler_" + ln.split()[2])
        got = unhx(r) if re.fullmatch(r"[0-9a-f]*|-", r) else r
        if got != w:
            chk.disagree("typing compiler method", ln, got, w)
    # site texts of the current and the pre-D07 template: wellQuoted vs Python
    sites = ["stubUnaryParam", "stubIterParam", "stubTimeout", "stubDeadline", "stubMetadata", "stubReturnUnary",
             "stubReturnStream", "baseUnaryParam", "baseIterParam", "baseReturnUnary", "baseReturnStream", "rpcStream",
             "mappingReturn"]
    lines = []
    for c in sorted(real):
        for s in sites:
            for tin, tout in [("Req", "Rep"), ("a_b__.Req", "betterproto_lib_google_protobuf.Empty")]:
                for cmd in ("TSITE", "TSITEPRE"):
                    lines.append("%s %s %s %s %s" % (cmd, c, s, hx(tin), hx(tout)))
    texts = [unhx(r) for r in drv.ask(lines)]
    wq = drv.ask(["TWQ " + hx(t) for t in texts])
    dn = drv.ask(["TDENOTE " + hx(t) for t in texts])
    for ln, t, w, d in zip(lines, texts, wq, dn):
        chk.case(ln, True, {"line": ln, "text": t, "wellQuoted": w})
        chk.count("corr_sitewq")
        if (w == "1") != py_wellformed(t):
            chk.disagree("wellQuoted vs python parser", {"line": ln, "text": t}, w, "1" if py_wellformed(t) else "0")
        if d != py_shape(t):
            chk.disagree("denote vs python reading", {"line": ln, "text": t}, d, py_shape(t))


# ------------------------------------------------------------------ entry points

def n_schemas(chk):
    return 20 if chk.tier == "quick" else 150


def run(chk, drv):
    chk.extra["rule"] = ("schemas from a seeded grammar (2-4 messages, nested message+enum, enums with negative numbers, all 15 scalars, "
                         "repeated/optional/map/oneof members over scalars, enums, local/nested/cross-package messages, wrappers, Timestamp, "
                         "Duration; one service whose methods cover the 4 streaming combinations with local, cross-package and Empty types) "
                         "x 6 option sets; 4 values per message type; compiler methods on nested own-output and arbitrary argument strings. "
                         "non-trivial = a value with at least one field set / every model-vs-source line; distinct by canonical line")
    chk.extra["partial"] = ("that the generated text imports under CPython and that bytes()/to_json() agree is observed on generated "
                            "schemas, not proved; proved: denotation of every compiler's output, quoting of every template site, "
                            "config-independence of the field call, pydantic adds only optional=True on oneof members, wire model "
                            "invariant under that flag, dispatch table identical under the 6 option sets")
    chk.extra["assumptions"] = ["ruff pass-through shim (generated modules unformatted)",
                                "type references / python names are taken from the importing and naming code (C13, C19)"]
    if drv is not None:
        compiler_correspondence(chk, drv)
    rng = chk.rng
    labels = [l for l, _ in OPTION_SETS]
    for i in range(n_schemas(chk)):
        sch = gen_schema(rng, i)
        values = []
        for m in sch["messages"]:
            for _ in range(4):
                values.append(gen_msg_value(rng, sch, m["name"]))
        values.append(gen_msg_value(rng, sch, "Msg0.Inner"))
        sink = Sink()
        check_schema(sch, values, labels, drv, sink)
        flush(chk, sink)
        chk.count("schemas")
        main = sch["protos"]["main.proto"]
        chk.count("schemas_%s_oneof_%s_optional" % ("with" if " oneof " in main else "without", "with" if " optional " in main else "without"))
        chk.count("services_methods", len(sch["service"]["methods"]) if sch["service"] else 0)


def flush(chk, sink):
    for line, nt, sample in sink.cases:
        chk.case(line, nt, sample)
    for k, n in sink.counts.items():
        chk.count(k, n)
    for kind, inp, detail in sink.fails:
        chk.fail(kind, inp, detail)
    for what, inp, model, impl in sink.disagreements:
        chk.disagree(what, inp, model, impl)


def classify(failure, known):
    return None        # D07 and D23 are fixed: nothing is suppressed


def search(chk):
    rng = chk.rng
    labels = [l for l, _ in OPTION_SETS]
    for i in range(20 * n_schemas(chk)):
        sch = gen_schema(rng, 1000 + i)
        values = [gen_msg_value(rng, sch, m["name"]) for m in sch["messages"] for _ in range(3)]
        sink = Sink()
        check_schema(sch, values, labels, None, sink)
        for kind, inp, detail in sink.fails:
            chk.fail(kind, inp, detail)
        if sink.fails:
            return


def rerun(protos, opts, value=None):
    """re-run one stored input; returns list of failure kinds"""
    label = [l for l, o in OPTION_SETS if list(o) == list(opts)]
    label = label[0] if label else "direct"
    sch = {"protos": protos}
    m = re.search(r"^package ([\w.]+);", protos["main.proto"], re.M)
    sch["pkg"] = m.group(1)
    m2 = re.search(r"^package ([\w.]+);", protos.get("other.proto", "package c18other;"), re.M)
    sch["other"] = m2.group(1)
    if "other.proto" not in protos:
        protos = dict(protos)
        protos["other.proto"] = 'syntax = "proto3";\npackage c18other;\nmessage Shared { int32 x = 1; }\n'
        sch["protos"] = protos
    sch["messages"], sch["enums"] = [], []
    sm = re.search(r"^service (\w+) \{(.*?)^\}", protos["main.proto"], re.M | re.S)
    sch["service"] = None
    if sm:
        methods = [{"name": n, "cs": bool(a), "ss": bool(b)} for n, a, b in
                   re.findall(r"rpc (\w+)\((stream )?[\w.]+\) returns \((stream )?[\w.]+\)", sm.group(2))]
        sch["service"] = {"name": sm.group(1), "methods": methods}
    sink = Sink()
    labels = ["direct"] + ([label] if label != "direct" else [])
    check_schema(sch, [tuplify(value)] if value else [], labels, None, sink)
    return sink.fails


def tuplify(v):
    if isinstance(v, list):
        if v and v[0] == "m":
            return ("m", v[1], {k: tuplify(x) for k, x in v[2].items()})
        if v and v[0] == "l":
            return ("l", [tuplify(x) for x in v[1]])
        if v and v[0] == "D":
            return ("D", [(tuplify(a), tuplify(b)) for a, b in v[1]])
        return tuple(v)
    return v


def replay(chk, rp):
    fl = rp.get("failure") or {}
    inp = fl.get("input") or {}
    if not isinstance(inp, dict) or "protos" not in inp:
        return True
    fails = rerun(inp["protos"], inp.get("opts", []), inp.get("value"))
    for kind, i, detail in fails:
        print("  replay: %s %s" % (kind, detail[:200]))
    return bool(fails)


def _d53_differs():
    """D53: the standard variants give oneof members `group=` only, the pydantic variants `optional=True, group=`
    (PydanticOneOfFieldCompiler); with include_default_values=True an UNSELECTED member is written as its default by
    the former and as null by the latter.  The two classes below are what the two variants generate for
    `message A { oneof g { int32 a = 1; string b = 2; } }`."""
    import dataclasses
    from typing import Optional
    A = dataclasses.make_dataclass("A", [("a", int, betterproto.int32_field(1, group="g")),
                                         ("b", str, betterproto.string_field(2, group="g"))],
                                   bases=(betterproto.Message,), eq=False, repr=False)
    B = dataclasses.make_dataclass("A", [("a", Optional[int], betterproto.int32_field(1, optional=True, group="g")),
                                         ("b", Optional[str], betterproto.string_field(2, optional=True, group="g"))],
                                   bases=(betterproto.Message,), eq=False, repr=False)
    same_default = A(b="x").to_json() == B(b="x").to_json() and bytes(A(b="x")) == bytes(B(b="x"))
    return same_default and A(b="x").to_json(include_default_values=True) != B(b="x").to_json(include_default_values=True)


def replay_known(chk, entry):
    w = entry.get("witness") or {}
    if w.get("kind") == "include-default-values-unselected-oneof-member":
        return _d53_differs()
    fails = rerun(w["protos"], w.get("opts", []), w.get("value"))
    return bool(fails)
