"""C19 — name mapping is total and safe, and JSON keys map back to their fields.

Correspondence: the Lean tokenizer model of the three regex-based case functions (and
sanitize_name / safe_snake_case / pythonize_*) against the real functions on every
identifier up to length 5 (quick) / 6 (thorough) over {a,b,A,B,1,_}, all keywords, soft
keywords, builtins, a corpus of realistic names (incl. every identifier that occurs in the
repository's own tests/inputs/*.proto) and random longer identifiers.

Oracles (the English property, on the real code only): generated field / method / enum
member / class names are `str.isidentifier()` and not `keyword.iskeyword()`; the mapping is
idempotent; a message class built with dataclasses.make_dataclass + betterproto.int32_field
whose field is named as the plugin would name it keeps the field through
to_dict(casing) -> from_dict for both casings, and from_dict({proto_name: v}) fills it."""
import builtins
import dataclasses
import glob
import itertools
import keyword
import os
import re

import betterproto
from betterproto import casing
from betterproto.compile import naming

import common as C

ALPHA = "abAB1_"
CORPUS = [
    "to_dict", "from_dict", "parse", "dump", "load", "to_json", "from_json", "is_set", "to_pydict", "from_pydict",
    "address_line_1", "address_line_2", "ipv4_address", "ipv6_address", "x_y_z", "HTTPStatus", "http_status",
    "HTTPStatusCode", "userID", "user_id", "UserId", "URL", "url", "myURLParser", "my_url_parser", "a", "A", "_",
    "__", "_a", "a_", "_1", "__init__", "__class__", "self", "cls", "id", "type", "class", "None", "none", "NONE",
    "True", "true", "False", "false", "import", "from", "lambda", "match", "case", "print", "list", "dict", "str",
    "int32", "int64", "uint32_value", "sint64Value", "fixed32", "field1", "field_1", "field_1_2", "field12",
    "f1", "f_1", "f1f", "f1F", "F1", "F1f", "a1b2c3", "a_1_b_2", "A1B2", "FOO_BAR", "FOOBAR", "FOOBar", "fooBAR",
    "fooBar", "foo_bar", "foo__bar", "_foo_bar_", "Foo_Bar", "foo_Bar", "fooBarBaz", "FooBarBaz", "foo_bar_baz",
    "UInt32", "FOO1BAR2", "FOOBAR_1", "foobaR", "x", "xY", "xYZ", "xy_z", "x_yz", "x1", "x_1", "camelCase",
    "PascalCase", "snake_case", "SCREAMING_SNAKE_CASE", "kebab", "sha256", "sha_256", "md5sum", "utf8", "utf_8",
    "x509_cert", "oauth2_token", "OAuth2Token", "s3_bucket", "S3Bucket", "ec2_instance_id", "EC2InstanceID",
    "lat", "lng", "line1", "line_1", "Line1", "i18n", "l10n", "k8s_pod", "K8sPod", "v1beta1", "V1Beta1", "v1_beta_1",
    "is_ok", "isOK", "isOk", "is_o_k", "b64", "base64_data", "RGB", "rgb_color", "RGBColor", "rGB", "tcp_ip", "TCP_IP",
    "created_at", "createdAt", "updated_at_ms", "ttl_s", "max_retries", "maxRetries", "e", "E", "pi", "Pi", "PI",
    "a_b", "aB", "AB", "Ab", "a_b_c", "abC", "aBC", "ABc", "ABC", "aBc", "a1", "A1", "a_1", "_a1", "async", "await",
    "not", "and", "or", "is", "in", "if", "else", "elif", "def", "del", "pass", "raise", "return", "try", "while",
    "with", "yield", "global", "nonlocal", "assert", "break", "continue", "except", "finally", "for", "as",
]
DOTTED = ["a.b", "foo.bar_baz", "betterproto.lib.google.protobuf", "betterproto.lib.pydantic.google.protobuf",
          "x..y", "A.B", "a.b.c", "b_c", "b.c", "a-b", "a~b", "d.e", "d_e", "foo.Bar", ".a", "a.", "1.a", "a.1"]


# ------------------------------------------------------------------ inputs

def exhaustive(maxlen):
    out = []
    for n in range(1, maxlen + 1):
        for t in itertools.product(ALPHA, repeat=n):
            if t[0] != "1":
                out.append("".join(t))
    return out


def repo_identifiers():
    ids = set()
    for p in glob.glob(os.path.join(C.REPO, "tests", "inputs", "**", "*.proto"), recursive=True):
        try:
            txt = open(p, encoding="utf-8").read()
        except OSError:
            continue
        txt = re.sub(r"//[^\n]*", "", txt)
        ids.update(re.findall(r"\b[A-Za-z_][A-Za-z0-9_]*\b", txt))
    return sorted(ids)


def random_identifiers(rng, n):
    letters = "abcdefghijklmnopqrstuvwxyz"
    out = []
    for _ in range(n):
        k = rng.randint(6, 18)
        style = rng.random()
        s = []
        for i in range(k):
            r = rng.random()
            if r < 0.15:
                s.append("_")
            elif r < 0.30:
                s.append(rng.choice("0123456789"))
            elif r < (0.55 if style < 0.5 else 0.9):
                s.append(rng.choice(letters).upper())
            else:
                s.append(rng.choice(letters))
        if s[0].isdigit():
            s[0] = "_"
        out.append("".join(s))
    return out


def all_names(chk, maxlen=None, nrandom=None):
    quick = chk.tier == "quick"
    maxlen = maxlen or (5 if quick else 6)
    nrandom = nrandom or (3000 if quick else 40000)
    names = exhaustive(maxlen)
    seen = set(names)
    groups = {"exhaustive": len(names)}
    for label, extra in (("keywords", keyword.kwlist), ("softkeywords", keyword.softkwlist),
                         ("builtins", [b for b in dir(builtins) if is_proto_ident(b)]),
                         ("corpus", CORPUS), ("repo_protos", repo_identifiers()),
                         ("random_long", random_identifiers(chk.rng, nrandom))):
        k = 0
        for s in extra:
            if s not in seen and is_proto_ident(s):
                seen.add(s)
                names.append(s)
                k += 1
        groups[label] = k
    return names, groups


_IDENT = re.compile(r"[A-Za-z_][A-Za-z0-9_]*\Z")


def is_proto_ident(s):
    return bool(_IDENT.match(s))


# ------------------------------------------------------------------ features used to delimit the known classes
# (independent of betterproto: a port of the Lean tokenizer; it is cross-checked against the driver's guard)

def py_tokens(s):
    def cls(c):
        if "A" <= c <= "Z":
            return "U"
        if "a" <= c <= "z":
            return "L"
        if "0" <= c <= "9":
            return "D"
        return "S"
    out, st, cur = [], "S", ""
    for c in s:
        k = cls(c)
        if st == "S":
            if k != "S":
                st, cur = k, c
        elif st == "U":
            if k == "U":
                cur += c
            elif k == "L":
                if len(cur) > 1:
                    out.append(cur[:-1])
                    cur = cur[-1]
                st, cur = "L", cur + c
            elif k == "D":
                st, cur = "D", cur + c
            else:
                out.append(cur)
                st, cur = "S", ""
        elif st == "L":
            if k in ("L", "D"):
                st, cur = k, cur + c
            else:
                out.append(cur)
                st, cur = (k, c) if k == "U" else ("S", "")
        else:
            if k == "D":
                cur += c
            else:
                out.append(cur)
                st, cur = (k, c) if k != "S" else ("S", "")
    if cur:
        out.append(cur)
    return out


def alpha2(s):
    """guard of key_roundtrip_camel_partial / class_name_idem_partial: every word begins with two letters"""
    return all(len(w) >= 2 and w[0].isalpha() and w[1].isalpha() for w in py_tokens(s))


def field_words_alpha2(f):
    """the same feature read off a generated *field name* without any tokenizer: its `_`-separated words"""
    return all(len(w) >= 2 and w[0].isalpha() and w[1].isalpha() for w in f.strip("_").split("_") if w)


def class_guard(s):
    t = s.lstrip("_")
    return bool(t) and t[0].isalpha() and "".join(w.capitalize() for w in py_tokens(s)) not in ("None", "True", "False")


# ------------------------------------------------------------------ oracles on the real implementation

def valid_name(x):
    return isinstance(x, str) and x.isidentifier() and not keyword.iskeyword(x)


def call(fn, *a):
    try:
        return fn(*a)
    except Exception as e:  # noqa
        return e


_cls_cache = {}


def message_class(f):
    c = _cls_cache.get(f)
    if c is None:
        c = dataclasses.make_dataclass("M", [(f, int, betterproto.int32_field(1))], bases=(betterproto.Message,))
        if len(_cls_cache) > 20000:
            _cls_cache.clear()
        _cls_cache[f] = c
    return c


def check_roundtrip(p, f):
    """to_dict -> from_dict keeps the field `f` (generated for proto name `p`) — on a real Message class"""
    fails = []
    try:
        M = message_class(f)
        m = M(**{f: 7})
    except Exception as e:  # noqa
        return [("message-class-not-buildable", {"proto": p, "field": f}, repr(e))]
    for cname, cas in (("camel", betterproto.Casing.CAMEL), ("snake", betterproto.Casing.SNAKE)):
        try:
            d = m.to_dict(casing=cas)
            back = M().from_dict(d)
            ok = getattr(back, f) == 7 and bytes(back) == bytes(m)
            detail = "to_dict=%r -> from_dict gives %s=%r" % (d, f, getattr(back, f))
        except Exception as e:  # noqa
            ok, detail = False, repr(e)
        if not ok:
            fails.append(("key-not-invertible:" + cname,
                          {"proto": p, "field": f, "alpha2": field_words_alpha2(f)}, detail))
    try:
        back = M().from_dict({p: 7})
        ok = getattr(back, f) == 7
        detail = "from_dict({%r: 7}) gives %s=%r" % (p, f, getattr(back, f))
    except Exception as e:  # noqa
        ok, detail = False, repr(e)
    if not ok:
        fails.append(("orig-name-not-mapped", {"proto": p, "field": f}, detail))
    return fails


def check_name(p, roundtrip=True):
    """all oracles for one proto identifier; returns [(kind, input, detail)]"""
    fails = []
    f = call(naming.pythonize_field_name, p)
    m = call(naming.pythonize_method_name, p)
    c = call(naming.pythonize_class_name, p)
    for what, v in (("field", f), ("method", m)):
        if not valid_name(v):
            fails.append((what + "-name-invalid", {"proto": p}, repr(v)))
        else:
            fn = naming.pythonize_field_name if what == "field" else naming.pythonize_method_name
            again = call(fn, v)
            if again != v:
                fails.append((what + "-name-not-idempotent", {"proto": p}, "%r -> %r" % (v, again)))
    if isinstance(c, Exception):
        fails.append(("class-name-raises", {"proto": p}, repr(c)))
    else:
        if keyword.iskeyword(c):
            fails.append(("class-name-keyword", {"proto": p, "result": c}, c))
        elif not c.isidentifier():
            fails.append(("class-name-not-identifier", {"proto": p, "result": c, "guard": class_guard(p)}, repr(c)))
        again = call(naming.pythonize_class_name, c)
        if again != c:
            fails.append(("class-name-not-idempotent", {"proto": p, "alpha2": alpha2(p)}, "%r -> %r" % (c, again)))
    if roundtrip and valid_name(f):
        fails += check_roundtrip(p, f)
    return fails


def check_member(name, enum):
    v = call(naming.pythonize_enum_member_name, name, enum)
    if not valid_name(v):
        return [("enum-member-name-invalid", {"name": name, "enum": enum}, repr(v))]
    return []


def member_pairs(chk, names):
    rng = chk.rng
    enums = ["Color", "color", "HTTPStatus", "My_Enum", "E", "_", "A1", "Foo_Bar", "None", "aB", "Type"]
    pairs = []
    for e in enums:
        pre = casing.snake_case(e).upper() if not isinstance(call(casing.snake_case, e), Exception) else e.upper()
        for suf in ["", "_", "_1", "_RED", "RED", "_class", "_None", "__x__", "_for", "1", "_1A", "_UNSPECIFIED"]:
            pairs.append((pre + suf, e))
            pairs.append(("X_" + pre + suf, e))
        pairs.append((e, e))
    for _ in range(400 if chk.tier == "quick" else 5000):
        pairs.append((rng.choice(names), rng.choice(enums + [rng.choice(names)])))
    for k in keyword.kwlist:
        pairs.append((k, "Color"))
        pairs.append(("COLOR_" + k, "Color"))
    return [(n, e) for n, e in pairs if n and is_proto_ident(n) and is_proto_ident(e)]


# ------------------------------------------------------------------ the check

IMPL = {
    "SNAKE": casing.snake_case, "PASCAL": casing.pascal_case, "CAMEL": casing.camel_case,
    "SAFE": casing.safe_snake_case, "CLS": naming.pythonize_class_name, "FLD": naming.pythonize_field_name,
    "MTH": naming.pythonize_method_name, "SANITIZE": casing.sanitize_name,
}


def impl_keys(f):
    kc = casing.camel_case(f).rstrip("_")
    ks = casing.snake_case(f).rstrip("_")
    return "=%s =%s =%s =%s" % (kc, casing.safe_snake_case(kc), ks, casing.safe_snake_case(ks))


def show(v):
    return "ERR" if isinstance(v, Exception) else "=" + v


def run(chk, drv):
    plugin_generated_fields(chk)
    _run(chk, drv)


def _run(chk, drv):
    quick = chk.tier == "quick"
    names, groups = all_names(chk)
    for k, v in groups.items():
        chk.count("names_" + k, v)
    chk.extra["rule"] = ("every identifier [A-Za-z_][A-Za-z0-9_]* of length ≤ %d over {a,b,A,B,1,_} (exhaustive), all keywords, soft keywords, "
                         "builtins, a hand-made corpus, every identifier in the repository's tests/inputs/*.proto, random identifiers of length 6–18; "
                         "plus dotted package strings for safe_snake_case (used for import aliases) and (member, enum) pairs. "
                         "A case is one (function, input) evaluation; non-trivial = the function changes its input or the input has ≥ 2 words; "
                         "distinct by (function, input)." % (5 if quick else 6))
    chk.extra["exhaustive_exploration"] = {"alphabet": ALPHA, "max_length": 5 if quick else 6, "count": groups["exhaustive"]}
    chk.extra["assumptions"] = [
        "the regex engine (re.sub with the WORD / WORD_UPPER / SYMBOLS pattern) is modelled by a hand-written tokenizer; validated exhaustively here, not proved",
        "strict=True only (no call site passes strict=False); ASCII identifiers (str.isidentifier is modelled as [A-Za-z_][A-Za-z0-9_]*)",
        "keyword list = keyword.kwlist of the interpreter running the check (regenerated into Gen/Keywords.lean)",
        "Message.to_dict/from_dict key handling is modelled as key = casing(f).rstrip('_'), field = safe_snake_case(key); the oracle runs the real Message methods",
    ]
    chk.extra["partial"] = ("key_roundtrip_camel_partial and class_name_idem_partial hold under the guard 'every word begins with two letters'; "
                            "class_name_valid_partial under 'first letter-or-digit is a letter and result not a capitalised keyword'; "
                            "the unguarded statements are false of the code (D15, D18), witnesses proved by decide and replayed here")
    chk.extra["statements"] = {
        "field/method/enum-member name valid identifier, not keyword": ["field_name_valid", "method_name_valid", "enum_member_name_valid"],
        "class name valid": ["class_name_valid_partial", "class_name_keyword_witness", "class_name_empty_witness", "class_name_digit_witness"],
        "idempotent": ["field_name_idem", "snake_case_idem", "snake_normal_form", "class_name_idem_partial", "class_name_not_idem_witness"],
        "to_dict key maps back (either casing), original name maps back": ["key_roundtrip_snake", "key_roundtrip_camel_partial", "orig_name_maps_back",
                                                                         "key_roundtrip_digit_witness", "key_roundtrip_single_letter_witness"],
    }

    # ---------------- correspondence: model vs implementation
    ops = ["SNAKE", "PASCAL", "CAMEL", "SAFE", "CLS", "FLD", "MTH", "SANITIZE"]
    strings = names + [""] + DOTTED + ["1" + n for n in names[:300]]
    if drv:
        lines = []
        for s in strings:
            for op in ops:
                lines.append("%s =%s" % (op, s))
        replies = drv.ask(lines)
        i = 0
        for s in strings:
            for op in ops:
                want = show(call(IMPL[op], s))
                chk.case(lines[i], want != "=" + s or len(py_tokens(s)) >= 2,
                         {"function": op, "input": s, "model": replies[i], "implementation": want})
                if replies[i] != want:
                    chk.disagree(op, s, replies[i], want)
                i += 1
        # keys emitted / read back for generated field names, and the guards
        fields = sorted({call(naming.pythonize_field_name, p) for p in names if isinstance(call(naming.pythonize_field_name, p), str)})
        rk = drv.ask(["KEYS =%s" % f for f in fields])
        for f, r in zip(fields, rk):
            want = call(impl_keys, f)
            chk.case("KEYS " + f, True)
            if r != want:
                chk.disagree("to_dict key / from_dict field", f, r, repr(want))
        rg = drv.ask(["WF alpha2 =%s" % s for s in names]) + drv.ask(["WF classguard =%s" % s for s in names])
        n = len(names)
        for j, s in enumerate(names):
            if rg[j] != ("1" if alpha2(s) else "0"):
                chk.disagree("guard alpha2 (Lean) vs harness feature", s, rg[j], alpha2(s))
            if rg[n + j] != ("1" if class_guard(s) else "0"):
                chk.disagree("guard classNameGuard (Lean) vs harness feature", s, rg[n + j], class_guard(s))
        pairs = member_pairs(chk, names)
        rm = drv.ask(["MEMBER =%s =%s" % (a, b) for a, b in pairs])
        for (a, b), r in zip(pairs, rm):
            want = show(call(naming.pythonize_enum_member_name, a, b))
            chk.case("MEMBER %s %s" % (a, b), True)
            if r != want:
                chk.disagree("pythonize_enum_member_name", [a, b], r, want)

    # ---------------- oracles on the real code
    # (failures are collected first: common.Check keeps at most 200, and the thousands of
    #  instances of the known classes must not crowd out an unlisted one)
    real_chk, chk = chk, Collector(chk)
    n_in = n_out = 0
    seen_fields = set()
    for p in names:
        f = call(naming.pythonize_field_name, p)
        rt = isinstance(f, str) and f not in seen_fields
        if rt:
            seen_fields.add(f)
        # the original-name key is checked for every p; the class per field is cached
        for kind, inp, detail in check_name(p, roundtrip=True):
            if kind.startswith("key-not-invertible") and not rt:
                continue     # the same generated field was already reported
            chk.fail(kind, inp, detail)
        if alpha2(p):
            n_in += 1
        else:
            n_out += 1
    chk.count("roundtrip_guard_in_domain", n_in)
    chk.count("roundtrip_guard_out_of_domain", n_out)
    chk.count("distinct_generated_fields", len(seen_fields))
    for a, b in member_pairs(chk, names):
        for kind, inp, detail in check_member(a, b):
            chk.fail(kind, inp, detail)
    multi_field_messages(chk, sorted(seen_fields))
    near_name_siblings(chk, sorted(seen_fields))
    chk.flush()
    _cls_cache.clear()


class Collector:
    """stands in for common.Check while the oracles run: unlisted failures are handed on first,
    then a few samples of each known class; the rest of the known instances are only counted"""

    def __init__(self, chk):
        self.chk, self.rng, self.tier = chk, chk.rng, chk.tier
        self.fails = []

    def count(self, key, n=1):
        self.chk.count(key, n)

    def fail(self, kind, inp, detail):
        self.fails.append({"kind": kind, "input": inp, "detail": detail})

    def flush(self):
        known = [e for e in self.chk.known if e.get("status") == "known"]
        listed = {}
        for fl in self.fails:
            fid = classify(fl, known)
            if fid is None:
                self.chk.fail(fl["kind"], fl["input"], fl["detail"])
            else:
                listed.setdefault((fid, fl["kind"]), []).append(fl)
        for (fid, kind), fls in sorted(listed.items()):
            self.chk.count("instances_of_%s_%s" % (fid, kind), len(fls))
            for fl in fls[:3]:
                self.chk.fail(fl["kind"], fl["input"], fl["detail"])


# (a field named `betterproto` makes the generated module unimportable — it shadows the module in the class body: D47, a C03
#  finding about the generated text, not about the name mapping; names of Python TYPES used in later annotations are D33)
PLUGIN_NAMES = ["datetime", "timedelta", "timezone", "date", "time", "list", "dict",
                "optional", "message", "field", "value", "self", "cls", "class", "import", "from", "lambda", "match", "case", "none", "true",
                "false", "id", "type", "str", "bytes", "bool", "float", "len", "print", "name", "values", "keys", "items",
                "ipv4_address", "user_id", "sha256sum", "http_status", "md5sum", "foo_bar", "lat", "lng",
                "b64", "utf8", "created_at", "updated_at", "ttl", "duration", "timestamp"]


def plugin_generated_fields(chk):
    """the same question on classes the PLUGIN generates (its field naming goes through FieldCompiler.py_name, not only
    through pythonize_field_name), in a package that also uses Timestamp / Duration / wrappers / repeated / maps / optional
    (so that the generated module imports datetime, timedelta, typing names, builtins)"""
    import pluginrun
    names = [n for n in PLUGIN_NAMES if is_proto_ident(n)]
    for variant in ("with-wkt", "plain"):
        lines = ['syntax = "proto3";', "package namesp;"]
        if variant == "with-wkt":
            lines += ['import "google/protobuf/timestamp.proto";', 'import "google/protobuf/duration.proto";',
                      'import "google/protobuf/wrappers.proto";']
        lines.append("message ApiNames {")
        for i, n in enumerate(API_NAMES):
            lines.append("  int32 %s = %d;" % (n, i + 1))
        lines.append("}")
        lines.append("message Names {")
        for i, n in enumerate(names):
            lines.append("  int32 %s = %d;" % (n, i + 1))
        if variant == "with-wkt":
            lines += ["}", "message Other {", "  google.protobuf.Timestamp at = 1;", "  google.protobuf.Duration took = 2;",
                      "  google.protobuf.Int32Value maybe = 3;", "  repeated int32 many = 4;", "  map<string, int32> table = 5;",
                      "  optional int32 opt = 6;"]
        lines.append("}")
        g = pluginrun.generate({"names.proto": "\n".join(lines) + "\n"})
        try:
            if not g.ok:
                chk.fail("plugin-failed", {"variant": variant}, g.log[-800:])
                continue
            try:
                mod = g.import_module("namesp")
                M = mod.Names
            except Exception as e:  # noqa
                chk.fail("generated-module-not-importable", {"variant": variant}, repr(e)[:400])
                continue
            for M, plist, api in ((mod.Names, names, False), (mod.ApiNames, API_NAMES, True)):
              by_num = {betterproto.FieldMetadata.get(fld).number: fld.name for fld in dataclasses.fields(M)}
              for i, p in enumerate(plist):
                f = by_num.get(i + 1)
                inp = {"proto": p, "field": f, "variant": variant, "generated_by": "plugin", "alpha2": field_words_alpha2(f or ""),
                       "class_has_api_named_field": api}
                chk.case("plugin %s %s" % (variant, p), True, {"proto": p, "field": f})
                chk.count("plugin_generated_field")
                if f is None or not valid_name(f):
                    chk.fail("field-name-invalid", inp, repr(f))
                    continue
                m = call(lambda: M(**{f: 7}))
                if isinstance(m, Exception):
                    chk.fail("message-class-not-buildable", inp, repr(m))
                    continue
                for cname, cas in (("camel", betterproto.Casing.CAMEL), ("snake", betterproto.Casing.SNAKE)):
                    back = call(lambda: M().from_dict(m.to_dict(casing=cas)))
                    if isinstance(back, Exception) or getattr(back, f) != 7:
                        chk.fail("key-not-invertible:" + cname, inp, "to_dict=%r -> %r" % (call(lambda: m.to_dict(casing=cas)), back))
                back = call(lambda: M().from_dict({p: 7}))
                if isinstance(back, Exception) or getattr(back, f) != 7:
                    chk.fail("orig-name-not-mapped", inp, "from_dict({%r: 7}) gives %r" % (p, back))
        finally:
            g.cleanup()


def mm_class(fs, nums=None):
    """a message class with the int32 fields `fs`; `nums` are their field numbers (declaration order and number order
    are independent in .proto files: protoc keeps the declaration order)"""
    nums = nums or list(range(1, len(fs) + 1))
    return dataclasses.make_dataclass("MM", [(f, int, betterproto.int32_field(n)) for f, n in zip(fs, nums)],
                                      bases=(betterproto.Message,))


def multi_field_messages(chk, fields):
    """several generated fields in one message: every value must survive to_dict -> from_dict"""
    rng = chk.rng
    good = [f for f in fields if field_words_alpha2(f) and valid_name(f)]
    for _ in range(100 if chk.tier == "quick" else 1000):
        k = rng.randint(2, 8)
        fs = rng.sample(good, min(k, len(good)))
        nums = rng.sample([1, 2, 3, 4, 5, 7, 9, 15, 16, 17, 100, 2047, 2048, 19000], len(fs))     # not in declaration order
        M = mm_class(fs, nums)
        m = M(**{f: i + 1 for i, f in enumerate(fs)})
        for cname, cas in (("camel", betterproto.Casing.CAMEL), ("snake", betterproto.Casing.SNAKE)):
            back = call(lambda: M().from_dict(m.to_dict(casing=cas)))
            if isinstance(back, Exception) or back != m:
                chk.fail("multi-field-roundtrip:" + cname, {"fields": fs, "numbers": nums}, repr(back))
        chk.count("multi_field_messages")


def near_name_siblings(chk, fields):
    """fields of ONE message whose names are made of the same letters and digits and differ only in where the
    underscores are (a_bc / ab_c / abc): protoc accepts them side by side (their JSON names differ), each keeps its
    value alone, so each must keep its own value next to the others — a key must come back to the SAME field"""
    groups = {}
    for f in fields:
        if field_words_alpha2(f) and valid_name(f) and not shadows_api(f):
            groups.setdefault("".join(c for c in f if c.isalnum()).lower(), []).append(f)
    todo = [g for g in groups.values() if len(g) > 1]
    chk.rng.shuffle(todo)
    for g in todo[:400 if chk.tier == "quick" else 6000]:
        keep, keys = [], set()
        for f in g:
            # distinct keys in both casings and distinct protoc JSON names (protoc >= 22 compares those exactly)
            ks = {"camel:%s" % call(betterproto.casing.camel_case, f), "snake:%s" % call(betterproto.casing.snake_case, f),
                  "json:" + re.sub(r"_([a-zA-Z0-9])", lambda m: m.group(1).upper(), f).replace("_", "")}
            if not (ks & keys) and not check_roundtrip(f, f):
                keep.append(f)
                keys |= ks
        if len(keep) < 2:
            continue
        fs = keep[:6]
        nums = chk.rng.sample([1, 2, 3, 4, 5, 7, 9, 15, 16, 17, 100, 2047, 2048, 19000], len(fs))
        M = mm_class(fs, nums)
        m = M(**{f: i + 1 for i, f in enumerate(fs)})
        for cname, cas in (("camel", betterproto.Casing.CAMEL), ("snake", betterproto.Casing.SNAKE)):
            back = call(lambda: M().from_dict(m.to_dict(casing=cas)))
            if isinstance(back, Exception) or back != m:
                chk.fail("multi-field-roundtrip:" + cname, {"fields": fs, "numbers": nums, "near_names": True}, repr(back))
        chk.count("near_name_sibling_messages")


# ------------------------------------------------------------------ classification / replay

API_NAMES = ["to_dict", "from_dict", "parse", "dump", "load", "to_json", "from_json", "is_set", "to_pydict", "from_pydict"]


def shadows_api(name):
    """the field (a class attribute of the dataclass) hides an attribute of betterproto.Message the runtime itself calls"""
    return isinstance(name, str) and hasattr(betterproto.Message, name)


def classify(failure, known):
    kind, inp = failure["kind"], failure["input"] or {}
    ids = {e["id"] for e in known}
    if "D48" in ids and kind in ("key-not-invertible:camel", "key-not-invertible:snake", "orig-name-not-mapped", "message-class-not-buildable") \
            and (shadows_api(inp.get("field")) or inp.get("class_has_api_named_field")):
        return "D48"
    if "D48" in ids and kind.startswith("multi-field-roundtrip") and any(shadows_api(f) for f in inp.get("fields", [])):
        return "D48"
    if "D15" in ids and kind == "key-not-invertible:camel" and inp.get("alpha2") is False \
            and not field_words_alpha2(inp.get("field", "")):
        return "D15"
    if "D18" in ids:
        p = inp.get("proto", "")
        if kind == "class-name-keyword" and inp.get("result") in ("None", "True", "False") \
                and p.strip("_").lower() == inp.get("result", "").lower():
            return "D18"
        if kind == "class-name-not-identifier" and (not p.lstrip("_") or p.lstrip("_")[0].isdigit()):
            return "D18"
        if kind == "class-name-not-idempotent" and not alpha2(p):
            return "D18"
    return None


def still_fails(kind, inp):
    if kind == "enum-member-name-invalid":
        return bool(check_member(inp["name"], inp["enum"]))
    if kind.startswith("multi-field-roundtrip"):
        fs = inp["fields"]
        M = mm_class(fs, inp.get("numbers"))
        m = M(**{f: i + 1 for i, f in enumerate(fs)})
        cas = betterproto.Casing.CAMEL if kind.endswith("camel") else betterproto.Casing.SNAKE
        back = call(lambda: M().from_dict(m.to_dict(casing=cas)))
        return isinstance(back, Exception) or back != m
    p = inp.get("proto")
    if p is None:
        return True
    return any(k == kind for k, _, _ in check_name(p))


def replay(chk, rp):
    fl = rp.get("failure")
    if not fl:
        return True      # proof-broken / correspondence-broken replays: re-run the check instead
    return still_fails(fl["kind"], fl["input"])


def replay_known(chk, entry):
    w = entry.get("witness", {})
    out = False
    for p in w.get("names", []):
        kinds = {k for k, _, _ in check_name(p)}
        out = out or bool(kinds & set(w.get("kinds", [])))
    return out


def search(chk):
    """proof or correspondence broke without an oracle failure: widen the inputs"""
    names, _ = all_names(chk, maxlen=6, nrandom=100000)
    chk = Collector(chk)
    for p in names:
        for kind, inp, detail in check_name(p, roundtrip=True):
            chk.fail(kind, inp, detail)
    for a, b in member_pairs(chk, names):
        for kind, inp, detail in check_member(a, b):
            chk.fail(kind, inp, detail)
    chk.flush()
    _cls_cache.clear()
