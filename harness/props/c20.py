"""C20 — enums are open, canonical and immutable.

Correspondence: random enum definitions (1-8 members; numbers from {0, +-1, +-small, int32
min/max, random int32}; aliases; names from a small alphabet) are turned into real
`betterproto.Enum` subclasses (alternately `type(name, (Enum,), ns)` and an exec'ed class
statement) and into model classes in the driver (`ENUMDEF`); random operation sequences
(`ENUMOP`: call, getitem, getattr, try_value, from_string, iteration, reversed, len,
__members__, contains, setattr/delattr attempts on class and members, assignment through
__members__, copy, deepcopy, pickle round trip, JSON dump/parse of one enum value) are run on
both in lock-step and the canonical outputs compared (member name / number / "is the canonical
object" / "is the object that was copied", or ERR).  `ENUMWIRE n`: the enum scalar through the
wire model against the bytes and the decoded number of a real one-field message.

Oracle (real code only, states the English property): see `run_oracles`."""
import copy
import dataclasses
import json
import pickle
import sys
import types
from typing import Dict, List, Optional

import betterproto

INT32_MIN, INT32_MAX = -(1 << 31), (1 << 31) - 1
NAMES = ["A", "B", "C", "D", "E", "RED", "GREEN", "BLUE", "X_1", "_X", "a", "ab", "Zz", "UNSPECIFIED",
         "FOO_BAR", "v2", "ZERO", "NEG", "MIN", "MAX", "K9", "none", "T_", "q"]
SMALL = [0, 0, 0, 1, 1, -1, 2, 3, -2, -5, 7, 100, -100, 127, 128, -128, 300, 65536, INT32_MIN, INT32_MAX,
         INT32_MIN + 1, INT32_MAX - 1]
ATTRS = {"name": "name", "value": "value", "other": "colour"}
MODNAME = "c20_generated_enums"

_mod = types.ModuleType(MODNAME)
_mod.__dict__.update({"betterproto": betterproto, "List": List, "Dict": Dict, "Optional": Optional})
sys.modules[MODNAME] = _mod
_counter = [0]


# ------------------------------------------------------------------ generation

def gen_number(rng):
    r = rng.random()
    if r < 0.7:
        return rng.choice(SMALL)
    if r < 0.8:
        return rng.randint(-20, 20)
    return rng.randint(INT32_MIN, INT32_MAX)


def gen_def(rng):
    k = rng.choice([1, 1, 2, 2, 3, 3, 4, 5, 6, 7, 8])
    names = rng.sample(NAMES, k)
    d = []
    for n in names:
        if d and rng.random() < 0.3:
            v = rng.choice(d)[1]                      # alias of an earlier number
        else:
            v = gen_number(rng)
        d.append([n, v])
    return d


def gen_numbers(rng, d):
    """numbers used as lookup keys / field values: defined ones, neighbours, boundaries, random"""
    out = [v for _, v in d]
    out += [v + rng.choice([-1, 1]) for _, v in d[:3]]
    out += [0, rng.choice([1, -1]), rng.choice([INT32_MIN, INT32_MAX]), rng.randint(INT32_MIN, INT32_MAX),
            rng.randint(-300, 300)]
    out = [min(max(v, INT32_MIN), INT32_MAX) for v in out]
    seen, res = set(), []
    for v in out:
        if v not in seen:
            seen.add(v)
            res.append(v)
    return res


def gen_ops(rng, d, numbers, n_ops):
    names = [n for n, _ in d]
    ops = []
    for _ in range(n_ops):
        v = rng.choice(numbers)
        n = rng.choice(names) if rng.random() < 0.8 else rng.choice(NAMES)
        k = rng.choice(["call", "call", "getitem", "getitem", "getattr", "try", "try", "fromstr", "iter", "rev", "len",
                        "names", "contains", "containsint", "setcls", "delcls", "memset", "setmem", "delmem",
                        "copy", "deepcopy", "pickle", "pickle", "tojson", "tojson", "fromjson", "fromjson"])
        if k in ("call", "try", "contains", "containsint", "copy", "deepcopy", "pickle", "tojson"):
            ops.append("%s %d" % (k, v))
        elif k in ("getitem", "getattr", "fromstr", "delcls"):
            ops.append("%s %s" % (k, n))
        elif k in ("setcls", "memset"):
            ops.append("%s %s %d" % (k, n, rng.choice(numbers)))
        elif k == "setmem":
            ops.append("setmem %d %s %d" % (v, rng.choice(list(ATTRS)), rng.randint(-3, 3)))
        elif k == "delmem":
            ops.append("delmem %d %s" % (v, rng.choice(list(ATTRS))))
        elif k == "fromjson":
            ops.append("fromjson S %s" % n if rng.random() < 0.5 else "fromjson I %d" % v)
        else:
            ops.append(k)
    return ops


# ------------------------------------------------------------------ real classes

def build_enum(d, style="type"):
    """a real betterproto.Enum subclass for the definition, importable (picklable) from _mod"""
    _counter[0] += 1
    cname = "E%d" % _counter[0]
    if style == "exec":
        src = "class %s(betterproto.Enum):\n" % cname + "".join("    %s = %d\n" % (n, v) for n, v in d)
        exec(src, _mod.__dict__)
        return _mod.__dict__[cname]
    ns = {"__module__": MODNAME, "__qualname__": cname}
    for n, v in d:
        ns[n] = v
    cls = type(cname, (betterproto.Enum,), ns)
    _mod.__dict__[cname] = cls
    return cls


FIELDS = ["single_e", "rep_e", "map_e", "one_e", "opt_e"]


def build_msg(E):
    """a message with the enum in singular, repeated, map-value, oneof and optional position.
    The oneof group has the enum as its only member: with a second member,
    to_dict(include_default_values=True) also writes that member's default and from_dict then
    selects it -- oneof/JSON behaviour (C07/C04), not an enum matter (false alarm, see notes)."""
    en = E.__name__
    cname = "M_" + en
    fields = [
        ("single_e", en, betterproto.enum_field(1)),
        ("rep_e", "List[%s]" % en, betterproto.enum_field(2)),
        ("map_e", "Dict[int, %s]" % en, betterproto.map_field(3, betterproto.TYPE_INT32, betterproto.TYPE_ENUM)),
        ("one_e", en, betterproto.enum_field(4, group="grp")),
        ("opt_e", "Optional[%s]" % en, betterproto.enum_field(5, optional=True)),
    ]
    cls = dataclasses.make_dataclass(cname, fields, bases=(betterproto.Message,), eq=False, repr=False)
    cls.__module__ = MODNAME
    _mod.__dict__[cname] = cls
    return cls


# ------------------------------------------------------------------ slow path: classes generated by the plugin

# protoc (proto3) rejects two value names of one enum that differ only in case: no "a" next to "A"
PLUGIN_NAMES = [n for n in NAMES if not n.startswith("_") and n != "a"]
assert len({n.lower() for n in PLUGIN_NAMES}) == len(PLUGIN_NAMES)


def proto_text(defs):
    """one wrapper message per definition (enum value names are scoped to the enclosing message):
    the enum `Qq` and the five field positions"""
    out = ['syntax = "proto3";', "package c20gen;"]
    for i, d in enumerate(defs):
        alias = len({v for _, v in d}) < len(d)
        out.append("message W%d {" % i)
        out.append("  enum Qq {")
        if alias:
            out.append("    option allow_alias = true;")
        out += ["    %s = %d;" % (n, v) for n, v in d]
        out.append("  }")
        out += ["  Qq single_e = 1;", "  repeated Qq rep_e = 2;", "  map<int32, Qq> map_e = 3;",
                "  oneof grp { Qq one_e = 4; }", "  optional Qq opt_e = 5;", "}"]
    return "\n".join(out) + "\n"


def gen_plugin_def(rng):
    """proto3: the first value of an enum must be 0"""
    d = gen_def(rng)
    names = rng.sample(PLUGIN_NAMES, len(d))
    d = [[n, v] for n, (_, v) in zip(names, d)]
    d[0][1] = 0
    return d


def build_plugin(defs):
    """run protoc + the plugin of the working tree; returns (gen, [(E, M)...]) or (gen, None)"""
    import pluginrun
    gen = pluginrun.generate({"c20gen.proto": proto_text(defs)})
    if not gen.ok:
        return gen, None
    mod = gen.import_module("c20gen")
    return gen, [(getattr(mod, "W%dQq" % i), getattr(mod, "W%d" % i)) for i in range(len(defs))]


def build_classes(case):
    """(E, M, cleanup) for a case, according to its style"""
    style = case.get("style", "type")
    d = [tuple(x) for x in case["def"]]
    if style == "plugin":
        gen, cl = build_plugin([d])
        if cl is None:
            gen.cleanup()
            raise RuntimeError("protoc / plugin failed: " + gen.log[-400:])
        return cl[0][0], cl[0][1], gen.cleanup
    E = build_enum(d, style)
    M = build_msg(E)

    def cleanup():
        # every class caches a copy of its module's globals for type-hint resolution: keep the module small
        for c in (E, M):
            _mod.__dict__.pop(c.__name__, None)
    return E, M, cleanup


def attempt(fn, *a):
    try:
        return fn(*a)
    except Exception as e:  # noqa: BLE001
        return e


def first_name(d, v):
    for n, x in d:
        if x == v:
            return n
    return None


# ------------------------------------------------------------------ implementation side of the line protocol

def show_member(E, m):
    r = attempt(E, m.value)
    flag = "c" if r is m else "n"
    return "%s %d %s" % ("~" if m.name is None else m.name, int(m), flag)


def impl_op(E, M, op):
    """run one ENUMOP on the real class; same reply syntax as the driver"""
    t = op.split()
    k = t[0]
    try:
        if k == "call":
            return show_member(E, E(int(t[1])))
        if k == "getitem":
            return show_member(E, E[t[1]])
        if k == "getattr":
            return show_member(E, getattr(E, t[1]))
        if k == "try":
            return show_member(E, E.try_value(int(t[1])))
        if k == "fromstr":
            return show_member(E, E.from_string(t[1]))
        if k == "iter":
            ms = list(E)
            return "L %d" % len(ms) + "".join(" " + show_member(E, m) for m in ms)
        if k == "rev":
            ms = list(reversed(E))
            return "L %d" % len(ms) + "".join(" " + show_member(E, m) for m in ms)
        if k == "len":
            return str(len(E))
        if k == "names":
            ns = list(E.__members__)
            return "L %d" % len(ns) + "".join(" " + n for n in ns)
        if k == "contains":
            return "T" if E.try_value(int(t[1])) in E else "F"
        if k == "containsint":
            return "T" if int(t[1]) in E else "F"
        if k == "setcls":
            setattr(E, t[1], int(t[2]))
            return "done"
        if k == "delcls":
            delattr(E, t[1])
            return "done"
        if k == "memset":
            E.__members__[t[1]] = int(t[2])
            return "done"
        if k == "setmem":
            setattr(E.try_value(int(t[1])), ATTRS[t[2]], int(t[3]))
            return "done"
        if k == "delmem":
            delattr(E.try_value(int(t[1])), ATTRS[t[2]])
            return "done"
        if k in ("copy", "deepcopy", "pickle"):
            src = E.try_value(int(t[1]))
            if k == "copy":
                r = copy.copy(src)
            elif k == "deepcopy":
                r = copy.deepcopy(src)
            else:
                r = pickle.loads(pickle.dumps(src))
            return show_member(E, r) + (" same" if r is src else " diff")
        if k == "tojson":
            x = M(rep_e=[E.try_value(int(t[1]))]).to_dict()["repE"][0]
            return "NULL" if x is None else ("S %s" % x if isinstance(x, str) else "I %d" % x)
        if k == "fromjson":
            x = t[2] if t[1] == "S" else int(t[2])
            return show_member(E, M.from_dict({"repE": [x]}).rep_e[0])
    except Exception:  # noqa: BLE001
        return "ERR"
    return "bad-op"


def def_line(eid, d):
    return "ENUMDEF %s" % eid + "".join(" %s %d" % (n, v) for n, v in d)


def same_reply(model, impl):
    if model.startswith("ERR") or impl.startswith("ERR"):
        return model.startswith("ERR") and impl.startswith("ERR")
    return model == impl


def impl_wire(E, M, n):
    """bytes of the enum scalar (optional position: always emitted) and the decoded number"""
    b = bytes(M(opt_e=E.try_value(n)))
    if not b or b[0] != 0x28:
        return "ERR"
    back = M().parse(b).opt_e
    return "%s %d %d" % (b[1:].hex() or "-", len(b) - 1, int(back))


# ------------------------------------------------------------------ oracle: the English property on the real code

def snapshot(E):
    return (len(E), [(n, m.name, m.value, int(m), id(m)) for n, m in E.__members__.items()],
            [id(m) for m in E], sorted((int(m), id(m)) for m in E))


def obs_msg(m):
    """numbers held by the five enum positions of a message (None = unset / not selected)"""
    which = betterproto.which_one_of(m, "grp")
    return {"single_e": int(m.single_e), "rep_e": [int(x) for x in m.rep_e],
            "map_e": {int(k): int(v) for k, v in m.map_e.items()},
            "one_e": int(which[1]) if which[0] == "one_e" else None,
            "opt_e": None if m.opt_e is None else int(m.opt_e)}


def run_oracles(case, classes=None):
    """case = {"def": [[name, number]...], "style": "type"|"exec"|"plugin", "numbers": [int...]}
    returns a list of (kind, detail)"""
    if classes is None:
        try:
            E, M, cleanup = build_classes(case)
        except Exception as e:  # noqa: BLE001
            return [("class-definition-raises", repr(e))]
        try:
            return run_oracles(case, (E, M))
        finally:
            cleanup()
    d = [tuple(x) for x in case["def"]]
    numbers = list(case["numbers"])
    out = []

    def bad(kind, detail):
        out.append((kind, detail))

    E, M = classes
    defined = {v for _, v in d}

    # -- sentence 1: lookup by number / by name returns the one canonical member object
    for n, v in d:
        by_num, by_name = attempt(E, v), attempt(E.__getitem__, n)
        if isinstance(by_num, Exception) or isinstance(by_name, Exception):
            bad("declared-member-not-found", "%s=%d: E(v)=%r E[n]=%r" % (n, v, by_num, by_name))
            continue
        if by_num is not by_name:
            bad("lookup-by-number-and-name-differ", "%s=%d: %r vs %r" % (n, v, by_num, by_name))
        if attempt(getattr, E, n) is not by_num:
            bad("attribute-lookup-differs", "%s=%d: getattr=%r" % (n, v, attempt(getattr, E, n)))
        if attempt(E.from_string, n) is not by_name:
            bad("from-string-differs-from-getitem", "%s: %r" % (n, attempt(E.from_string, n)))
        if attempt(E.try_value, v) is not by_num:
            bad("try-value-defined-not-canonical", "%d: %r" % (v, attempt(E.try_value, v)))
        if by_num.value != v or int(by_num) != v or not (by_num == v):
            bad("member-number-not-declared", "%s=%d: value=%r int=%r" % (n, v, by_num.value, int(by_num)))
        if by_num.name != first_name(d, v):
            bad("canonical-name-not-first-declared", "%d: name=%r, first declared %r" % (v, by_num.name, first_name(d, v)))
        if not isinstance(by_num, E) or by_num not in E:
            bad("member-not-in-class", "%s=%d" % (n, v))
    ms = attempt(list, E)
    if isinstance(ms, Exception) or len(ms) != len(d) or any(m is not attempt(E, v) for m, (_, v) in zip(ms, d)):
        bad("iteration-not-declaration-order", repr(ms))
    if attempt(len, E) != len(d):
        bad("len-not-number-of-declarations", repr(attempt(len, E)))
    if attempt(lambda: list(E.__members__)) != [n for n, _ in d]:
        bad("members-names-differ", repr(attempt(lambda: list(E.__members__))))
    if not isinstance(ms, Exception):
        rv = attempt(lambda: list(reversed(E)))
        if isinstance(rv, Exception) or len(rv) != len(ms) or any(a is not b for a, b in zip(rv, reversed(ms))):
            bad("reversed-differs", repr(rv))
    for n in NAMES[:6]:
        if n not in [x for x, _ in d]:
            if not isinstance(attempt(E.__getitem__, n), KeyError) or not isinstance(attempt(E.from_string, n), ValueError):
                bad("undeclared-name-found", n)

    # -- identity under copy / deepcopy, name and number under pickling (members and open values)
    for v in numbers:
        x = attempt(E.try_value, v)
        if isinstance(x, Exception):
            continue          # reported below
        if copy.copy(x) is not x:
            bad("copy-identity-lost", "%d" % v)
        if copy.deepcopy(x) is not x:
            bad("deepcopy-identity-lost", "%d" % v)
        nested = attempt(copy.deepcopy, {"k": [x, (x,)]})
        if isinstance(nested, Exception) or nested["k"][0] is not x or nested["k"][1][0] is not x:
            bad("deepcopy-identity-lost", "%d inside a container" % v)
        for proto in range(0, pickle.HIGHEST_PROTOCOL + 1):
            y = attempt(lambda: pickle.loads(pickle.dumps(x, proto)))
            if isinstance(y, Exception) or type(y) is not E or y.name != x.name or y.value != x.value or int(y) != v or y != x:
                bad("pickle-changes-name-or-number", "%d protocol %d: %r" % (v, proto, y))
                break

    # -- sentence 2: openness
    for v in numbers:
        x = attempt(E.try_value, v)
        if v in defined:
            continue
        if isinstance(x, Exception):
            bad("undefined-number-rejected", "try_value(%d): %r" % (v, x))
            continue
        if not isinstance(x, E) or not (x == v) or int(x) != v or x.value != v or hash(x) != hash(v) or x != v:
            bad("undefined-number-not-equal-to-int", "%d: %r value=%r" % (v, int(x), x.value))
        if x.name is not None:
            bad("undefined-number-has-name", "%d: %r" % (v, x.name))
        if x in E or not isinstance(attempt(E, v), ValueError):
            bad("undefined-number-registered", "%d" % v)
    if isinstance(attempt(E.try_value), Exception) or int(E.try_value()) != 0:
        bad("default-not-zero", repr(attempt(E.try_value)))

    # -- sentence 3: immutability of class and members
    before = snapshot(E)
    tgt_name, tgt_v = d[0]
    member = attempt(E, tgt_v)
    openv = attempt(E.try_value, next((v for v in numbers if v not in defined), INT32_MAX))
    attempts = [
        ("setattr(cls, member)", lambda: setattr(E, tgt_name, 12345)),
        ("setattr(cls, new)", lambda: setattr(E, "BRAND_NEW", 12345)),
        ("delattr(cls, member)", lambda: delattr(E, tgt_name)),
        ("cls.__members__[n] = x", lambda: E.__members__.__setitem__(tgt_name, 12345)),
        ("del cls.__members__[n]", lambda: E.__members__.__delitem__(tgt_name)),
    ]
    for label, obj in (("member", member), ("open value", openv)):
        if isinstance(obj, Exception):
            continue
        attempts += [
            ("%s.name = x" % label, lambda o=obj: setattr(o, "name", "HACKED")),
            ("%s.value = x" % label, lambda o=obj: setattr(o, "value", 12345)),
            ("%s.colour = x" % label, lambda o=obj: setattr(o, "colour", 1)),
            ("del %s.name" % label, lambda o=obj: delattr(o, "name")),
            ("del %s.value" % label, lambda o=obj: delattr(o, "value")),
        ]
    for label, fn in attempts:
        r = attempt(fn)
        if not isinstance(r, Exception):
            bad("class-mutable" if "cls" in label else "member-mutable", "%s did not raise" % label)
        after = attempt(snapshot, E)
        if after != before:
            bad("class-mutable" if "cls" in label else "member-mutable", "%s changed the enum: %r -> %r" % (label, before, after))
            break
    if not isinstance(member, Exception) and (member.name != first_name(d, tgt_v) or member.value != tgt_v):
        bad("member-mutable", "name/value of %r changed" % (member,))
    if any(k in ("class-mutable", "member-mutable") for k, _ in out):
        return out            # the class is damaged now: what follows would only report consequences

    # -- sentence 2: accepted wherever a member is; number kept through binary and JSON round trips
    vals = [attempt(E.try_value, v) for v in numbers]
    vals = [x for x in vals if not isinstance(x, Exception)]
    if not vals:
        return out
    for i, x in enumerate(vals):
        v = int(x)
        others = [vals[(i + 1) % len(vals)], x, vals[(i + 2) % len(vals)]]
        want = {"single_e": v, "rep_e": [int(o) for o in others], "map_e": {1: v, -7: int(others[0])},
                "one_e": v, "opt_e": v}

        def build(plain=False):
            conv = (lambda o: int(o)) if plain else (lambda o: o)
            m = M(single_e=conv(x), rep_e=[conv(o) for o in others], opt_e=conv(x))      # constructor
            m.map_e = {1: conv(x), -7: conv(others[0])}                                  # assignment
            m.one_e = conv(x)
            return m
        m = attempt(build)
        if isinstance(m, Exception):
            bad("undefined-number-rejected" if v not in defined else "member-rejected-by-message", "%d: %r" % (v, m))
            continue
        got = attempt(obs_msg, m)
        if got != want:
            bad("field-does-not-hold-number", "%d: %r" % (v, got))
            continue
        if not (m.single_e == v and m.opt_e == v and m.one_e == v and m.rep_e[1] == v and m.map_e[1] == v):
            bad("undefined-number-not-equal-to-int", "%d in a message field" % v)
        # binary
        b = attempt(bytes, m)
        back = attempt(lambda: M().parse(b))
        got = attempt(obs_msg, back) if not isinstance(back, Exception) else back
        if isinstance(b, Exception) or got != want:
            bad("binary-roundtrip-number-changed", "%d: bytes=%s got %r want %r" % (
                v, b.hex() if isinstance(b, bytes) else repr(b), got, want))
        else:
            for pos, y in (("single", back.single_e), ("repeated", back.rep_e[1]), ("map", back.map_e[1]),
                           ("oneof", back.one_e), ("optional", back.opt_e)):
                if not isinstance(y, E) or (v in defined and y is not E(v)) or (v not in defined and y.name is not None):
                    bad("decoded-value-not-canonical", "%d in %s position: %r" % (v, pos, y))
            if attempt(bytes, back) != b:
                bad("binary-roundtrip-number-changed", "%d: re-encoding differs" % v)
        # JSON / dict, both casings, with and without defaults, through dict and through text
        for cname, casing in (("CAMEL", betterproto.Casing.CAMEL), ("SNAKE", betterproto.Casing.SNAKE)):
            for incl in (False, True):
                dd = attempt(lambda: m.to_dict(casing=casing, include_default_values=incl))
                if isinstance(dd, Exception):
                    bad("to-dict-raises", "%d casing=%s include_defaults=%s: %r" % (v, cname, incl, dd))
                    continue
                r1 = attempt(lambda: obs_msg(M.from_dict(dd)))
                r2 = attempt(lambda: obs_msg(M().from_dict(dd)))
                js = attempt(lambda: m.to_json(casing=casing, include_default_values=incl))
                r3 = attempt(lambda: obs_msg(M().from_json(js))) if not isinstance(js, Exception) else js
                for label, r in (("from_dict", r1), ("instance.from_dict", r2), ("from_json", r3)):
                    if r != want:
                        bad("json-roundtrip-number-changed", "%d %s casing=%s include_defaults=%s: dict=%r got %r want %r" % (
                            v, label, cname, incl, dd, r, want))
                        break
        # a message that holds nothing but defaults: the default of an enum field is number 0
        if i == 0:
            e = M()
            dflt = attempt(lambda: (int(e.single_e), e.single_e.name, e.rep_e, e.map_e, e.opt_e))
            if dflt != (0, first_name(d, 0), [], {}, None):
                bad("default-not-zero", repr(dflt))
            for incl in (False, True):
                dd = attempt(lambda: e.to_dict(include_default_values=incl))
                if isinstance(dd, Exception):
                    bad("to-dict-raises", "empty message include_defaults=%s: %r" % (incl, dd))
                elif attempt(lambda: int(M.from_dict(dd).single_e)) != 0:
                    bad("json-roundtrip-number-changed", "empty message include_defaults=%s: %r" % (incl, dd))
            # plain ints are accepted too (an Enum is an int)
            mp = attempt(lambda: build(plain=True))
            if isinstance(mp, Exception) or attempt(bytes, mp) != attempt(bytes, m):
                bad("plain-int-encodes-differently", "%d: %r" % (v, mp))
    return out


def shrink(case, kind):
    """smallest definition / number list on which the oracle still reports `kind`"""
    def fails(c):
        try:
            return any(k == kind for k, _ in run_oracles(c))
        except Exception:  # noqa: BLE001
            return False
    cur = dict(case)
    changed = True
    while changed:
        changed = False
        for i in range(len(cur["def"])):
            if len(cur["def"]) <= 1:
                break
            c = dict(cur, **{"def": cur["def"][:i] + cur["def"][i + 1:]})
            if fails(c):
                cur, changed = c, True
                break
        if changed:
            continue
        for i in range(len(cur["numbers"])):
            if len(cur["numbers"]) <= 1:
                break
            c = dict(cur, numbers=cur["numbers"][:i] + cur["numbers"][i + 1:])
            if fails(c):
                cur, changed = c, True
                break
    return cur


def report(chk, case, failures):
    seen = set()
    for kind, detail in failures:
        if kind in seen:
            continue
        seen.add(kind)
        if sum(1 for f in chk.oracle_failures if f["kind"] == kind) >= 3:
            continue
        small = shrink(case, kind) if not any(f["kind"] == kind for f in chk.oracle_failures) else case
        det = next((dt for k, dt in run_oracles(small) if k == kind), detail) if small is not case else detail
        chk.fail(kind, small, det)


# ------------------------------------------------------------------ the check

CORPUS = [
    {"def": [["A", 1]], "style": "type", "numbers": [1, 7, 0, -1]},                       # D14 witness shape
    {"def": [["NEG", -5], ["ZERO", 0]], "style": "exec", "numbers": [-5, -1, INT32_MIN]},    # D10 witness shape
    {"def": [["A", 1], ["B", 2], ["ALIAS", 1], ["MIN", INT32_MIN], ["MAX", INT32_MAX]], "style": "type",
     "numbers": [1, 2, INT32_MIN, INT32_MAX, 0, 3]},
    {"def": [["RED", 1], ["GREEN", 2], ["BLUE", 3]], "style": "exec", "numbers": [1, 2, 3, 4, 0]},   # tests/test_enum.py
]


def cases(chk, n):
    rng = chk.rng
    out = [dict(c) for c in CORPUS]
    for i in range(n):
        d = gen_def(rng)
        out.append({"def": d, "style": "exec" if i % 2 else "type", "numbers": gen_numbers(rng, d)})
    return out


def correspond(chk, drv, case, n_ops, eid, classes=None):
    """lock-step run of a random op sequence on the model class and on the real class"""
    rng = chk.rng
    d = case["def"]
    if classes is None:
        E, M, cleanup = build_classes(case)
        try:
            return correspond(chk, drv, case, n_ops, eid, (E, M))
        finally:
            cleanup()
    E, M = classes
    ops = gen_ops(rng, d, case["numbers"], n_ops)
    lines = [def_line(eid, d)] + ["ENUMOP %s %s" % (eid, op) for op in ops]
    wire = [v for v in case["numbers"]]
    lines += ["ENUMWIRE %d" % v for v in wire]
    replies = drv.ask(lines)
    dl = lines[0]
    if replies[0] != "ok %d" % len(E):
        chk.disagree("enum definition", {"def": d}, replies[0], "ok %d" % len(E))
    for op, rep in zip(ops, replies[1:1 + len(ops)]):
        got = impl_op(E, M, op)
        k = op.split()[0]
        chk.case(dl + " | " + op, k != "containsint", {"definition": d, "op": op, "model": rep, "implementation": got})
        chk.count("op_" + k)
        chk.count("reply_err" if got.startswith("ERR") else "reply_ok")
        if not same_reply(rep, got):
            chk.disagree("enum op", {"def": d, "style": case["style"], "ops": ops, "at": op}, rep, got)
            break
    for v, rep in zip(wire, replies[1 + len(ops):]):
        got = attempt(impl_wire, E, M, v)
        got = "ERR" if isinstance(got, Exception) else got
        chk.case(dl + " | wire %d" % v, True, None)
        chk.count("wire_negative" if v < 0 else "wire_nonnegative")
        if not same_reply(rep, got):
            chk.disagree("enum scalar on the wire", {"def": d, "number": v}, rep, got)


def run(chk, drv):
    chk.extra["rule"] = ("enum definitions: 1-8 members, names sampled without replacement from a 24-name alphabet, numbers from "
                         "{0, +-1, small, +-2^7.., int32 min/max (+-1), random int32}, each later member an alias of an earlier number "
                         "with probability 0.3; classes built alternately with type() and an exec'ed class statement; numbers used "
                         "as keys/values: the defined ones, neighbours, 0, +-1, int32 extremes, random int32; op sequences of 12-40 "
                         "random operations. A case = one (definition, operation) pair or one (definition, number) wire pair or one "
                         "oracle run on (definition, numbers); non-trivial = everything except `int in cls`; distinct by definition+op line")
    chk.extra["partial"] = ("identity under copy/deepcopy/pickle and attribute protection are modelled as operations and validated by "
                            "this correspondence and by the oracle on the real classes, not derived from first principles")
    chk.extra["assumptions"] = ["member names are identifiers that are not attributes of int / betterproto.Enum (getattr op)",
                                "names of a definition are pairwise distinct (they are keys of the class namespace dict)"]
    quick = chk.tier == "quick"
    cs = cases(chk, 500 if quick else 1500)
    for i, case in enumerate(cs):
        d = case["def"]
        nums = {v for _, v in d}
        chk.count("def_members_%d" % len(d))
        if len(nums) < len(d):
            chk.count("def_with_alias")
        if any(v < 0 for v in nums):
            chk.count("def_with_negative")
        if 0 not in nums:
            chk.count("def_without_zero")
        if nums & {INT32_MIN, INT32_MAX}:
            chk.count("def_with_int32_extreme")
        if drv:
            correspond(chk, drv, case, chk.rng.randint(12, 40), "e%d" % (i % 7))
        fl = run_oracles(case)
        chk.case("oracle " + json.dumps(case, sort_keys=True), True, None)
        chk.count("oracle_numbers_undefined", sum(1 for v in case["numbers"] if v not in nums))
        chk.count("oracle_numbers_defined", sum(1 for v in case["numbers"] if v in nums))
        if fl:
            report(chk, case, fl)
    # slow path: the same checks on classes generated by protoc + the plugin of the working tree
    for b in range(1 if quick else 6):
        defs = [gen_plugin_def(chk.rng) for _ in range(12 if quick else 40)]
        gen, cl = build_plugin(defs)
        try:
            if cl is None:
                chk.fail("plugin-fails-on-enum-definition", {"proto": proto_text(defs)}, gen.log[-600:])
                continue
            for i, (d, (E, M)) in enumerate(zip(defs, cl)):
                case = {"def": d, "style": "plugin", "numbers": gen_numbers(chk.rng, d)}
                chk.count("def_generated_by_plugin")
                if drv:
                    correspond(chk, drv, case, chk.rng.randint(12, 40), "p%d" % (i % 7), (E, M))
                fl = run_oracles(case, (E, M))
                chk.case("oracle " + json.dumps(case, sort_keys=True), True, None)
                if fl:
                    report(chk, case, fl)
        finally:
            gen.cleanup()


def classify(failure, known):
    # no open finding is listed for C20 (D10 and D14 are repaired); every failure is a violation
    return None


def search(chk):
    for case in cases(chk, 5000):
        fl = run_oracles(case)
        if fl:
            report(chk, case, fl)
            if len(chk.oracle_failures) >= 5:
                return


def replay_known(chk, entry):
    """re-run the witness of a known / fixed finding on the real code; True iff it still fails"""
    w = entry.get("witness") or {}
    case = {"def": w.get("def", [["A", 1]]), "style": "type", "numbers": w.get("numbers", [7])}
    kinds = set(w.get("kinds") or [])
    fl = run_oracles(case)
    return any((k in kinds) if kinds else True for k, _ in fl)


def replay(chk, rp):
    fl = rp.get("failure")
    if fl and isinstance(fl.get("input"), dict) and "def" in fl["input"]:
        case = fl["input"]
        case.setdefault("style", "type")
        case.setdefault("numbers", [0])
        got = run_oracles(case)
        for k, dt in got:
            print("  %s: %s" % (k, dt))
        return any(k == fl.get("kind") for k, _ in got) or (fl.get("kind") == "regression-of-fixed-finding" and bool(got))
    if fl and isinstance(fl.get("input"), dict) and "proto" in fl["input"]:
        import pluginrun
        gen = pluginrun.generate({"c20gen.proto": fl["input"]["proto"]})
        try:
            return not gen.ok
        finally:
            gen.cleanup()
    # correspondence replay: re-run the recorded op sequence on model and implementation
    from common import Driver
    still = False
    for c in rp.get("correspondence") or []:
        inp = c.get("input") or {}
        if "ops" not in inp:
            still = True
            continue
        drv = Driver()
        try:
            E, M, cleanup = build_classes(inp)
            reps = drv.ask([def_line("r", inp["def"])] + ["ENUMOP r %s" % op for op in inp["ops"]])
            for op, rep in zip(inp["ops"], reps[1:]):
                got = impl_op(E, M, op)
                if not same_reply(rep, got):
                    print("  %s: model %r implementation %r" % (op, rep, got))
                    still = True
                    break
        finally:
            drv.close()
    return still or not rp.get("correspondence")
