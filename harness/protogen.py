"""Grammar-based generator of valid proto3 sources for C03 (and reusable by C13/C18).

One PRNG drives every choice.  A schema is 1..3 files: a main file in a random package and
dependency files in related packages (same / child / parent / cousin / root) whose types it
references.  Covered constructs (each is counted in `Schema.features`): packages of depth 0..3,
nesting up to depth 3, all 15 scalar kinds, enums (top-level / nested, negative and aliased
numbers, prefixed members), maps over every legal key kind and value kind, oneofs, proto3
optional, repeated, recursive and mutually recursive messages, well-known types and wrappers,
keyword / builtin-colliding field names, comments, deprecated options, json_name.

Regions the generator stays out of (each is a theorem guard with its own witness in
known/C03.json, not something the random run should hit): lower-case type names / capitalised
packages (D19), class-name collisions after flattening, field-name collisions after
snake-casing, a message type whose simple name equals a sibling map's entry name."""
import collections

SCALARS = ["double", "float", "int32", "int64", "uint32", "uint64", "sint32", "sint64",
           "fixed32", "fixed64", "sfixed32", "sfixed64", "bool", "string", "bytes"]
MAP_KEYS = ["int32", "int64", "uint32", "uint64", "sint32", "sint64", "fixed32", "fixed64",
            "sfixed32", "sfixed64", "bool", "string"]
WRAPPERS = ["DoubleValue", "FloatValue", "Int64Value", "UInt64Value", "Int32Value", "UInt32Value",
            "BoolValue", "StringValue", "BytesValue"]
WKT_FILES = {
    "Timestamp": "timestamp", "Duration": "duration", "Empty": "empty", "Any": "any", "Struct": "struct",
    "Value": "struct", "ListValue": "struct", "FieldMask": "field_mask", "EnumValue": "type", "Type": "type",
}
for _w in WRAPPERS:
    WKT_FILES[_w] = "wrappers"

PKG_SEGS = ["a", "b", "foo", "bar_baz", "x1", "pkg", "sub"]
MSG_NAMES = ["Foo", "Bar", "Baz", "Item", "Node", "Tree", "Msg", "Outer", "Inner", "Type", "Field", "Message",
             "Enum", "HTTPRequest", "Foo2", "X1", "Data_Point", "Object", "Int", "Str", "Entry", "Timestamp",
             "Value", "Any", "Leaf", "Pair", "Config", "Request", "Reply",
             # word-boundary shapes: a name ending in a capital / digit, single capitals, acronyms — nested under each
             # other they only keep their boundary if the flattened class name is built from the dotted path
             "PlanB", "Point3D", "T", "V1", "M0", "FooA", "A", "IO", "B2B"]
ENUM_NAMES = ["Color", "Kind", "Status", "Mode", "Level", "HTTPCode", "E1", "Shape_Type", "State", "E", "T2", "KindB", "QoS"]
ENUM_WORDS = ["UNSPECIFIED", "RED", "GREEN", "BLUE", "ON", "OFF", "A", "B", "X1", "NONE", "FROM", "1ST", "lower", "Mixed"]
FIELD_NAMES = ["a", "b", "c", "value", "name", "id", "type", "list", "dict", "int", "str", "bytes", "bool", "float",
               "from", "class", "import", "def", "lambda", "global", "in", "is", "not", "pass", "none", "true",
               "fooBar", "foo_bar2", "FOO", "x1", "a_b", "ab", "address_line_1", "set", "map", "filter", "min",
               "max", "len", "print", "object", "property", "datetime", "timedelta", "key", "data", "count",
               "HTTPStatus", "camelCaseName", "with_", "x_y_z", "field1", "field_2"]
ONEOF_NAMES = ["kind", "choice", "payload", "one_of", "grp"]
COMMENTS = ["plain comment", "comment with \"quotes\" and 'apostrophes'", "multi\n line\n comment", "unicode: äöü ✓",
            "trailing backslash \\", "triple \"\"\" quotes", ""]


class TypeDecl:
    def __init__(self, kind, full, file_idx, path):
        self.kind, self.full, self.file_idx, self.path = kind, full, file_idx, path   # full: '.pkg.A.B'
        self.children = []      # nested TypeDecl
        self.values = []        # enums: [(name, number)]
        self.allow_alias = False


class Schema:
    def __init__(self):
        self.files = {}
        self.features = collections.Counter()
        self.filtered = collections.Counter()


class Gen:
    def __init__(self, rng, size=1.0, naming=None, absent=()):
        self.rng = rng
        self.size = size
        self.absent = set(absent)   # features left out of the WHOLE schema: "oneof", "optional", "repeated", "map"
        self.naming = naming     # object with cls(flat), fld(name), mem(name, enum): used only to stay inside the guards
        self.s = Schema()
        self.types = []          # all TypeDecl (messages + enums), all files
        self.file_pkgs = []
        self.file_tops = []
        self.imports = []        # per file: set of imported file names
        self.class_names = {}    # package -> set of python class names

    # ---------------------------------------------------------------- skeleton
    def pick_packages(self):
        rng = self.rng
        depth = rng.choice([0, 1, 1, 2, 2, 3])
        main = [rng.choice(PKG_SEGS) for _ in range(depth)]
        self.s.features["package_depth_%d" % depth] += 1
        pkgs = [main]
        ndeps = rng.choice([0, 0, 1, 1, 2])
        for _ in range(ndeps):
            rel = rng.choice(["same", "child", "parent", "cousin", "root", "grandchild", "unrelated"])
            if rel == "same":
                p = list(main)
            elif rel == "child":
                p = main + [rng.choice(PKG_SEGS)]
            elif rel == "grandchild":
                p = main + [rng.choice(PKG_SEGS), rng.choice(PKG_SEGS)]
            elif rel == "parent":
                p = main[:-1]
            elif rel == "cousin":
                p = main[:-1] + [rng.choice([s for s in PKG_SEGS if not main or s != main[-1]])]
            elif rel == "root":
                p = []
            else:
                p = [rng.choice(["zed", "other"]), rng.choice(PKG_SEGS)]
            self.s.features["dep_" + rel] += 1
            pkgs.append(p)
        # D20: alias collisions between packages whose segments contain '_' are C13's finding; keep
        # at most one underscore segment among the *distinct* dependency packages
        return pkgs

    def fresh(self, pool, used):
        rng = self.rng
        for _ in range(20):
            n = rng.choice(pool)
            if n not in used:
                used.add(n)
                return n
        n = rng.choice(pool) + str(len(used))
        used.add(n)
        return n

    def class_ok(self, pkg, path):
        """stay inside the no-flatten-collision guard (uses the naming functions only to filter)"""
        if self.naming is None:
            return True
        py = self.naming.cls("_" + "_".join(path))
        seen = self.class_names.setdefault(".".join(pkg), set())
        if py in seen or py in ("None", "True", "False", ""):
            self.s.filtered["class_name_collision"] += 1
            return False
        seen.add(py)
        return True

    def skeleton_msg(self, fi, pkg, path_prefix, depth, used):
        rng = self.rng
        for _ in range(10):
            name = self.fresh(MSG_NAMES, used)
            if self.class_ok(pkg, path_prefix + [name]):
                break
        else:
            return None
        path = path_prefix + [name]
        t = TypeDecl("message", "." + ".".join(pkg + path), fi, path)
        self.types.append(t)
        inner_used = set()
        if depth < 3:
            for _ in range(rng.choice([0, 0, 0, 1, 1, 2]) if depth < 2 else rng.choice([0, 0, 1])):
                c = self.skeleton_msg(fi, pkg, path, depth + 1, inner_used)
                if c:
                    t.children.append(c)
            for _ in range(rng.choice([0, 0, 1])):
                c = self.skeleton_enum(fi, pkg, path, inner_used)
                if c:
                    t.children.append(c)
        self.s.features["message_depth_%d" % depth] += 1
        return t

    def skeleton_enum(self, fi, pkg, path_prefix, used):
        rng = self.rng
        for _ in range(10):
            name = self.fresh(ENUM_NAMES, used)
            if self.class_ok(pkg, path_prefix + [name]):
                break
        else:
            return None
        path = path_prefix + [name]
        t = TypeDecl("enum", "." + ".".join(pkg + path), fi, path)
        self.types.append(t)
        self.s.features["enum_nested" if path_prefix else "enum_top"] += 1
        return t

    # ---------------------------------------------------------------- bodies
    def enum_body(self, t, scope_used, indent):
        rng = self.rng
        name = t.path[-1]
        prefix = self.snake_upper(name) + "_"
        n = rng.randint(1, 5)
        vals, nums, pynames = [], set(), set()
        style = rng.choice(["prefixed", "prefixed", "bare", "mixed"])
        self.s.features["enum_members_" + style] += 1
        for i in range(n):
            for _ in range(20):
                w = rng.choice(ENUM_WORDS) if i else rng.choice(["UNSPECIFIED", "NONE", "ZERO", "A"])
                pre = style == "prefixed" or (style == "mixed" and rng.random() < 0.5)
                if pre:
                    vn = prefix + w
                else:
                    if w[0].isdigit():
                        w = "N" + w
                    vn = w
                if vn in scope_used:
                    vn = vn + "_" + str(len(scope_used))
                py = self.naming.mem(vn, "_" + "_".join(t.path)) if self.naming else vn
                # protoc: names must stay distinct after stripping the enum-name prefix, ignoring case and '_'
                pk = vn[len(prefix):] if vn.upper().startswith(prefix) else vn
                pk = "protoc:" + pk.lower().replace("_", "")
                if vn not in scope_used and py not in pynames and pk not in pynames:
                    pynames.add(pk)
                    break
                self.s.filtered["enum_member_collision"] += 1
            else:
                continue
            scope_used.add(vn)
            pynames.add(py)
            if i == 0:
                num = 0
            else:
                r = rng.random()
                if r < 0.15 and nums:
                    num = rng.choice(sorted(nums))
                    t.allow_alias = True
                    self.s.features["enum_alias"] += 1
                elif r < 0.35:
                    num = -rng.choice([1, 2, 5, 2 ** 31])
                    self.s.features["enum_negative"] += 1
                elif r < 0.45:
                    num = rng.choice([2 ** 31 - 1, 1000, 65536])
                else:
                    num = i
                if num in nums and not t.allow_alias:
                    num = max(nums) + 1 if max(nums) + 1 < 2 ** 31 else i + 7
                    if num in nums:
                        continue
            nums.add(num)
            vals.append((vn, num))
        t.values = vals
        pad = "  " * indent
        out = [self.comment(pad) + "%senum %s {" % (pad, name)]
        if t.allow_alias:
            out.append(pad + "  option allow_alias = true;")
        for vn, num in vals:
            out.append(self.comment(pad + "  ") + "%s  %s = %d;%s" % (pad, vn, num, self.trailing()))
        out.append(pad + "}")
        return "\n".join(out)

    @staticmethod
    def snake_upper(name):
        out = []
        for i, c in enumerate(name):
            if c.isupper() and i and (name[i - 1].islower() or (i + 1 < len(name) and name[i + 1].islower())) and name[i - 1] != "_":
                out.append("_")
            out.append(c.upper())
        return "".join(out)

    def comment(self, pad):
        rng = self.rng
        r = rng.random()
        if r < 0.75:
            return ""
        c = rng.choice(COMMENTS)
        self.s.features["comment"] += 1
        if r < 0.85:
            return "".join("%s// %s\n" % (pad, ln) for ln in c.split("\n"))
        if r < 0.93:
            return "%s/* %s */\n" % (pad, c.replace("*/", "* /"))
        return "%s// detached\n\n%s// %s\n" % (pad, pad, c.split("\n")[0])

    def trailing(self):
        if self.rng.random() < 0.1:
            self.s.features["comment_trailing"] += 1
            return " // trailing " + self.rng.choice(["note", "\"q\"", "x"])
        return ""

    def visible_types(self, fi):
        """types a file may reference: its own and those of files it imports (all dependency files)"""
        return [t for t in self.types if t.file_idx == fi or fi == 0 or t.file_idx > fi]

    def field_type(self, fi, me, for_map_value=False, in_oneof=False):
        """returns (proto type text, feature tag, imported file or None)"""
        rng = self.rng
        r = rng.random()
        if r < 0.40:
            t = rng.choice(SCALARS)
            return t, "scalar_" + t, None
        if r < 0.52:
            es = [t for t in self.visible_types(fi) if t.kind == "enum"]
            if es:
                t = rng.choice(es)
                return t.full, "enum_ref" + ("_xpkg" if t.file_idx != fi else ""), t.file_idx
        if r < 0.78:
            ms = [t for t in self.visible_types(fi) if t.kind == "message"]
            if ms:
                if rng.random() < 0.2:
                    t = me
                    tag = "message_self_recursive"
                else:
                    t = rng.choice(ms)
                    tag = "message_ref" + ("_xpkg" if t.file_idx != fi else "") + ("_nested" if len(t.path) > 1 else "")
                return t.full, tag, t.file_idx
        if r < 0.86:
            w = rng.choice(WRAPPERS)
            if for_map_value and rng.random() < 0.8:
                w = "Timestamp"      # wrapper map values are a known finding: keep them rare
            return ".google.protobuf." + w, ("wrapper_" + w if w != "Timestamp" else "wkt_Timestamp"), "google/protobuf/%s.proto" % WKT_FILES[w]
        w = rng.choice(["Timestamp", "Duration", "Timestamp", "Duration", "Empty", "Any", "Struct", "Value", "ListValue",
                        "FieldMask", "EnumValue", "Type"])
        return ".google.protobuf." + w, "wkt_" + w, "google/protobuf/%s.proto" % WKT_FILES[w]

    def note_import(self, fi, dep):
        if dep is None or dep == fi:
            return
        self.imports[fi].add(dep)

    def message_body(self, t, fi, indent):
        rng = self.rng
        pad = "  " * indent
        name = t.path[-1]
        out = [self.comment(pad) + "%smessage %s {" % (pad, name)]
        if rng.random() < 0.04:
            out.append(pad + "  option deprecated = true;")
            self.s.features["deprecated_message"] += 1
        scope_used = set()   # enum value names live in the enclosing scope
        for c in t.children:
            if c.kind == "enum":
                out.append(self.enum_body(c, scope_used, indent + 1))
        for c in t.children:
            if c.kind == "message":
                out.append(self.message_body(c, fi, indent + 1))
        nfields = rng.choice([0, 1, 2, 3, 4, 5, 6, 8]) if self.size >= 1 else rng.choice([0, 1, 2, 3])
        used_names, used_py, used_nums, used_json = set(), set(), set(), set()
        child_simple = {c.path[-1] for c in t.children}

        def fname():
            for _ in range(40):
                n = rng.choice(FIELD_NAMES)
                if n in ("int", "str", "bytes", "bool", "float", "datetime", "timedelta") and rng.random() < 0.85:
                    continue     # D33 / D34 (known findings) make the whole package unimportable: keep them rare
                py = self.naming.fld(n) if self.naming else n
                js = self.json_name(n)
                entry = self.map_entry_name(n)
                if n in used_names or py in used_py or js in used_json:
                    self.s.filtered["field_name_collision"] += 1
                    continue
                if entry in child_simple or entry in {self.map_entry_name(x) for x in used_names}:
                    self.s.filtered["map_entry_name_clash"] += 1
                    continue
                used_names.add(n)
                used_py.add(py)
                used_json.add(js)
                if n != py:
                    self.s.features["field_name_recased_or_sanitised"] += 1
                return n
            n = "f%d" % len(used_names)
            used_names.add(n)
            used_py.add(n)
            used_json.add(n)
            return n

        def fnum():
            for _ in range(40):
                r = rng.random()
                n = rng.randint(1, 15) if r < 0.6 else rng.randint(16, 2047) if r < 0.85 else rng.choice(
                    [2048, 18999, 20000, 65535, 2 ** 29 - 1, 100000])
                if n not in used_nums:
                    used_nums.add(n)
                    return n
            n = max(used_nums) + 1
            used_nums.add(n)
            return n

        def opts(n):
            o = []
            if rng.random() < 0.04:
                o.append("deprecated = true")
                self.s.features["deprecated_field"] += 1
            if rng.random() < 0.04:
                jn = "json_" + n
                if jn not in used_json:
                    used_json.add(jn)
                    o.append('json_name = "%s"' % jn)
                    self.s.features["json_name"] += 1
            return " [%s]" % ", ".join(o) if o else ""

        i = 0
        while i < nfields:
            r = rng.random()
            if r < 0.12 and "oneof" not in self.absent:      # oneof
                on = self.fresh(ONEOF_NAMES, used_names)
                used_py.add(on)
                k = rng.randint(1, 4)
                out.append(self.comment(pad + "  ") + "%s  oneof %s {" % (pad, on))
                for _ in range(k):
                    ty, tag, dep = self.field_type(fi, t, in_oneof=True)
                    self.note_import(fi, dep)
                    n = fname()
                    out.append("%s    %s %s = %d%s;%s" % (pad, ty, n, fnum(), opts(n), self.trailing()))
                    self.s.features["oneof_member"] += 1
                    self.s.features["oneof_" + tag] += 1
                out.append(pad + "  }")
                self.s.features["oneof"] += 1
                i += k
                continue
            if 0.12 <= r < 0.30 and "map" not in self.absent:   # map
                kt = rng.choice(MAP_KEYS)
                vt, tag, dep = self.field_type(fi, t, for_map_value=True)
                self.note_import(fi, dep)
                n = fname()
                line = self.comment(pad + "  ") + "%s  map<%s, %s> %s = %d%s;%s" % (pad, kt, vt, n, fnum(), opts(n), self.trailing())
                # a sibling map whose entry name ENDS with this map's entry name (x_foo -> XFooEntry / foo -> FooEntry),
                # of another key and value type, before or after it
                tw = rng.choice(["x_", "my_", "a_"]) + n
                twpy, twjs = (self.naming.fld(tw) if self.naming else tw), self.json_name(tw)
                if rng.random() < 0.3 and n.isidentifier() and tw not in used_names and twpy not in used_py and twjs not in used_json \
                        and self.map_entry_name(tw) not in child_simple and self.map_entry_name(tw) not in {self.map_entry_name(x) for x in used_names}:
                    used_names.add(tw)
                    used_py.add(twpy)
                    used_json.add(twjs)
                    kt2 = rng.choice([k for k in MAP_KEYS if k != kt])
                    vt2 = rng.choice([v for v in ("string", "bool", "double", "bytes", "sint32") if v != vt])
                    twin = "%s  map<%s, %s> %s = %d;" % (pad, kt2, vt2, tw, fnum())
                    out += [twin, line] if rng.random() < 0.6 else [line, twin]
                    self.s.features["map_entry_suffix_twin"] += 1
                    self.s.features["map"] += 1
                    i += 1
                else:
                    out.append(line)
                self.s.features["map"] += 1
                self.s.features["map_key_" + kt] += 1
                self.s.features["map_value_" + tag] += 1
                i += 1
                continue
            ty, tag, dep = self.field_type(fi, t)
            self.note_import(fi, dep)
            n = fname()
            lab = rng.choice([x for x in ["", "", "", "optional ", "repeated ", "repeated "] if x.strip() not in self.absent])
            self.s.features[(lab.strip() or "singular") + "_" + tag] += 1
            self.s.features["label_" + (lab.strip() or "singular")] += 1
            out.append(self.comment(pad + "  ") + "%s  %s%s %s = %d%s;%s" % (pad, lab, ty, n, fnum(), opts(n), self.trailing()))
            i += 1
        if rng.random() < 0.05:
            out.append(pad + "  reserved 9000 to 9010;")
            self.s.features["reserved"] += 1
        out.append(pad + "}")
        return "\n".join(out)

    @staticmethod
    def json_name(n):
        out, cap = [], False
        for c in n:
            if c == "_":
                cap = True
            elif cap:
                out.append(c.upper())
                cap = False
            else:
                out.append(c)
        return "".join(out)

    @staticmethod
    def map_entry_name(n):
        out, cap = [], True
        for c in n:
            if c == "_":
                cap = True
            elif cap:
                out.append(c.upper())
                cap = False
            else:
                out.append(c)
        return "".join(out) + "Entry"

    # ---------------------------------------------------------------- whole schema
    def run(self):
        rng = self.rng
        pkgs = self.pick_packages()
        nfiles = len(pkgs)
        self.file_pkgs = pkgs
        self.imports = [set() for _ in pkgs]
        tops = []
        used_by_pkg = {}
        for fi, pkg in enumerate(pkgs):
            used = used_by_pkg.setdefault(".".join(pkg), set())
            mine = []
            nm = rng.choice([1, 2, 2, 3, 4]) if fi == 0 else rng.choice([1, 1, 2])
            ne = rng.choice([0, 1, 1, 2]) if fi == 0 else rng.choice([0, 1])
            for _ in range(ne):
                t = self.skeleton_enum(fi, pkg, [], used)
                if t:
                    mine.append(t)
            for _ in range(nm):
                t = self.skeleton_msg(fi, pkg, [], 0, used)
                if t:
                    mine.append(t)
            tops.append(mine)
        if len([t for t in self.types if t.kind == "message"]) >= 2:
            self.s.features["mutual_recursion_possible"] += 1
        names = ["main.proto"] + ["dep%d/d%d.proto" % (i, i) for i in range(1, nfiles)]
        bodies = []
        for fi in range(nfiles):
            scope_used = used_by_pkg.setdefault("values:" + ".".join(pkgs[fi]), set())
            parts = []
            for t in tops[fi]:
                if t.kind == "enum":
                    parts.append(self.enum_body(t, scope_used, 0))
                else:
                    parts.append(self.message_body(t, fi, 0))
            bodies.append(parts)
        for fi in range(nfiles):
            head = [self.comment("") + 'syntax = "proto3";', ""]
            if pkgs[fi]:
                head.append("package %s;" % ".".join(pkgs[fi]))
                head.append("")
            for dep in sorted(self.imports[fi], key=str):
                head.append('import "%s";' % (names[dep] if isinstance(dep, int) else dep))
            self.s.files[names[fi]] = "\n".join(head) + "\n\n" + "\n\n".join(bodies[fi]) + "\n"
        self.s.features["files_%d" % nfiles] += 1
        if len({".".join(p) for p in pkgs}) < nfiles:
            self.s.features["two_files_one_package"] += 1
        return self.s


ABSENT = [{"oneof"}, {"optional"}, {"oneof", "repeated", "map"}, {"map"}, {"repeated"}, {"oneof", "optional"}, {"oneof", "map"},
          {"optional", "repeated", "map"}, {"oneof", "repeated"}, {"repeated", "map"}, {"oneof", "optional", "repeated", "map"}]


def gen_schema(rng, size=1.0, naming=None, index=None):
    """`index`: position of the schema in the run — every third schema leaves a fixed subset of the features oneof /
    optional / repeated / map out of the whole schema (imports and helpers of the generated module are gated on
    "some message uses X")"""
    absent = ABSENT[(index // 3) % len(ABSENT)] if index is not None and index % 3 == 2 else ()
    g = Gen(rng, size, naming, absent)
    s = g.run()
    if absent:
        s.features["schema_without_" + "_".join(sorted(absent))] += 1
    return s


if __name__ == "__main__":
    import random
    import sys
    s = gen_schema(random.Random(int(sys.argv[1]) if len(sys.argv) > 1 else 0))
    for n, t in s.files.items():
        print("=== " + n)
        print(t)
    print(dict(s.features))
