"""C14 / C04, stage "pydict": the model's `toPyDict` / `fromPyDict` / `pyReads` (lean/BpModel/PyDict.lean) against the real
`Message.to_pydict` / `from_pydict` on generated values, and the round-trip oracle `Cls().from_pydict(m.to_pydict())`.

Per value (built by the constructor, or in place through nested access):
  * TOPYDICT  — `m.to_pydict(casing, include_default_values)` for both casings and both flags, canonicalised by the
    schema-directed text of props/c04.py (`canon_msg`: datetimes / timedeltas as µs, floats as bit patterns, enum members
    as numbers, bytes as hex, dict items in insertion order), against `toPyDict`; raised vs returned where it raises;
  * PYREADS   — the message AFTER `m.to_pydict()`: `is_set` of every field at every level the public API shows
    (`bpgen.obs_msg`) and `bytes(m)`, against `pyReads` (which slots the reads of to_pydict materialise);
  * FROMPYDICT — `Cls().from_pydict(d)` on the dict the real `to_pydict` returned (deep-copied), against `fromPyDict` on
    the canonical text of that dict: presence-level observation and bytes, or raised;
  * oracle (real code only, never the model): inside the decidable guards of `Bp.C14.from_pydict_to_pydict`
    (`WF PYOK` on the schema + casing, `WF WT` on the value) the round trip must not raise, must give a message equal to
    the original (`==`, both ways) with the same bytes and the same presence; `to_pydict` must not raise there either.
    Outside the guards failures are COUNTED per exclusion class, not reported (the witnesses of the exclusions are
    theorems of Props/C14PyDict.lean and are replayed by `replay_witnesses`).
"""
import copy

import betterproto
from betterproto import Casing

import bpgen
import wirecases as W
from common import is_err

CASINGS = [("camel", Casing.CAMEL), ("snake", Casing.SNAKE)]


def _c04():
    from props import c04
    return c04


def into_domain(schema):
    """rewrite the field kinds the round-trip theorem excludes (so that a good share of the batches is inside it)"""
    for m in schema:
        for f in m.fields:
            if f.ty == "message":
                if f.group is not None:
                    f.ty, f.wraps, f.kind = "int32", None, "u0"
                elif not f.wraps:
                    f.optional = False
                    if f.repeated and not f.kind.startswith("u"):
                        f.repeated = False
            if f.ty == "map":
                f.mapK = "string"
                if f.mapV == "bytes" or (f.mapV == "message" and not f.mapVKind.startswith("u")):
                    f.mapV = "int32"
            if f.wraps == "bytes":
                f.wraps = "string"
    return schema


class PBatch:
    def __init__(self, rng, sid, nvals, repaired):
        c04 = _c04()
        self.sid = sid
        schema = bpgen.random_schema(rng, features=bpgen.ALL_FEATURES if not repaired else bpgen.ALL_FEATURES - {"repwrapper"})
        schema = c04.rename_fields(rng, schema, 0.0 if repaired else 0.02)
        self.schema = into_domain(schema) if repaired else schema
        self.classes = bpgen.build_bp(self.schema)
        self.values = []
        for _ in range(nvals):
            ci = rng.randrange(len(self.schema))
            v = bpgen.gen_msg(rng, self.schema, ci, depth=rng.choice([1, 2, 3]))
            self.values.append(c04.canon_nan(c04.bias_defaults(rng, self.schema, v)))

    def schema_line(self):
        return bpgen.schema_line(self.sid, self.schema)

    def describe(self):
        return [[f.line() for f in m.fields] for m in self.schema]


def obs_after(m, schema, ci):
    try:
        return bpgen.obs_msg(m, schema, ci) + " | " + W.hexs(bytes(m))
    except Exception:
        return None


def obsp_result(m2, schema, ci):
    c04 = _c04()
    return c04.obs_result(m2, schema, ci)


def exclusion_class(schema):
    """which exclusion of the round-trip theorem a schema falls under (first that applies), or None"""
    for m in schema:
        for f in m.fields:
            if f.ty == "message" and f.group is not None:
                return "oneof-message-member"
            if f.ty == "message" and not f.wraps and f.optional:
                return "optional-message"
            if f.ty == "message" and not f.wraps and f.repeated and not f.kind.startswith("u"):
                return "repeated-timestamp-duration"
    return "json-guard"


def py_field_ok(f):
    """mirror of `fieldPyOk` (lean/BpModel/PyDict.lean); compared with the driver's answer on every batch"""
    if (f.repeated and f.optional) or (f.repeated and f.group is not None) or (f.optional and f.group is not None):
        return False
    if f.ty == "map":
        return (not f.repeated and not f.optional and f.group is None and not f.wraps and f.mapK == "string"
                and f.mapV not in ("bytes", "map") and (f.mapV != "message" or f.mapVKind.startswith("u")))
    if f.ty == "message":
        if f.wraps:
            return not f.repeated and not f.optional and f.wraps not in ("message", "map", "bytes") and f.group is None
        return f.group is None and not f.optional and not (f.repeated and not f.kind.startswith("u"))
    return not f.wraps


def py_schema_ok(schema, cname):
    c04 = _c04()
    return all(py_field_ok(f) and c04.key_invertible(f.name, cname) for m in schema for f in m.fields)


def oracle(chk, b, v, build, in_dom, inp):
    """the round trip on the real code; returns {casing: (dict or exception, result or exception)}"""
    from props.c01 import presence
    ci = v[1]
    cls = b.classes[ci]
    out = {}
    try:
        m0 = build()
        want_bytes = bytes(m0)
        want_pres = presence(build(), b.schema, ci)
    except Exception:
        chk.count("pydict_skipped_encode_raises")
        return out
    c04 = _c04()
    reflexive = not c04.has_nan_in_container(v)
    for cname, casing in CASINGS:
        dom = in_dom.get(cname, False)
        inp2 = dict(inp, casing=cname, stage="pydict")
        chk.count("pydict_in_domain" if dom else "pydict_out_of_domain")

        def bad(kind, detail):
            if dom:
                chk.fail(kind, inp2, detail)
            else:
                chk.count("pydict_outside_%s_%s" % (exclusion_class(b.schema), kind.split(":")[0]))
        try:
            d = build().to_pydict(casing=casing)
        except Exception as e:
            bad("to-pydict-raises", repr(e))
            out[cname] = (e, None)
            continue
        try:
            m2 = cls().from_pydict(copy.deepcopy(d))
        except Exception as e:
            bad("from-pydict-raises", "%r on %r" % (e, d))
            out[cname] = (d, e)
            continue
        out[cname] = (d, m2)
        try:
            eq = (m2 == m0 and m0 == m2) if reflexive else True
        except Exception as e:
            eq = repr(e)
        if eq is not True:
            bad("pydict-not-equal-after-roundtrip", "dict=%r result=%r" % (d, m2))
        try:
            b2 = bytes(m2)
        except Exception as e:
            b2 = e
        if b2 != want_bytes:
            bad("pydict-bytes-differ-after-roundtrip", "dict=%r want=%s got=%s" % (
                d, want_bytes.hex(), b2.hex() if isinstance(b2, bytes) else repr(b2)))
            continue
        try:
            p2 = presence(m2, b.schema, ci)
        except Exception as e:
            p2 = repr(e)
        if p2 != want_pres:
            bad("pydict-presence-differs-after-roundtrip", "dict=%r before=%r after=%r" % (d, want_pres, p2))
    return out


def correspond(chk, drv, b, items):
    """items: list of (term, build, ci, oracle results)"""
    c04 = _c04()
    lines, expect = [], []
    for t, build, ci, res in items:
        for cname, casing in CASINGS:
            for incl in (0, 1):
                try:
                    d = build().to_pydict(casing=casing, include_default_values=bool(incl))
                    want = c04.canon_msg(d, b.schema, ci)
                except RecursionError:
                    continue          # include_default_values on a recursive type: the real code does not terminate
                except Exception:
                    want = "ERR"
                lines.append("TOPYDICT %s %s %d %s" % (b.sid, cname, incl, t))
                expect.append(("to_pydict", want))
        # the instance after the reads of to_pydict()
        m = build()
        try:
            m.to_pydict()
            raised = False
        except Exception:
            raised = True
        if not raised:
            want = obs_after(m, b.schema, ci)
            if want is not None:
                lines.append("PYREADS %s %s" % (b.sid, t))
                expect.append(("reads of to_pydict", want))
        for cname, (d, m2) in res.items():
            if isinstance(d, Exception):
                continue
            jt = c04.canon_msg(d, b.schema, ci)
            if "RAW?" in jt or "k?" in jt:
                chk.count("pydict_corr_uncanonical")
                continue
            lines.append("FROMPYDICT %s %d %s" % (b.sid, ci, jt))
            expect.append(("from_pydict", obsp_result(m2, b.schema, ci)))
    replies = drv.ask(lines)
    for ln, (what, want), got in zip(lines, expect, replies):
        chk.count("pydict_corr_" + what.replace(" ", "_"))
        if what == "to_pydict" and "RAWP" in got:
            chk.count("pydict_corr_default_expansion_not_modelled")
            continue
        if want == "UNOBSERVABLE":
            continue
        if want.startswith("* | "):
            got = "* | " + got.split(" | ", 1)[-1]
        if want == "ERR":
            ok = is_err(got)
        elif want.endswith(" | ERR"):
            ok = got.startswith(want[:-3]) and is_err(got[len(want) - 3:])
        else:
            ok = got == want
        if not ok:
            chk.disagree("pydict: " + what, {"schema": b.schema_line(), "line": ln}, got, want)


def stage(chk, drv, nbatches, nvals=6):
    rng = chk.rng
    chk.extra["rule_pydict"] = (
        "stage pydict: random schemas (half of them rewritten into the domain of the round-trip theorem), values from constructors "
        "and filled in place; to_pydict for both casings and both flags vs toPyDict, the instance after to_pydict() vs pyReads "
        "(is_set at every level), from_pydict on the real dict vs fromPyDict; oracle: inside WF PYOK / WF WT the round trip "
        "Cls().from_pydict(m.to_pydict()) returns an equal message with the same bytes and presence")
    for bi in range(nbatches):
        b = PBatch(rng, "y%d" % bi, nvals, repaired=(bi % 2 == 0))
        okS = {c: py_schema_ok(b.schema, c) for c in ("camel", "snake")}
        okV = [True] * len(b.values)       # constructor-built values of bpgen are typed (the driver says so when it runs)
        if drv:
            assert drv.ask1(b.schema_line()) == "ok"
            r = drv.ask(["WF PYOK %s camel" % b.sid, "WF PYOK %s snake" % b.sid] +
                        ["WF WT %s %s" % (b.sid, bpgen.term(v)) for v in b.values])
            if okS != {"camel": r[0] == "1", "snake": r[1] == "1"}:
                chk.disagree("pydict: schema guard pyDictOk vs its Python mirror", {"schema": b.schema_line()}, r[:2], okS)
            okS = {"camel": r[0] == "1", "snake": r[1] == "1"}
            okV = [x == "1" for x in r[2:]]
        items = []
        for v, wt in zip(b.values, okV):
            ci = v[1]
            t = bpgen.term(v)

            def build(v=v):
                return bpgen.to_py(v, b.classes)
            inp = {"schema": b.describe(), "value": t}
            chk.case("pydict|" + b.schema_line() + t, not W.is_trivial(v), None)
            res = oracle(chk, b, v, build, {c: (okS.get(c, False) and wt) for c in ("camel", "snake")}, inp)
            items.append((t, build, ci, res))
        # messages filled IN PLACE: the holders are not marked, the `value != default` clause decides
        from props.c14 import build_in_place
        for v in b.values[:2]:
            sd = rng.getrandbits(32)
            try:
                _, raw = build_in_place(b, v, sd)
            except Exception as e:
                chk.count("pydict_inplace_skipped_" + type(e).__name__)
                continue

            def build2(v=v, sd=sd):
                return build_in_place(b, v, sd)[0]
            chk.count("pydict_inplace")
            items.append((raw, build2, v[1], {}))
        if drv and items:
            correspond(chk, drv, b, items)


# ---------------------------------------------------------------- the decided witnesses of Props/C14PyDict.lean, on the real code

def _classes(fields, sub=True):
    schema = [bpgen.M("M0", fields)] + ([bpgen.M("M1", [bpgen.F("x", 1, "int32")])] if sub else [])
    return bpgen.build_bp(schema)


def w_oneof_message():
    """pydict_oneof_message_witness: a oneof member of message type — from_pydict raises AttributeError"""
    C, Sub = _classes([bpgen.F("a", 1, "int32", group=0), bpgen.F("s", 2, "message", kind="u1", group=0)])
    d = C(s=Sub(x=1)).to_pydict()
    try:
        C().from_pydict(d)
        return False
    except AttributeError:
        return d == {"s": {"x": 1}}


def w_optional_message():
    """pydict_optional_message_witness: a proto3-optional sub-message — from_pydict raises AttributeError (None.from_pydict)"""
    C, Sub = _classes([bpgen.F("s", 1, "message", kind="u1", optional=True)])
    d = C(s=Sub(x=1)).to_pydict()
    try:
        C().from_pydict(d)
        return False
    except AttributeError:
        return d == {"s": {"x": 1}}


def w_optional_timestamp_dropped():
    """pydict_optional_timestamp_witness: an optional Timestamp at the epoch is encoded by bytes() but left out by to_pydict"""
    C, = _classes([bpgen.F("t", 1, "message", kind="ts", optional=True)], sub=False)
    m = C(t=bpgen.EPOCH)
    return bytes(m) == bytes([0x0a, 0x00]) and m.to_pydict() == {}


def w_repeated_timestamp():
    """pydict_repeated_timestamp_witness: to_pydict raises on a non-empty repeated Timestamp field"""
    C, = _classes([bpgen.F("t", 1, "message", kind="ts", repeated=True)], sub=False)
    try:
        C(t=[bpgen.EPOCH]).to_pydict()
        return False
    except AttributeError:
        return True


WITNESSES = {"oneof-message-member": w_oneof_message, "optional-message": w_optional_message,
             "optional-timestamp-dropped": w_optional_timestamp_dropped, "repeated-timestamp": w_repeated_timestamp}


def replay_witnesses(chk):
    """each exclusion of the round-trip theorem has a decided witness in Lean; here the same input on the real code.
    A witness that no longer reproduces means the code was repaired: the guard can shrink (reported as a note)."""
    for name, fn in WITNESSES.items():
        try:
            ok = fn()
        except Exception as e:
            ok = False
            chk.notes.append("pydict witness %s could not be replayed: %r" % (name, e))
        chk.count("pydict_witness_%s_%s" % (name, "reproduces" if ok else "GONE"))
        if not ok:
            chk.notes.append("pydict exclusion witness '%s' no longer reproduces on the real code" % name)
