"""An independent, spec-level re-encoder of protobuf wire data (C02).

Written from the protobuf encoding document; it shares no code with betterproto and uses
the reference implementation nowhere.  Input: a serialisation (normally the reference's
`SerializeToString`) and the abstract schema (bpgen.M / bpgen.F) of its message class.
The bytes are split into a tree of records (nested messages, map entries, wrappers,
Timestamp / Duration and packed chunks are opened up according to the schema), the tree
is rewritten into another LEGAL encoding of the same message, and written out again.

Rewrites (each keeps the meaning of the message, by the encoding document):
  permute      any interleaving that keeps the relative order of records with the same field
               number and of records of members of one oneof group
  unpack/pack  packed <-> unpacked repeated scalars
  chunks       one packed record split into several packed records (an empty chunk included)
  mix          packed chunks and unpacked elements mixed
  pad          non-minimal varints: tags and lengths up to 5 bytes (the reference reads them as
               32-bit varints and rejects longer ones), values and packed elements up to 10 bytes
  dup_scalar   an earlier record with a DIFFERENT value for a singular scalar field (last wins)
  dup_default  for an absent implicit-presence scalar: a non-default value followed by an
               explicit default value (last wins, so the field still holds its default)
  dup_oneof    earlier records of other members (or, for scalars, of the same member) of a oneof
               group whose selected member is on the wire (last wins)
  unknown      records with numbers the schema does not declare, all four wire types, anywhere
Never produced (not claimed by the property): a second record for a singular MESSAGE field
(the specification merges, betterproto replaces), groups, invalid UTF-8, truncated data.
"""
import struct

import bpgen
import wiresplit as WS

VARINT_T = set(bpgen.VARINT_T)
FIXED64_T = {"double", "fixed64", "sfixed64"}
FIXED32_T = {"float", "fixed32", "sfixed32"}
PACKABLE = VARINT_T | FIXED64_T | FIXED32_T
M64 = (1 << 64) - 1

SECNANOS = bpgen.M("SecNanos", [bpgen.F("seconds", 1, "int64"), bpgen.F("nanos", 2, "int32")])


def wt_of(ty):
    if ty in VARINT_T:
        return 0
    if ty in FIXED64_T:
        return 1
    if ty in FIXED32_T:
        return 5
    return 2


def wrapper_md(w):
    return bpgen.M("Wrap", [bpgen.F("value", 1, w)])


def entry_md(f):
    return bpgen.M("Entry", [bpgen.F("key", 1, f.mapK), bpgen.F("value", 2, f.mapV, kind=f.mapVKind)])


def sub_md(f, schema):
    """descriptor of the message a LEN record of field f carries (None: not a message)"""
    if f.ty == "map":
        return entry_md(f)
    if f.ty != "message":
        return None
    if f.wraps:
        return wrapper_md(f.wraps)
    if f.kind in ("ts", "dur"):
        return SECNANOS
    return schema[int(f.kind[1:])]


def field_of(md, num):
    for f in md.fields:
        if f.num == num:
            return f
    return None


class Rec:
    """one wire record.  wt 0: val; wt 1/5: payload; wt 2: exactly one of sub (nested records),
    elems (packed elements: ints for varint types, bytes for fixed ones) or payload (opaque)"""
    __slots__ = ("num", "wt", "val", "payload", "sub", "elems", "pt", "pl", "pv", "pe")

    def __init__(self, num, wt, val=None, payload=b"", sub=None, elems=None):
        self.num, self.wt, self.val, self.payload, self.sub, self.elems = num, wt, val, payload, sub, elems
        self.pt = self.pl = self.pv = 0          # extra bytes of the tag / length / value varints
        self.pe = None                           # extra bytes per packed varint element


def split_elems(ty, payload):
    out, i = [], 0
    if ty in VARINT_T:
        while i < len(payload):
            v, i = WS.read_varint(payload, i)
            out.append(v)
    else:
        w = 8 if ty in FIXED64_T else 4
        if len(payload) % w:
            raise ValueError("packed payload not a multiple of %d" % w)
        out = [payload[j:j + w] for j in range(0, len(payload), w)]
    return out


def parse_tree(data, md, schema):
    recs = []
    for num, wt, raw, payload, val in WS.split(data):
        f = field_of(md, num)
        r = Rec(num, wt, val, payload)
        if wt == 2 and f is not None:
            try:
                if f.repeated and f.ty in PACKABLE:
                    r.elems = split_elems(f.ty, payload)
                else:
                    sm = sub_md(f, schema)
                    if sm is not None:
                        r.sub = parse_tree(payload, sm, schema)
            except ValueError:
                r.elems = r.sub = None
        recs.append(r)
    return recs


def encode(recs, md=None):
    out = bytearray()
    for r in recs:
        out += WS.enc_varint(r.num << 3 | r.wt, r.pt)
        if r.wt == 0:
            out += WS.enc_varint(r.val, r.pv)
        elif r.wt in (1, 5):
            out += r.payload
        else:
            if r.sub is not None:
                body = encode(r.sub)
            elif r.elems is not None:
                if r.elems and isinstance(r.elems[0], int):
                    pe = r.pe or [0] * len(r.elems)
                    body = b"".join(WS.enc_varint(e, p) for e, p in zip(r.elems, pe))
                else:
                    body = b"".join(r.elems)
            else:
                body = r.payload
            out += WS.enc_varint(len(body), r.pl) + body
    return bytes(out)


# ------------------------------------------------------------------ spec-level scalar encoding

def wire_scalar(ty, v):
    """abstract scalar value (bpgen term) -> (varint value | None, payload bytes)"""
    k, x = v
    if ty in VARINT_T:
        if ty == "bool":
            return int(bool(x)), b""
        if ty in ("sint32", "sint64"):
            return ((x << 1) ^ (x >> 63)) & M64, b""
        return x & M64, b""                      # two's complement, sign-extended to 64 bits
    if ty == "float":
        return None, struct.pack("<I", x)
    if ty == "double":
        return None, struct.pack("<Q", x)
    if ty == "fixed32":
        return None, struct.pack("<I", x)
    if ty == "sfixed32":
        return None, struct.pack("<i", x)
    if ty == "fixed64":
        return None, struct.pack("<Q", x)
    if ty == "sfixed64":
        return None, struct.pack("<q", x)
    return None, bytes(x)                        # string (UTF-8 bytes) / bytes


DEFAULT = {"bool": ("b", False), "float": ("f32", 0), "double": ("f64", 0), "string": ("s", b""), "bytes": ("y", b"")}


def default_of(ty):
    return DEFAULT.get(ty, ("i", 0))


def scalar_rec(num, ty, v):
    val, payload = wire_scalar(ty, v)
    return Rec(num, wt_of(ty), val, payload)


def same_wire(a, b):
    return a.val == b.val and a.payload == b.payload


def fits(f, wt):
    return wt == wt_of(f.ty) or (wt == 2 and f.repeated and f.ty in PACKABLE)


def is_singular_scalar(f):
    return f.ty not in ("message", "map") and not f.repeated


# ------------------------------------------------------------------ rewrites

def _recurse(fn, recs, md, schema, rng, *a, skip_maps=False):
    for r in recs:
        if r.sub is not None:
            f = field_of(md, r.num)
            if skip_maps and f.ty == "map":
                continue
            r.sub = fn(r.sub, sub_md(f, schema), schema, rng, *a)


def class_key(md, r):
    f = field_of(md, r.num)
    if f is not None and f.group is not None:
        return ("g", f.group)
    return ("n", r.num)


def permute(recs, md, schema, rng):
    """a random interleaving that keeps the order inside every class"""
    _recurse(permute, recs, md, schema, rng)
    queues = {}
    for r in recs:
        queues.setdefault(class_key(md, r), []).append(r)
    keys = list(queues)
    out = []
    while keys:
        k = rng.choice(keys)
        out.append(queues[k].pop(0))
        if not queues[k]:
            keys.remove(k)
    return out


def repack(recs, md, schema, rng, mode):
    """re-emit the elements of every repeated packable field as: 'unpacked' singles,
    one 'packed' record, several packed 'chunks', or a 'mix' of chunks and singles"""
    _recurse(repack, recs, md, schema, rng, mode)
    out, done = [], set()
    for i, r in enumerate(recs):
        f = field_of(md, r.num)
        if f is None or not (f.repeated and f.ty in PACKABLE) or not fits(f, r.wt) or (r.wt == 2 and r.elems is None):
            out.append(r)
            continue
        if r.num in done:
            continue
        done.add(r.num)
        elems = []
        for q in recs[i:]:
            if q.num != r.num or not fits(f, q.wt):
                continue
            if q.wt == 2:
                if q.elems is None:
                    raise ValueError("opaque packed record")
                elems += q.elems
            else:
                elems.append(q.val if q.wt == 0 else q.payload)
        out += emit_elems(r.num, f.ty, elems, rng, mode)
    return out


def emit_elems(num, ty, elems, rng, mode):
    w = wt_of(ty)

    def single(e):
        return Rec(num, w, e, b"") if w == 0 else Rec(num, w, None, e)

    def chunk(es):
        return Rec(num, 2, None, b"", None, list(es))
    if mode == "unpacked":
        return [single(e) for e in elems]
    if mode == "packed":
        return [chunk(elems)]
    if mode == "chunks":
        if not elems:
            return [chunk([]), chunk([])]
        cuts = sorted(rng.sample(range(len(elems) + 1), min(len(elems) + 1, rng.choice([1, 1, 2, 3]))))
        parts, prev = [], 0
        for c in cuts + [len(elems)]:
            parts.append(elems[prev:c])
            prev = c
        if len(parts) < 2:
            parts.append([])
        return [chunk(p) for p in parts]
    # mix
    out, i = [], 0
    while i < len(elems):
        n = rng.choice([1, 1, 2, 3])
        if rng.random() < 0.5:
            out.append(chunk(elems[i:i + n]))
        else:
            out += [single(e) for e in elems[i:i + n]]
        i += n
    if rng.random() < 0.2:
        out.insert(rng.randrange(len(out) + 1), chunk([]))
    return out


def _room(v, limit):
    return max(0, limit - len(WS.enc_varint(v)))


def pad(recs, md, schema, rng, p=0.6):
    """non-minimal varints: tag / length up to 5 bytes, values and packed elements up to 10"""
    _recurse(pad, recs, md, schema, rng, p)
    for r in recs:
        if rng.random() < p:
            r.pt = rng.randint(0, _room(r.num << 3 | r.wt, 5))
        if r.wt == 0 and rng.random() < p:
            r.pv = rng.randint(0, _room(r.val, 10))
        if r.wt == 2:
            if r.elems and isinstance(r.elems[0], int):
                r.pe = [rng.randint(0, _room(e, 10)) if rng.random() < p else 0 for e in r.elems]
            if rng.random() < p:
                r.pl = rng.randint(0, _room(len(_body(r)), 5))
    return recs


def _body(r):
    if r.sub is not None:
        return encode(r.sub)
    if r.elems is not None:
        if r.elems and isinstance(r.elems[0], int):
            pe = r.pe or [0] * len(r.elems)
            return b"".join(WS.enc_varint(e, p) for e, p in zip(r.elems, pe))
        return b"".join(r.elems)
    return r.payload


def different_value(rng, ty, avoid):
    for _ in range(20):
        v = bpgen.gen_scalar(rng, ty)
        r = scalar_rec(0, ty, v)
        if avoid is None or not same_wire(r, avoid):
            return v
    return None


def dup_scalar(recs, md, schema, rng):
    """before a record of a singular scalar field (not in a oneof) put an earlier record of
    the same field with a different value"""
    _recurse(dup_scalar, recs, md, schema, rng)
    out = list(recs)
    for r in recs:
        f = field_of(md, r.num)
        if f is None or not is_singular_scalar(f) or f.group is not None or r.wt != wt_of(f.ty):
            continue
        if rng.random() < 0.3:
            continue
        for _ in range(rng.choice([1, 1, 2])):
            v = different_value(rng, f.ty, r)
            if v is None:
                continue
            pos = rng.randint(0, out.index(r))
            out.insert(pos, scalar_rec(f.num, f.ty, v))
    return out


def dup_default(recs, md, schema, rng):
    """for an ABSENT implicit-presence scalar: a non-default value, later an explicit default"""
    _recurse(dup_default, recs, md, schema, rng)
    out = list(recs)
    present = {r.num for r in recs}
    for f in md.fields:
        if not is_singular_scalar(f) or f.group is not None or f.optional or f.num in present:
            continue
        if rng.random() < 0.5:
            continue
        dflt = scalar_rec(f.num, f.ty, default_of(f.ty))
        v = different_value(rng, f.ty, dflt)
        if v is None:
            continue
        a = rng.randint(0, len(out))
        out.insert(a, scalar_rec(f.num, f.ty, v))
        b = rng.randint(a + 1, len(out))
        out.insert(b, dflt)
    return out


def dup_oneof(recs, md, schema, rng):
    """before the records of a oneof group put records of other members (any type; message
    members with an empty payload) or, for scalar members, of the same member"""
    _recurse(dup_oneof, recs, md, schema, rng)
    out = list(recs)
    for g in range(md.ngroups):
        members = [f for f in md.fields if f.group == g]
        on_wire = [r for r in recs if class_key(md, r) == ("g", g)]
        if not on_wire or not members:
            continue
        first = on_wire[0]
        have = {r.num for r in recs}
        for _ in range(rng.choice([1, 1, 2, 3])):
            f = rng.choice(members)
            if f.ty in ("message", "map"):
                if f.num in have:
                    continue            # a second record of a singular message field: merge semantics, not claimed
                new = Rec(f.num, 2, None, b"")
                have.add(f.num)
            else:
                v = different_value(rng, f.ty, first if first.num == f.num and first.wt == wt_of(f.ty) else None)
                if v is None:
                    continue
                new = scalar_rec(f.num, f.ty, v)
            out.insert(rng.randint(0, out.index(first)), new)
    return out


UNKNOWN_NUMS = [6, 8, 9, 11, 12, 13, 14, 99, 1000, 4000, 70000, 536870910]


def insert_unknown(recs, md, schema, rng):
    # not inside map entries: upb (the reference) moves a map entry that contains an unknown field
    # to the parent's unknown fields as a whole, so the map loses the entry there — a behaviour of
    # the oracle the encoding document does not describe; the property does not claim that case
    _recurse(insert_unknown, recs, md, schema, rng, skip_maps=True)
    declared = {f.num for f in md.fields}
    out = list(recs)
    for _ in range(rng.choice([1, 1, 2, 3])):
        num = rng.choice([n for n in UNKNOWN_NUMS if n not in declared])
        wt = rng.choice([0, 1, 2, 5])
        if wt == 0:
            r = Rec(num, 0, rng.choice([0, 1, 127, 128, rng.getrandbits(64)]))
        elif wt == 1:
            r = Rec(num, 1, None, bytes(rng.getrandbits(8) for _ in range(8)))
        elif wt == 5:
            r = Rec(num, 5, None, bytes(rng.getrandbits(8) for _ in range(4)))
        else:
            r = Rec(num, 2, None, bytes(rng.getrandbits(8) for _ in range(rng.choice([0, 1, 3, 7]))))
        out.insert(rng.randint(0, len(out)), r)
    return out


KINDS = ["permute", "unpack", "chunks", "mix", "pad", "dup_scalar", "dup_default", "dup_oneof", "unknown", "all"]


def rewrite(data, md, schema, rng, kind):
    recs = parse_tree(data, md, schema)
    if kind == "permute":
        recs = permute(recs, md, schema, rng)
    elif kind == "unpack":
        recs = repack(recs, md, schema, rng, "unpacked")
    elif kind == "pack":
        recs = repack(repack(recs, md, schema, rng, "unpacked"), md, schema, rng, "packed")
    elif kind == "chunks":
        recs = repack(recs, md, schema, rng, "chunks")
    elif kind == "mix":
        recs = repack(recs, md, schema, rng, "mix")
    elif kind == "pad":
        recs = pad(recs, md, schema, rng)
    elif kind == "dup_scalar":
        recs = dup_scalar(recs, md, schema, rng)
    elif kind == "dup_default":
        recs = dup_default(recs, md, schema, rng)
    elif kind == "dup_oneof":
        recs = dup_oneof(recs, md, schema, rng)
    elif kind == "unknown":
        recs = insert_unknown(recs, md, schema, rng)
    elif kind == "all":
        recs = repack(recs, md, schema, rng, "mix")
        recs = dup_scalar(recs, md, schema, rng)
        recs = dup_default(recs, md, schema, rng)
        recs = dup_oneof(recs, md, schema, rng)
        recs = insert_unknown(recs, md, schema, rng)
        recs = permute(recs, md, schema, rng)
        recs = pad(recs, md, schema, rng, 0.4)
    else:
        raise ValueError(kind)
    return encode(recs)


def alternatives(data, md, schema, rng, kinds=KINDS):
    """-> list of (kind, bytes) for the rewrites that changed the encoding"""
    out = []
    for k in kinds:
        alt = rewrite(data, md, schema, rng, k)
        if alt != data:
            out.append((k, alt))
    return out
