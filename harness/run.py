"""./check <ID> [--tier quick|thorough] [--replay file]   — the decision procedure of DESIGN.md §2."""
import importlib
import json
import os
import sys
import time
import traceback

sys.path.insert(0, os.path.dirname(os.path.abspath(__file__)))
import common as C  # noqa: E402


def usage():
    print("usage: check <C01..C20> [--tier quick|thorough] [--replay <file>]")
    sys.exit(2)


def main():
    args = sys.argv[1:]
    if not args:
        usage()
    pid = args[0].upper()
    tier = os.environ.get("VERIF_TIER", "quick")
    replay = None
    i = 1
    while i < len(args):
        if args[i] == "--tier":
            tier = args[i + 1]
            i += 2
        elif args[i] == "--replay":
            replay = args[i + 1]
            i += 2
        else:
            usage()
    if tier not in ("quick", "thorough"):
        usage()
    try:
        seed = int(os.environ.get("VERIF_SEED", "0"))
    except ValueError:
        seed = 0
    try:
        rc = run(pid, tier, seed, replay)
    except C.Timeout as e:
        print("TIMEOUT (infrastructure): %s" % e)
        rc = 2
    except SystemExit:
        raise
    except Exception:
        traceback.print_exc()
        print("INFRASTRUCTURE ERROR in check %s" % pid)
        rc = 2
    sys.exit(rc)


# validation of the trusted preludes (which script belongs to which property, and in which tier it runs)
PRELUDE_VALIDATION = {
    "C13": {"quick": ["check_srctemplate.py"]},
    "C06": {"quick": ["check_srcmeta.py"]},
    "C03": {"thorough": ["check_srcparser.py", "check_srctemplate.py"]},
    "C15": {"thorough": ["check_srctime.py", "check_srcleaf.py"]},
    "C19": {"thorough": ["check_regex.py"]},
}


def impl_frames(e):
    """frames of the traceback of e that lie inside the implementation under test (or code the plugin generated from it)"""
    tb = traceback.extract_tb(e.__traceback__)
    src = os.path.join(os.environ.get("VERIF_REPO", "/repo"), "src", "betterproto")
    inside = [fr for fr in tb if fr.filename.startswith(src) or "/bpgen_" in fr.filename or "/genroot_" in fr.filename]
    return tb, inside


def harness_input(e):
    """what the check was working on when the implementation raised: the local `inp` / `inp0` (the replayable input every
    check builds before it calls the implementation) of the innermost harness frame that has one"""
    t, best = e.__traceback__, None
    here = os.path.dirname(os.path.abspath(__file__))
    while t is not None:
        fn = t.tb_frame.f_code.co_filename
        if fn.startswith(here):
            loc = t.tb_frame.f_locals
            for name in ("inp", "inp0"):
                if isinstance(loc.get(name), dict):
                    best = (dict(loc[name]), "%s:%d" % (os.path.relpath(fn, here), t.tb_lineno))
        t = t.tb_next
    return best


def record_impl_exception(chk, e, inside):
    """an exception raised INSIDE the implementation while the harness handled a well-formed input is itself a failing
    input when the harness knows what it was working on (no operation the checks perform on generated inputs raises on
    the unchanged tree: every check runs clean there)"""
    hi = harness_input(e)
    if hi is None:
        return
    inp, where = hi
    try:
        json.dumps(inp)
    except Exception:
        inp = {k: repr(v)[:2000] for k, v in inp.items()}
    chk.fail("implementation-raised:" + type(e).__name__, dict(inp, harness_site=where),
             "%r at %s:%d" % (e, inside[-1].filename, inside[-1].lineno))


def run(pid, tier, seed, replay):
    C.check_import_path()
    mod = importlib.import_module("props." + pid.lower())
    chk = C.Check(pid, tier, seed)

    if replay:
        with open(replay if os.path.isabs(replay) else os.path.join(C.ROOT, replay)) as f:
            rp = json.load(f)
        if ((rp.get("failure") or {}).get("kind") or "").startswith("implementation-raised:"):
            # generic: the quick run of the check is repeated; it still fails iff the implementation still raises into it
            drv = None
            try:
                drv = C.Driver()
            except Exception:
                drv = None
            still = False
            try:
                mod.run(C.Check(pid, "quick", rp.get("seed", 0)), drv)
            except (C.Timeout, KeyboardInterrupt):
                raise
            except Exception as e:
                tb, inside = impl_frames(e)
                if not any(fr in inside for fr in tb[-6:]):
                    raise
                still = True
            finally:
                if drv:
                    drv.close()
        else:
            still = mod.replay(chk, rp)
        print("replay %s: %s" % (replay, "STILL FAILS" if still else "passes"))
        return 1 if still else 0

    # ---- 1/2: EXTRACT + PROVE
    targets = ["BpModel", "bpdriver"] + ["BpProofs.Props." + mod for mod in C.property_modules(pid)]
    built, log = C.lake_build(targets)
    driver_ok = True
    if built:
        proof = C.audit(pid)
        proof["built"] = True
    else:
        # which part broke? try the driver alone so that the correspondence can still run, and the property modules
        # one by one so that the theorems of the modules that still build stay discharged (e.g. the model-level
        # theorems when only the source-translation tie Props/<pid>Src no longer checks)
        drv_built, _ = C.lake_build(["bpdriver"])
        driver_ok = drv_built
        ok_mods = []
        for m in C.property_modules(pid):
            b, _l = C.lake_build(["BpProofs.Props." + m])
            if b:
                ok_mods.append(m)
        if ok_mods:
            proof = C.audit(pid, only=ok_mods)
            proof["built"] = True
        else:
            proof = {"built": False, "theorems": C.property_theorems(pid), "axioms": {}, "problems": []}
        proof["ok"] = False
        broken = [m for m in C.property_modules(pid) if m not in ok_mods]
        proof["problems"] = ["lake build failed for BpProofs.Props.%s" % m for m in broken] + \
                            [p for p in proof["problems"] if not p.startswith("no axiom report")] + ["build log: " + tail(log)]
        proof["log"] = tail(log, 6000)
    chk.proof = proof
    if any(m.endswith("Src") for m in C.property_modules(pid)):
        chk.extra["source_translation"] = C.source_translation_info()
    if tier == "thorough" and built:
        ok_lc, lc_log = leanchecker(pid)
        chk.extra["leanchecker"] = "ok" if ok_lc else "FAILED: " + tail(lc_log)
        if not ok_lc:
            proof["ok"] = False
            proof["problems"].append("leanchecker rejected the compiled proofs: " + tail(lc_log))

    # ---- 3..6: CORPUS, GENERATE, CORRESPOND, ORACLE
    drv = None
    if driver_ok:
        drv = C.Driver()
    try:
        mod.run(chk, drv)
    except (C.Timeout, KeyboardInterrupt):
        raise
    except Exception as e:
        # The harness itself fell over.  If the exception was RAISED INSIDE the implementation under test
        # (or inside code the plugin generated from it), the harness met a behaviour it has never seen on the
        # unchanged tree (every check runs clean there): the correspondence between model and implementation no
        # longer checks on that input.  That is treated like any other broken correspondence — search for a
        # concrete failing input, report `no-failing-input-found` otherwise — not as an infrastructure error,
        # which would let a changed implementation escape just by crashing the check.
        tb, inside = impl_frames(e)
        if not any(fr in inside for fr in tb[-6:]):
            raise
        record_impl_exception(chk, e, inside)
        detail = "".join(traceback.format_exception(type(e), e, e.__traceback__))[-3000:]
        chk.disagree("harness-stopped-by-implementation-exception", "%s raised at %s:%d" % (type(e).__name__, inside[-1].filename, inside[-1].lineno),
                     "no exception on the unchanged tree", detail)
        chk.notes.append("the run was cut short by an exception raised inside the implementation: " + repr(e)[:300])
    finally:
        if drv:
            drv.close()
    if not driver_ok:
        chk.disagree("driver", "bpdriver does not build against the current tables", "n/a", "n/a")

    # ---- 6b: VALIDATE THE TRUSTED PRELUDES of the source translators against the real Python / Jinja / plugin
    # (harness/tests/check_*.py evaluate the regenerated Lean definitions and the real code on the same inputs; a
    # mismatch means a prelude or a translator misrepresents the language, i.e. the tie no longer says what it claims)
    vals = PRELUDE_VALIDATION.get(pid, {})
    scripts = list(vals.get("quick", [])) + (list(vals.get("thorough", [])) if tier == "thorough" else [])
    if scripts and built:
        done = {}
        for sc in scripts:
            rc2, out2, _t = C.sh([C.PY, os.path.join(C.ROOT, "harness", "tests", sc)], timeout=1500,
                                 env=dict(os.environ, VERIF_SEED=str(seed)))
            err2 = ""
            last = (out2.strip().splitlines() or [""])[-1][:400]
            done[sc] = {"rc": rc2, "summary": last}
            if rc2 != 0:
                chk.disagree("prelude validation " + sc, "harness/tests/" + sc, "translated definitions (Lean)", (out2 + err2)[-1500:])
        chk.extra["explanation"] = (chk.extra.get("explanation", "") + " prelude validation: " +
                                    "; ".join("%s rc=%d %s" % (k, v["rc"], v["summary"]) for k, v in done.items())).strip()

    # ---- 7: CLASSIFY
    printed = []
    violations = []
    known_entries = chk.known
    for e in known_entries:
        st = e.get("status")
        if st == "known":
            still = mod.replay_known(chk, e) if hasattr(mod, "replay_known") else True
            if still:
                line = "KNOWN-FINDING: property=%s %s [%s]" % (pid, e["what"], e["id"])
                print(line)
                printed.append(e["id"])
            else:
                chk.notes.append("known finding %s no longer reproduces" % e["id"])
        elif st == "fixed":
            still = mod.replay_known(chk, e) if hasattr(mod, "replay_known") else False
            if still:
                chk.fail("regression-of-fixed-finding", e.get("witness"), "%s (%s) fails again" % (e["id"], e["what"]))
    chk.extra["known_printed"] = printed

    unlisted = []
    for fl in chk.oracle_failures:
        fid = mod.classify(fl, [e for e in known_entries if e.get("status") == "known"]) if hasattr(mod, "classify") else None
        if fid is None:
            unlisted.append(fl)
        else:
            chk.count("failures_matching_known_" + fid)

    proof_broken = not proof["ok"]
    corr_broken = bool(chk.corr_disagreements)

    # ---- 8: ESCALATE
    if (proof_broken or corr_broken) and not unlisted and hasattr(mod, "search"):
        print("note: %s; searching the implementation for a failing input" %
              ("proof obligations no longer check" if proof_broken else "model and implementation disagree"))
        before = len(chk.oracle_failures)
        try:
            mod.search(chk)
        except (C.Timeout, KeyboardInterrupt):
            raise
        except Exception as e:
            # as above: an exception raised inside the implementation under test (or code generated from it) while the
            # search runs is not an infrastructure error — the search ends here with what it found so far
            tb, inside = impl_frames(e)
            if not any(fr in inside for fr in tb[-6:]):
                raise
            record_impl_exception(chk, e, inside)
            chk.notes.append("the failing-input search was cut short by an exception raised inside the implementation: " + repr(e)[:300])
        for fl in chk.oracle_failures[before:]:
            fid = mod.classify(fl, [e for e in known_entries if e.get("status") == "known"]) if hasattr(mod, "classify") else None
            if fid is None:
                unlisted.append(fl)

    rc = 0
    if unlisted:
        # group by kind, one replay per kind (smallest input first)
        seen = set()
        for fl in unlisted:
            if fl["kind"] in seen:
                continue
            seen.add(fl["kind"])
            path = C.write_replay(pid, "counterexample", {"seed": seed, "tier": tier, "failure": fl,
                                                          "proof_problems": proof.get("problems"),
                                                          "correspondence": chk.corr_disagreements[:3]})
            print("VIOLATION property=%s replay=%s" % (pid, path))
            violations.append(path)
        rc = 1
    elif proof_broken or corr_broken:
        kind = "proof-broken" if proof_broken else "correspondence-broken"
        path = C.write_replay(pid, kind, {"seed": seed, "tier": tier,
                                          "theorems": proof.get("theorems"),
                                          "proof_problems": proof.get("problems"),
                                          "proof_log": proof.get("log", "")[-3000:],
                                          "correspondence": chk.corr_disagreements[:10]})
        print("VIOLATION property=%s replay=%s no-failing-input-found" % (pid, path))
        violations.append(path)
        rc = 1

    ev = C.write_evidence(chk, len(violations))
    cov = ev["coverage"]
    print("%s %s seed=%d: theorems %d/%d, evaluations=%d distinct_nontrivial=%d, corr_disagreements=%d, "
          "oracle_failures=%d (unlisted %d), %.1fs" %
          (pid, tier, seed, cov["discharged"], cov["obligations"], cov["evaluations"], cov["distinct_nontrivial"],
           len(chk.corr_disagreements), len(chk.oracle_failures), len(unlisted), ev["wall_s"]))
    for n in chk.notes:
        print("note: " + n)
    return rc


def tail(s, n=1500):
    return s[-n:]


def leanchecker(pid):
    mods = ["BpProofs.Props." + mod for mod in C.property_modules(pid)]
    try:
        rc, out, _ = C.sh(["lake", "env", "leanchecker"] + mods, cwd=C.LEAN, timeout=1500)
    except C.Timeout as e:
        return False, str(e)
    return rc == 0, out


if __name__ == "__main__":
    main()
