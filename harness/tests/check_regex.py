"""Validation of the TRUSTED regex semantics lean/BpProofs/PyRegex.lean against the real `re` module.

  /venv/bin/python harness/tests/check_regex.py [seed]

Cases (pattern, subject string):
  A. the two patterns of casing.py (as the translator reads them from VERIF_REPO or /repo) on EVERY string over
     {a, b, B, C, 1, _} up to length 5, on longer random strings and on strings with non-ASCII characters;
  B. fixed patterns exercising the empty-match rule of re.sub (`x*`, `(?!x)|a`, `a?`, `(^)?b*`, look-aheads …);
  C. random patterns of the supported syntax (rendered to a regex string, parsed back by the translator's parser
     `parse_regex`, so the parser is exercised too) on random strings.
Python side:  re.sub(pattern, lambda m: "<" + "|".join("~" if g is None else g for g in m.groups()) + ">", s)
Lean side:    PyRe.sub <parsed pattern> (the same replacement built from Match.group) s, evaluated by `lake env lean`.
Exit status 0 iff every case agrees; prints the counts.
"""
import itertools
import os
import random
import re
import subprocess
import sys
import tempfile

HERE = os.path.dirname(os.path.abspath(__file__))
sys.path.insert(0, os.path.join(HERE, ".."))
import extract_srccasing as X  # noqa: E402

LEAN = os.path.join(HERE, "..", "..", "lean")


def py_sub(pat, s):
    return re.sub(pat, lambda m: "<" + "|".join("~" if g is None else g for g in m.groups()) + ">", s)


def lean_lit(s):
    out = []
    for ch in s:
        if ch in '\\"':
            out.append("\\" + ch)
        else:
            out.append(ch)
    return '"%s"' % "".join(out)


# ------------------------------------------------------------------------------------------------ random patterns
SETS = ["[a]", "[ab]", "[^a]", "[a-b]", "[A-Z]", "[0-9]", "[^a-zA-Z0-9]", "[a-z]", "[^_]", "a", "b", "B", "_", "1"]


def rand_pattern(rng, depth):
    """regex string of the supported syntax"""
    def atom(d):
        r = rng.random()
        if d <= 0 or r < 0.35:
            return rng.choice(SETS)
        if r < 0.55:
            return "(" + alt(d - 1) + ")"
        if r < 0.62:
            return "(?:" + alt(d - 1) + ")"
        if r < 0.72:
            return "(?!" + alt(d - 1) + ")"
        if r < 0.78:
            return "^"
        return rng.choice(SETS)

    def item(d):
        r = rng.random()
        if r < 0.25:
            return rng.choice(SETS) + rng.choice("*+")
        a = atom(d)
        if r < 0.40:
            return a + "?"
        return a

    def seq(d):
        return "".join(item(d) for _ in range(rng.randint(1, 3)))

    def alt(d):
        return "|".join(seq(d) for _ in range(1 if rng.random() < 0.65 else 2))

    return alt(depth)


def rand_string(rng, alphabet, maxlen):
    return "".join(rng.choice(alphabet) for _ in range(rng.randint(0, maxlen)))


def casing_patterns():
    import ast
    tree = ast.parse(open(X.SRC).read())
    mod = X.Module(tree)
    pats = []
    for n in ast.walk(tree):
        if isinstance(n, ast.Call) and ast.unparse(n.func) == "re.sub":
            pats.append(X.Ctx(mod, "x", True, {}).pattern_string(n.args[0], {}))
    return pats


def main():
    seed = int(sys.argv[1]) if len(sys.argv) > 1 else int(os.environ.get("VERIF_SEED", "1"))
    rng = random.Random(seed)
    groups = []      # (pattern string, [subjects])
    # A
    small = ["".join(t) for n in range(6) for t in itertools.product("abBC1_", repeat=n)]
    long_ = [rand_string(rng, "abcXYZ019_-. éÉı\U0001f600", 14) for _ in range(1500)]
    cps = casing_patterns()
    for p in cps:
        groups.append((p, small + long_))
    # B
    fixed = ["x*", "(?!x)|a", "(?!1)|[ab]+", "a?", "(^)?b*", "(a)?b*", "(?!a)[ab]*", "(a|ab)(?!b)", "[ab]*(?!b)[ab]", "^a*", "(^)?(a*)(b+|[ab]*)",
             "(a*)(?!b)", "((a)|b)?(?!a)[ab]?", "(a+)?(b)?", "[ab]+(?![a-z])[0-9]*|[ab]*[0-9]*", "(?!(a))(b)|(a)"]
    subjects_b = ["".join(t) for n in range(6) for t in itertools.product("abx1", repeat=n)]
    for p in fixed:
        groups.append((p, subjects_b))
    groups.append(("x*", ["abxd"]))
    # C
    nrand = 0
    while nrand < 400:
        p = rand_pattern(rng, 3)
        try:
            X.parse_regex(p)
            re.compile(p)
        except (X.Unsupported, re.error):
            continue
        nrand += 1
        groups.append((p, [rand_string(rng, "abB1_", 7) for _ in range(12)]))

    # ---- Lean file
    lines = ["import BpProofs.PyPreludeCasing", "open Bp Bp.PyRe",
             "def showG (n : Nat) (mt : Match) : List Char :=",
             "  \"<\".toList ++ (\"|\".toList.intercalate ((List.range n).map fun i => match mt.group (i + 1) with",
             "    | none => \"~\".toList | some g => g)) ++ \">\".toList",
             "def run (r : Re) (n : Nat) (xs : List String) : IO Unit :=",
             "  for x in xs do IO.println (String.ofList (sub r (showG n) x.toList))"]
    expected = []
    for p, subs in groups:
        tree, n = X.parse_regex(p)
        # chunks keep each #eval term small
        for i in range(0, len(subs), 400):
            chunk = subs[i:i + 400]
            lines.append("#eval run %s %d [%s]" % (X.lean_re(tree), n, ", ".join(lean_lit(s) for s in chunk)))
            expected += [(p, s, py_sub(p, s)) for s in chunk]
    with tempfile.NamedTemporaryFile("w", suffix=".lean", delete=False, encoding="utf-8") as f:
        f.write("\n".join(lines) + "\n")
        path = f.name
    try:
        out = subprocess.run(["lake", "env", "lean", path], cwd=LEAN, capture_output=True, text=True, timeout=1500)
    finally:
        os.unlink(path)
    got = out.stdout.split("\n")
    if got and got[-1] == "":
        got.pop()
    if out.returncode != 0 or len(got) != len(expected):
        print("lean failed / wrong number of lines: rc=%d lines=%d expected=%d\n%s" % (
            out.returncode, len(got), len(expected), (out.stdout[-800:] + out.stderr[-800:])))
        return 2
    bad = [(p, s, e, g) for (p, s, e), g in zip(expected, got) if e != g]
    print("check_regex: seed=%d cases=%d (casing patterns %s: %d strings each; fixed patterns: %d; random patterns: %d) "
          "disagreements=%d" % (seed, len(expected), cps, len(small) + len(long_), len(fixed) + 1, nrand, len(bad)))
    for p, s, e, g in bad[:20]:
        print("  DISAGREE pattern=%r subject=%r python=%r lean=%r" % (p, s, e, g))
    return 1 if bad else 0


if __name__ == "__main__":
    sys.exit(main())
