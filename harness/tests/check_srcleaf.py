"""Validation of the JSON-leaf SOURCE TRANSLATOR (harness/extract_srcleaf.py) and of the prelude
lean/BpProofs/PyPreludeLeaf.lean against real Python.

The generated Lean functions of lean/BpProofs/Gen/SrcLeaf.lean (+ Gen/SrcTime.lean `duration_delta_to_json`) are
evaluated with `#eval` (one Lean file, `lake env lean`) on random and boundary inputs and compared with the real
`betterproto._Duration.delta_from_json / delta_to_json`, `_Timestamp.timestamp_to_json`, `_parse_float` run on the
corresponding Python objects.  This checks what the proofs cannot: that `Decimal(text)`, `Decimal * 10**6`, `int()`,
`value[:-1]`, the f-string rendering, `dt.microsecond` / `astimezone` / `replace` / `isoformat` (as a second count)
mean what the prelude says — including the datetimes with a SUB-SECOND utcoffset (finding D-p28a of docs/p28-notes.md).

    /venv/bin/python harness/tests/check_srcleaf.py [N per function, default 1500] [seed]
"""
import os
import random
import subprocess
import sys
import tempfile
from datetime import datetime, timedelta, timezone

HERE = os.path.dirname(os.path.abspath(__file__))
LEAN = os.path.normpath(os.path.join(HERE, "..", "..", "lean"))
if os.environ.get("VERIF_REPO"):
    sys.path.insert(0, os.path.join(os.environ["VERIF_REPO"], "src"))
import betterproto  # noqa: E402
from betterproto import _Duration, _Timestamp, _parse_float  # noqa: E402

US = timedelta(microseconds=1)
NAIVE0 = datetime(1970, 1, 1)
TS_MIN, TS_MAX = -62135596800000000 + 86400 * 10**6, 253402300799999999 - 86400 * 10**6


def lstr(s):
    return '"%s".toList' % s


def run_lean(lines):
    src = ["import BpProofs.Gen.SrcLeaf", "import BpProofs.Gen.SrcTime", "import BpProofs.Gen.SrcJson", "open Bp Bp.Py Bp.PyLeaf", "",
           "def p1 : Py.Res Int → String\n  | .ok a => s!\"ok {a}\"\n  | .raise _ => \"raise\"\n  | .diverge => \"diverge\"",
           "def pt : Py.Res TsText → String\n  | .ok ⟨⟨s⟩, none⟩ => s!\"ok {s}\"\n  | .ok ⟨⟨s⟩, some (w, d)⟩ => s!\"ok {s} {w} {d}\"\n  | .raise _ => \"raise\"\n  | .diverge => \"diverge\"",
           "def ps : Py.Res (Bool × Int × Int × Int) → String\n  | .ok t => String.ofList (renderSecs t)\n  | _ => \"fail\"",
           "def pv : Py.Res Val → String\n  | .ok (.f64 b) => s!\"f64 {b}\"\n  | .ok (.f32 b) => s!\"f32 {b}\"\n  | .ok _ => \"other\"\n  | .raise _ => \"raise\"\n  | .diverge => \"diverge\"",
           ""]
    src += ["#eval IO.println (%s)" % ln for ln in lines]
    with tempfile.NamedTemporaryFile("w", suffix=".lean", dir=LEAN, delete=False) as f:
        f.write("\n".join(src) + "\n")
        path = f.name
    try:
        r = subprocess.run(["lake", "env", "lean", path], cwd=LEAN, capture_output=True, text=True, timeout=1500)
    finally:
        os.unlink(path)
    out = [ln for ln in r.stdout.splitlines() if ln.strip()]
    if r.returncode != 0 or len(out) != len(lines):
        print(r.stdout[-3000:], r.stderr[-3000:])
        raise SystemExit("lean evaluation failed (%d lines for %d inputs)" % (len(out), len(lines)))
    return out


def main():
    n = int(sys.argv[1]) if len(sys.argv) > 1 else 1500
    rng = random.Random(int(sys.argv[2]) if len(sys.argv) > 2 else 0)
    lines, want, what = [], [], []

    # --- delta_to_json rendered to characters, and delta_from_json of it
    deltas = [0, 1, -1, 999, 1000, -1000, 10**6, -10**6, 1500000, -1500000, 315576000000 * 10**6, -315576000000 * 10**6,
              timedelta.max // US, timedelta.min // US]
    while len(deltas) < n:
        deltas.append(rng.choice((1, -1)) * rng.randint(0, 10 ** rng.randint(0, 19)))
    for us in deltas:
        td = us * US
        txt = _Duration.delta_to_json(td)
        lines.append("ps (Src.duration_delta_to_json (%d))" % us); want.append(txt); what.append(("delta_to_json chars", us))
        lines.append("p1 (Src.duration_delta_from_json %s)" % lstr(txt))
        want.append("ok %d" % (_Duration.delta_from_json(txt) // US)); what.append(("delta_from_json", txt))
    # --- delta_from_json on general literals (0..9 fractional digits, signs, bare point forms)
    lits = ["-1.000000999s", "1.9999999s", "+.5s", "5.s", "-0.0000009s", "0.000000001s", "-315576000000.999999999s", "1.5x", "007.250s"]
    while len(lits) < n:
        ip = str(rng.randint(0, 10 ** rng.randint(0, 12))) if rng.random() < 0.9 else ""
        fp = "".join(rng.choice("0123456789") for _ in range(rng.randint(0 if ip else 1, 9)))
        lits.append(rng.choice(("", "", "-", "+")) + ip + "." + fp + "s")
    for txt in lits:
        lines.append("p1 (Src.duration_delta_from_json %s)" % lstr(txt))
        want.append("ok %d" % (_Duration.delta_from_json(txt) // US)); what.append(("delta_from_json", txt))
    # --- timestamp_to_json, whole: naive, whole-second offsets, sub-second offsets
    for i in range(n):
        wall = rng.randint(TS_MIN, TS_MAX) if i % 3 else rng.choice((1, -1)) * rng.randint(0, 10**7)
        if i % 5 == 0:
            wall -= wall % 1000 if rng.random() < 0.5 else wall % 10**6
        k = rng.random()
        off = None if k < 0.2 else (rng.randint(-86399, 86399) * 10**6 if k < 0.7 else rng.randint(-86399999999, 86399999999))
        dt = NAIVE0 + wall * US
        if off is not None:
            dt = dt.replace(tzinfo=timezone(off * US))
        s = _Timestamp.timestamp_to_json(dt)
        assert s.endswith("Z")
        secs = (datetime.fromisoformat(s[:19]) - NAIVE0) // timedelta(seconds=1)
        frac = s[19:-1]
        exp = "ok %d" % secs if not frac else "ok %d %d %d" % (secs, len(frac) - 1, int(frac[1:]))
        lines.append("pt (Src.timestamp_to_json ⟨%d, %s⟩)" % (wall, "none" if off is None else "some (%d)" % off))
        want.append(exp); what.append(("timestamp_to_json", (wall, off, s)))
    # --- _parse_float on the three strings (both widths)
    import struct
    for k, txt in enumerate(("Infinity", "-Infinity", "NaN")):
        v = _parse_float(txt)
        lines.append("pv (Src.parse_float (floatOf .double) .double (.fstr %d))" % k)
        want.append("f64 %d" % struct.unpack("<Q", struct.pack("<d", v))[0]); what.append(("parse_float", txt))
        lines.append("pv (Src.parse_float (floatOf .float) .float (.fstr %d))" % k)
        want.append("f32 %d" % struct.unpack("<I", struct.pack("<f", v))[0]); what.append(("parse_float32", txt))
    got = run_lean(lines)
    bad = [(w, g, e) for w, g, e in zip(what, got, want) if g != e]
    for w, g, e in bad[:20]:
        print("MISMATCH", w, "lean:", g, "python:", e)
    print("check_srcleaf: %d evaluations, %d mismatches" % (len(lines), len(bad)))
    sys.exit(1 if bad else 0)


if __name__ == "__main__":
    main()
