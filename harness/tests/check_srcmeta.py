"""Validation of the TRUSTED part of the class-metadata / construction / defaults tie (harness/extract_srcmeta.py +
lean/BpProofs/PyPreludeMeta.lean) against the real implementation.

    /venv/bin/python harness/tests/check_srcmeta.py [N schemas, default 40] [seed]

For N random schemas (harness/bpgen.py `random_schema`, plus hand-made classes with a duplicated field number, empty
classes, groups with several members) the real dataclasses are built with the public field API (`build_bp`) and the
TRANSLATED functions of lean/BpProofs/Gen/SrcMeta.lean are evaluated (`lake env lean` on a scratch file of `#eval`s) on
the same descriptors.  Compared, per class:

  * `_betterproto.field_name_by_number`, `oneof_group_by_field`, `oneof_field_by_group` (member names, as a set),
    `meta_by_field_name` (key order), `sorted_field_names`, the KIND of every `default_gen[name]`, the kind of every
    `cls_by_field` entry — i.e. `ProtoClassMetadata.__init__` as translated, on the annotation `PyMeta.typeHint` gives
    each field, against the real `ProtoClassMetadata(cls)` on the annotation `build_bp` gives it;
  * `Cls()._get_field_default(name)` for every field;
  * `Cls(**kw)` for random keyword sets (several members of one group included): `_serialized_on_wire`,
    `_unknown_fields`, `_group_current`, which raw slots hold a sentinel.

It also replays, on the real code, the decided witnesses of Props/C06SrcMeta.lean / C07SrcMeta.lean:
duplicate number → last wins; unknown keyword → TypeError; a map field annotated `Dict` → `{}`;
`Cls(b=…, a=…)` selects the later DECLARED member and the other raises.
Exit status 1 on any disagreement.
"""
import os
import random
import subprocess
import sys
import tempfile

HERE = os.path.dirname(os.path.abspath(__file__))
sys.path.insert(0, os.path.join(HERE, ".."))
REPO = os.environ.get("VERIF_REPO", "/repo")
sys.path.insert(0, os.path.join(REPO, "src"))

import betterproto  # noqa: E402
import bpgen  # noqa: E402
from bpgen import F, M  # noqa: E402

LEAN = os.path.normpath(os.path.join(HERE, "..", "..", "lean"))


def lean_field(f):
    kind = {"ts": ".timestamp", "dur": ".duration"}.get
    def k(x):
        return kind(x) or ".user %d" % int(x[1:])
    return ('{ name := "%s", num := %d, ty := .%s, repeated := %s, optional := %s, group := %s, wraps := %s, kind := %s, '
            'mapK := .%s, mapV := .%s, mapVKind := %s }') % (
        f.name, f.num, f.ty, str(f.repeated).lower(), str(f.optional).lower(),
        "none" if f.group is None else "some %d" % f.group, "none" if not f.wraps else "some .%s" % f.wraps, k(f.kind),
        f.mapK, f.mapV, k(f.mapVKind))


def lean_schema(schema):
    return "[" + ", ".join("{ fields := [%s], nGroups := %d }" % (", ".join(lean_field(f) for f in m.fields), m.ngroups)
                           for m in schema) + "]"


PRELUDE = """import BpProofs.SrcTieMetaInit
open Bp Bp.PyMeta Bp.SrcMeta Bp.SrcTieMeta
def showTObj : TObj → String
  | .int => "int" | .float => "float" | .str => "str" | .bytes => "bytes" | .bool => "bool" | .noneType => "NoneType"
  | .list => "list" | .dict => "dict" | .union => "Union" | .datetime => "datetime" | .timedelta => "timedelta"
  | .enum _ => "enum" | .message c => s!"M{c}"
def showHint : Hint → String
  | .obj o => showTObj o
  | .generic o _ => "generic:" ++ showTObj o
  | .union310 _ => "union310"
def showGen : DefGen → String
  | .callable t => showHint t
  | .tryValue _ => "try_value"
  | .datetimeDefaultGen => "datetime_default_gen"
def showKey : ClsKey → String
  | .name n => s!"{n}"
  | .dotValue n => s!"{n}.value"
def showCls : ClsVal → String
  | .hint t => showHint t
  | .entry kt kf vt vf => s!"Entry({showHint kt}#{kf.num}:{repr kf.ty},{showHint vt}#{vf.num}:{repr vf.ty})"
def showVal : Val → String
  | .ph => "PH" | .none => "None" | .int v => s!"int:{v}" | .bool b => s!"bool:{b}" | .f32 b => s!"float:{b}" | .f64 b => s!"float:{b}"
  | .str s => s!"str:{s.length}" | .byt s => s!"bytes:{s.length}" | .ts us => s!"ts:{us}" | .dur us => s!"dur:{us}"
  | .list xs => s!"list:{xs.length}" | .dict ks _ => s!"dict:{ks.length}"
  | .msg c sl ow unk cur => s!"msg:{c}:{ow}:{unk.length}:{sl.length}:{cur.length}"
def showMeta (fs : List FieldD) : String :=
  match ProtoClassMetadata.init fs with
  | .ok M =>
    s!"byNumber={M.field_name_by_number}|groupByField={M.oneof_group_by_field}|fieldByGroup={M.oneof_field_by_group.map fun p => (p.1, p.2.map (·.1))}"
    ++ s!"|names={M.meta_by_field_name.map (·.1)}|sorted={M.sorted_field_names}|gen={M.default_gen.map fun p => (p.1, showGen p.2)}"
    ++ s!"|cls={M.cls_by_field.map fun p => (showKey p.1, showCls p.2)}"
  | .raise e => s!"RAISE {repr e}"
  | .diverge => "DIVERGE"
def showDefaults (S : Schema) (c : Nat) : String :=
  toString ((List.range (fieldsOf S c).length).map fun k =>
    match get_field_default (fun c' => constructVal S c' []) (fieldsOf S c) { slots := [] } k with
    | .ok v => showVal v
    | .raise e => s!"RAISE {repr e}"
    | .diverge => "DIVERGE")
def showConstruct (S : Schema) (c : Nat) (kw : List (Nat × Val)) : String :=
  match constructInst S c kw with
  | .ok i => s!"ow={i.onWire}|unk={i.unknown.map (·.length)}|gc={i.groupCurrent}|slots={i.slots.map showVal}"
  | .raise e => s!"RAISE {repr e}"
  | .diverge => "DIVERGE"
"""


def py_gen_kind(g, classes):
    import datetime as dt
    if g is list:
        return "list"
    if g is dict:
        return "dict"
    if g is type(None):
        return "NoneType"
    if g is betterproto.datetime_default_gen:
        return "datetime_default_gen"
    if getattr(g, "__name__", None) == "try_value":
        return "try_value"
    if g is dt.timedelta:
        return "timedelta"
    if g in classes:
        return "M%d" % classes.index(g)
    return {int: "int", float: "float", str: "str", bytes: "bytes", bool: "bool"}.get(g, repr(g))


def py_cls_kind(c, classes):
    import datetime as dt
    import typing
    if c in classes:
        return "M%d" % classes.index(c)
    if isinstance(c, type) and issubclass(c, betterproto.Enum):
        return "enum"
    if c is dt.datetime:
        return "datetime"
    if c is dt.timedelta:
        return "timedelta"
    if isinstance(c, type) and issubclass(c, betterproto.Message) and c.__name__ == "Entry":
        import dataclasses
        fs = dataclasses.fields(c)
        hints = typing.get_type_hints(c)

        def ty(x):
            return "Bp.PType." + x
        return "Entry(%s#%d:%s,%s#%d:%s)" % (
            py_cls_kind(hints["key"], classes), fs[0].metadata["betterproto"].number, ty(fs[0].metadata["betterproto"].proto_type),
            py_cls_kind(hints["value"], classes), fs[1].metadata["betterproto"].number, ty(fs[1].metadata["betterproto"].proto_type))
    if typing.get_origin(c) is typing.Union:
        return "generic:Union"
    if typing.get_origin(c) is list:
        return "generic:list"
    return {int: "int", float: "float", str: "str", bytes: "bytes", bool: "bool"}.get(c, repr(c))


def py_val(v):
    import datetime as dt
    if v is betterproto.PLACEHOLDER:
        return "PH"
    if v is None:
        return "None"
    if isinstance(v, bool):
        return "bool:%s" % str(v).lower()
    if isinstance(v, int):
        return "int:%d" % int(v)
    if isinstance(v, float):
        return "float:0" if v == 0.0 else "float:%r" % v
    if isinstance(v, str):
        return "str:%d" % len(v.encode())
    if isinstance(v, bytes):
        return "bytes:%d" % len(v)
    if isinstance(v, dt.datetime):
        return "ts:%d" % ((v - bpgen.EPOCH) // bpgen.US)
    if isinstance(v, dt.timedelta):
        return "dur:%d" % (v // bpgen.US)
    if isinstance(v, list):
        return "list:%d" % len(v)
    if isinstance(v, dict):
        return "dict:%d" % len(v)
    if isinstance(v, betterproto.Message):
        cls = type(v)
        return "msg:%s:%s:%d:%d:%d" % (cls.__name__[1:], str(v._serialized_on_wire).lower(), len(v._unknown_fields),
                                      len(cls._betterproto.meta_by_field_name), len(cls._bpgen_groups))
    return repr(v)


def lean_list(xs):
    return "[" + ", ".join(xs) + "]"


def py_meta(cls, m, classes):
    bp = cls._betterproto
    idx = {f.name: i for i, f in enumerate(m.fields)}
    gidx = lambda g: int(g[1:])
    by_number = lean_list("(%d, %d)" % (n, idx[name]) for n, name in bp.field_name_by_number.items())
    gbf = lean_list("(%d, %d)" % (idx[name], gidx(g)) for name, g in bp.oneof_group_by_field.items())
    fbg = lean_list("(%d, %s)" % (gidx(g), lean_list(str(i) for i in sorted(idx[f.name] for f in fs)))
                    for g, fs in bp.oneof_field_by_group.items())
    names = lean_list(str(idx[n]) for n in bp.meta_by_field_name)
    srt = lean_list(str(idx[n]) for n in bp.sorted_field_names)
    gen = lean_list("(%d, %s)" % (idx[n], py_gen_kind(g, classes)) for n, g in bp.default_gen.items())

    def key(k):
        return "%d.value" % idx[k[:-6]] if k.endswith(".value") else str(idx[k])
    cl = lean_list("(%s, %s)" % (key(k), py_cls_kind(c, classes)) for k, c in bp.cls_by_field.items())
    return "byNumber=%s|groupByField=%s|fieldByGroup=%s|names=%s|sorted=%s|gen=%s|cls=%s" % (by_number, gbf, fbg, names, srt, gen, cl)


def gen_kw(rng, m):
    """random constructor arguments: (lean text, python kwargs) — scalar / string / bytes / bool fields only"""
    lean, py = [], {}
    cand = [(i, f) for i, f in enumerate(m.fields) if f.ty not in ("message", "map") and not f.repeated]
    rng.shuffle(cand)
    for i, f in cand[:rng.randrange(0, len(cand) + 1)]:
        zero = rng.random() < 0.4
        if f.ty == "bool":
            v, lv = (False, ".bool false") if zero else (True, ".bool true")
        elif f.ty == "string":
            v, lv = ("", ".str []") if zero else ("h", ".str [104]")
        elif f.ty == "bytes":
            v, lv = (b"", ".byt []") if zero else (b"h", ".byt [104]")
        elif f.ty in ("float", "double"):
            v, lv = (0.0, ".f64 0") if zero else (None, None)
            if v is None:
                continue
        else:
            v, lv = (0, ".int 0") if zero else (7, ".int 7")
        if f.optional and rng.random() < 0.2:
            v, lv = None, ".none"
        lean.append("(%d, %s)" % (i, lv))
        py[f.name] = v
    return "[" + ", ".join(lean) + "]", py


def py_construct(cls, m, kw):
    try:
        o = cls(**kw)
    except Exception as e:       # noqa: BLE001
        return "RAISE " + type(e).__name__
    idx = {f.name: i for i, f in enumerate(m.fields)}
    gc = lean_list("(%d, %s)" % (int(g[1:]), "none" if n is None else "some %d" % idx[n]) for g, n in o._group_current.items())
    slots = []
    for f in m.fields:
        v = object.__getattribute__(o, f.name)
        if isinstance(v, float):
            slots.append("float:0")
        else:
            slots.append(py_val(v))
    return "ow=some %s|unk=some %d|gc=some %s|slots=%s" % (str(o._serialized_on_wire).lower(), len(o._unknown_fields), gc, lean_list(slots))


def handmade():
    return [
        [M("M0", [F("a", 1, "int32"), F("b", 2, "int32"), F("c", 1, "string")])],
        [M("M0", [])],
        [M("M0", [F("a", 1, "int32", group=0), F("b", 2, "string", group=0), F("c", 3, "bool", group=0), F("d", 4, "int64", optional=True),
                  F("e", 5, "sint32", group=1), F("g", 6, "bytes", group=1)], 2)],
        [M("M0", [F("m", 1, "map", mapK="string", mapV="message", mapVKind="u0"), F("r", 2, "message", kind="u0", repeated=True),
                  F("w", 3, "message", wraps="double"), F("rw", 4, "message", wraps="int32", repeated=True),
                  F("t", 5, "message", kind="ts"), F("d", 6, "message", kind="dur", optional=True), F("e", 7, "enum"),
                  F("me", 8, "map", mapK="int32", mapV="enum")])],
    ]


def replay_witnesses():
    bad = []
    # duplicate number: the last declaration wins
    (c,) = bpgen.build_bp([M("M0", [F("a", 1, "int32"), F("b", 2, "int32"), F("c", 1, "string")])])
    if c._betterproto.field_name_by_number != {1: "c", 2: "b"} or c._betterproto.sorted_field_names != ("c", "b"):
        bad.append("duplicate number: %r %r" % (c._betterproto.field_name_by_number, c._betterproto.sorted_field_names))
    # unknown keyword: TypeError (the model's `construct` ignores it)
    (c,) = bpgen.build_bp([M("M0", [F("a", 1, "int32")])])
    try:
        c(zzz=7)
        bad.append("unknown keyword accepted")
    except TypeError:
        pass
    # a map field (annotated Dict whatever `repeated` says): default {}
    (c,) = bpgen.build_bp([M("M0", [F("m", 1, "map", repeated=True)])])
    if c()._get_field_default("m") != {}:
        bad.append("repeated map default: %r" % (c()._get_field_default("m"),))
    # several members of one group: the later DECLARED one is selected, whatever the argument order; the other raises
    (c,) = bpgen.build_bp([M("M0", [F("a", 1, "int32", group=0), F("b", 2, "string", group=0)], 1)])
    for o in (c(b="h", a=0), c(a=0, b="h")):
        if betterproto.which_one_of(o, "g0")[0] != "b":
            bad.append("several members: selected %r" % (betterproto.which_one_of(o, "g0"),))
        try:
            o.a
            bad.append("several members: the unselected member is readable")
        except AttributeError:
            pass
        if object.__getattribute__(o, "a") != 0:
            bad.append("several members: raw value of the unselected member is gone")
    return bad


def main():
    n = int(sys.argv[1]) if len(sys.argv) > 1 else 40
    seed = int(sys.argv[2]) if len(sys.argv) > 2 else int(os.environ.get("VERIF_SEED", "0"))
    rng = random.Random(seed)
    schemas = handmade() + [bpgen.random_schema(rng) for _ in range(n)]
    lines, expect, what = [PRELUDE], [], []
    for si, schema in enumerate(schemas):
        classes = bpgen.build_bp(schema)
        for cls, m in zip(classes, schema):
            cls._bpgen_groups = range(m.ngroups)
        lines.append("def S%d : Schema := %s" % (si, lean_schema(schema)))
        for ci, (cls, m) in enumerate(zip(classes, schema)):
            lines.append("#eval IO.println (showMeta (fieldsOf S%d %d))" % (si, ci))
            expect.append(py_meta(cls, m, classes))
            what.append("schema %d class %d metadata: %s" % (si, ci, bpgen.schema_line("s", schema)))
            lines.append("#eval IO.println (showDefaults S%d %d)" % (si, ci))
            o = cls()
            expect.append(lean_list(py_val(o._get_field_default(f.name)) for f in m.fields))
            what.append("schema %d class %d defaults: %s" % (si, ci, bpgen.schema_line("s", schema)))
            for _ in range(3):
                lkw, pkw = gen_kw(rng, m)
                lines.append("#eval IO.println (showConstruct S%d %d %s)" % (si, ci, lkw))
                expect.append(py_construct(cls, m, pkw))
                what.append("schema %d class %d construct %r: %s" % (si, ci, pkw, bpgen.schema_line("s", schema)))
    with tempfile.NamedTemporaryFile("w", suffix=".lean", delete=False) as f:
        f.write("\n".join(lines) + "\n")
        path = f.name
    try:
        r = subprocess.run(["lake", "env", "lean", path], cwd=LEAN, capture_output=True, text=True, timeout=1800)
    finally:
        os.unlink(path)
    out = [ln for ln in r.stdout.split("\n") if ln.strip()]
    bad = replay_witnesses()
    if r.returncode != 0 or len(out) != len(expect):
        print(r.stdout[-3000:], r.stderr[-3000:])
        print("check_srcmeta: the Lean side did not evaluate (%d lines for %d cases)" % (len(out), len(expect)))
        return 1
    norm = lambda s: s.replace(" ", "").replace("(", "").replace(")", "")
    for got, want, w in zip(out, expect, what):
        if norm(got) != norm(want):
            bad.append("%s\n   translated: %s\n   real:       %s" % (w, got, want))
    print("check_srcmeta: seed=%d schemas=%d comparisons=%d (metadata, defaults, 3 constructor calls per class) + 4 witness replays, %d disagreements"
          % (seed, len(schemas), len(expect), len(bad)))
    for b in bad[:20]:
        print("  DISAGREE " + b)
    return 1 if bad else 0


if __name__ == "__main__":
    sys.exit(main())
