"""Validation of the plugin/parser.py SOURCE TRANSLATOR (harness/extract_srcparser.py) against the real plugin.

Random CodeGeneratorRequests (several files, shared / nested / empty / google.protobuf packages; messages nested to
depth 4 with enums, scalar / map / oneof / proto3-optional fields, real messages NAMED like map entries; services;
every option combination incl. two typing options and unknown words) are built twice: as objects of betterproto's own
descriptor classes and as Lean terms of `Py.Prs.FileD`.  The REAL `traverse` and `generate_code` of the working tree
are run on the former (with `outputfile_compiler` replaced by a recorder of the OutputTemplate objects, so neither Jinja
nor ruff runs), the TRANSLATED ones of lean/BpProofs/Gen/SrcParser.lean on the latter (`#eval`), and everything
observable is compared: the (name, path) pairs `traverse` yields; the names of the response files (module files in
order, `__init__.py` files as a set); per module its input files, flags, typing compiler class and, in order, every
registered message (name, path, and per field: compiler class, name, path), enum, service and method.
This checks what the proofs cannot: that the translator and lean/BpProofs/PyPreludeParser.lean (generators as lists of
snapshots, `item.name = …`, constructions as registrations, dict / pathlib / set) mean what Python does.

    /venv/bin/python harness/tests/check_srcparser.py [N requests, default 60] [seed]
"""
import json
import os
import random
import subprocess
import sys
import tempfile

HERE = os.path.dirname(os.path.abspath(__file__))
LEAN = os.path.normpath(os.path.join(HERE, "..", "..", "lean"))
if os.environ.get("VERIF_REPO"):
    sys.path.insert(0, os.path.join(os.environ["VERIF_REPO"], "src"))
import betterproto  # noqa: E402,F401
from betterproto.lib.google.protobuf import (  # noqa: E402
    DescriptorProto, EnumDescriptorProto, EnumValueDescriptorProto, FieldDescriptorProto, FileDescriptorProto,
    MessageOptions, MethodDescriptorProto, OneofDescriptorProto, ServiceDescriptorProto)
from betterproto.lib.google.protobuf.compiler import CodeGeneratorRequest  # noqa: E402
from betterproto.plugin import models, parser  # noqa: E402

models.monkey_patch_oneof_index()
NAMES = ["Foo", "Bar", "Baz", "TagsEntry", "AEntry", "Q", "foo_bar", "X1"]
PKGS = ["", "p", "p.q", "p.q.r", "a", "google.protobuf", "p"]
OPTS = ["", "INCLUDE_GOOGLE", "pydantic_dataclasses", "typing.direct", "typing.root", "typing.310", "typing.foo",
        "typing.310,typing.root", "pydantic_dataclasses,typing.310,INCLUDE_GOOGLE", "INCLUDE_GOOGLE,other"]


# ---------------------------------------------------------------- random schema trees (plain data)
def gen_enum(rng):
    return {"name": rng.choice(NAMES) + str(rng.randrange(3)), "values": [("V%d" % i, rng.randint(-2, 5)) for i in range(rng.randint(1, 3))]}


def gen_msg(rng, depth, full):
    name = rng.choice(NAMES) + str(rng.randrange(3))
    me = full + "." + name
    m = {"name": name, "fields": [], "nested": [], "enums": [], "oneofs": [], "map_entry": False}
    if depth < 4:
        for _ in range(rng.choice((0, 0, 1, 2))):
            m["nested"].append(gen_msg(rng, depth + 1, me))
    for _ in range(rng.choice((0, 0, 1, 2))):
        m["enums"].append(gen_enum(rng))
    num = 1
    for _ in range(rng.randint(0, 4)):
        kind = rng.choice(("scalar", "scalar", "map", "oneof", "optional", "repeated"))
        fname = "f%d" % num
        f = {"name": fname, "number": num, "label": 1, "type": rng.choice((5, 9, 8, 3)), "type_name": "",
             "oneof_index": None, "proto3_optional": False}
        if kind == "map":
            ename = fname.capitalize() + "Entry"
            m["nested"].append({"name": ename, "fields": [
                {"name": "key", "number": 1, "label": 1, "type": 9, "type_name": "", "oneof_index": None, "proto3_optional": False},
                {"name": "value", "number": 2, "label": 1, "type": 5, "type_name": "", "oneof_index": None, "proto3_optional": False}],
                "nested": [], "enums": [], "oneofs": [], "map_entry": True})
            f.update(label=3, type=11, type_name=me + "." + ename)
        elif kind == "oneof":
            if not m["oneofs"] or rng.random() < 0.3:
                m["oneofs"].append("grp%d" % len(m["oneofs"]))
            f["oneof_index"] = rng.randrange(len(m["oneofs"]))
        elif kind == "optional":
            m["oneofs"].append("_" + fname)
            f.update(oneof_index=len(m["oneofs"]) - 1, proto3_optional=True)
        elif kind == "repeated":
            f["label"] = 3
        m["fields"].append(f)
        num += 1
    rng.shuffle(m["nested"])
    return m


def gen_file(rng, i):
    pkg = rng.choice(PKGS)
    full = "." + pkg if pkg else ""
    return {"name": "f%d.proto" % i, "package": pkg,
            "messages": [gen_msg(rng, 1, full) for _ in range(rng.randint(0, 3))],
            "enums": [gen_enum(rng) for _ in range(rng.choice((0, 1, 2)))],
            "services": [{"name": "S%d" % j, "methods": ["M%d" % k for k in range(rng.randint(0, 3))]}
                         for j in range(rng.choice((0, 0, 1, 2)))]}


# ---------------------------------------------------------------- the real objects
def real_msg(m):
    return DescriptorProto(
        name=m["name"],
        field=[FieldDescriptorProto(name=f["name"], number=f["number"], label=f["label"], type=f["type"],
                                    type_name=f["type_name"], proto3_optional=f["proto3_optional"],
                                    **({} if f["oneof_index"] is None else {"oneof_index": f["oneof_index"]}))
               for f in m["fields"]],
        nested_type=[real_msg(n) for n in m["nested"]],
        enum_type=[real_enum(e) for e in m["enums"]],
        oneof_decl=[OneofDescriptorProto(name=o) for o in m["oneofs"]],
        options=MessageOptions(map_entry=m["map_entry"]))


def real_enum(e):
    return EnumDescriptorProto(name=e["name"], value=[EnumValueDescriptorProto(name=n, number=v) for n, v in e["values"]])


def real_file(f):
    return FileDescriptorProto(
        name=f["name"], package=f["package"], message_type=[real_msg(m) for m in f["messages"]],
        enum_type=[real_enum(e) for e in f["enums"]],
        service=[ServiceDescriptorProto(name=s["name"], method=[
            MethodDescriptorProto(name=n, input_type=".google.protobuf.Empty", output_type=".google.protobuf.Empty")
            for n in s["methods"]]) for s in f["services"]])


def observe_template(t):
    def msg(m):
        return {"name": m.proto_obj.name, "path": list(m.path),
                "fields": [[type(f).__name__, f.proto_obj.name, list(f.path)] for f in m.fields]}
    return {"inputs": [f.name for f in t.input_files], "pkgobj": t.package_proto_obj.name, "output": t.output,
            "pydantic": t.pydantic_dataclasses, "tc": type(t.typing_compiler).__name__,
            "messages": [msg(m) for m in t.messages],
            "enums": [[e.proto_obj.name, list(e.path)] for e in t.enums],
            "services": [[s.proto_obj.name, list(s.path), [[m.proto_obj.name, list(m.path)] for m in s.methods]]
                         for s in t.services]}


def real_run(files, opt):
    trav = [[[it.name, list(p)] for it, p in parser.traverse(real_file(f))] for f in files]
    seen = []

    def record(output_file):
        seen.append(output_file)
        return ""
    saved = parser.outputfile_compiler
    parser.outputfile_compiler = record
    cwd = os.getcwd()
    tmp = tempfile.mkdtemp()
    os.chdir(tmp)                      # `exists()` looks at the working directory: an empty one
    try:
        try:
            resp = parser.generate_code(CodeGeneratorRequest(parameter=opt, proto_file=[real_file(f) for f in files]))
        except ValueError:
            return trav, "raise value"
    finally:
        parser.outputfile_compiler = saved
        os.chdir(cwd)
        os.rmdir(tmp)
    mods = [f.name for f in resp.file[:len(seen)]]
    inits = sorted(f.name for f in resp.file[len(seen):])
    return trav, {"feature": int(resp.supported_features), "modules": mods, "inits": inits,
                  "templates": [observe_template(t) for t in seen]}


# ---------------------------------------------------------------- the Lean terms
def ls(s):
    return '"%s".toList' % s


def lean_field(f):
    lab = {1: ".optional", 2: ".required", 3: ".repeated"}[f["label"]]
    oi = "none" if f["oneof_index"] is None else "some %d" % f["oneof_index"]
    return "{ name := %s, number := %d, label := %s, type := %d, typeName := %s, oneofIndex := %s, proto3Optional := %s }" % (
        ls(f["name"]), f["number"], lab, f["type"], ls(f["type_name"]), oi, str(f["proto3_optional"]).lower())


def lean_enum(e):
    return "{ name := %s, values := [%s] }" % (ls(e["name"]), ", ".join("(%s, (%d : Int))" % (ls(n), v) for n, v in e["values"]))


def lean_msg(m):
    return "(Plugin.MsgP.mk %s [%s] [%s] [%s] [%s] %s)" % (
        ls(m["name"]), ", ".join(lean_field(f) for f in m["fields"]), ", ".join(lean_msg(n) for n in m["nested"]),
        ", ".join(lean_enum(e) for e in m["enums"]), ", ".join(ls(o) for o in m["oneofs"]), str(m["map_entry"]).lower())


def lean_file(f):
    svcs = ", ".join("{ name := %s, method := [%s] }" % (ls(s["name"]), ", ".join("{ name := %s }" % ls(n) for n in s["methods"]))
                     for s in f["services"])
    return "({ name := %s, package := %s, messages := [%s], enums := [%s], services := [%s] } : Py.Prs.FileD)" % (
        ls(f["name"]), ls(f["package"]), ", ".join(lean_msg(m) for m in f["messages"]),
        ", ".join(lean_enum(e) for e in f["enums"]), svcs)


PRELUDE = r'''import BpProofs.Gen.SrcParser
open Bp Bp.Py Bp.Py.Prs Bp.Plugin
def js (s : List Char) : String := "\"" ++ String.mk s ++ "\""
def jl (xs : List String) : String := "[" ++ String.intercalate ", " xs ++ "]"
def jp (p : List Int) : String := jl (p.map toString)
def clsName : FieldCls → String
  | .FieldCompiler => "FieldCompiler" | .OneOfFieldCompiler => "OneOfFieldCompiler"
  | .PydanticOneOfFieldCompiler => "PydanticOneOfFieldCompiler" | .MapEntryCompiler => "MapEntryCompiler"
def tcName : Py.Plg.TC → String
  | .direct _ => "DirectImportTypingCompiler" | .typingImport _ => "TypingImportTypingCompiler"
  | .noTyping310 _ => "NoTyping310TypingCompiler"
def showTrav (r : Res (List (DItem × List Int))) : String :=
  match r with
  | .ok ys => jl (ys.map fun y => jl [js (itemName y.1), jp y.2])
  | .raise _ => "\"raise\"" | .diverge => "\"diverge\""
/-- the registrations of one OutputTemplate, grouped as models.py's `__post_init__` methods group them -/
def fieldsOf (c : MsgC) (bs : List Built) : List String :=
  bs.filterMap fun b => match b with
    | .field cls par f p => if par.path = c.path then some (jl [js (clsName cls).toList, js f.name, jp p]) else none
    | _ => none
def methodsOf (c : SvcC) (bs : List Built) : List String :=
  bs.filterMap fun b => match b with
    | .method par m p => if par.path = c.path && par.proto_obj.name = c.proto_obj.name then some (jl [js m.name, jp p]) else none
    | _ => none
/-- the list cut at every registration of the given kind: (that registration, what follows up to the next one) -/
def segments (isHead : Built → Bool) : List Built → List (Built × List Built)
  | [] => []
  | b :: r =>
    let rest := segments isHead r
    if isHead b then (b, r.takeWhile (fun x => !isHead x)) :: rest else rest
def showTpl (t : OutTpl) : String :=
  let enums := t.built.filterMap fun b => match b with
    | .enum e p => some (jl [js e.name, jp p]) | _ => none
  let msgs := (segments (fun b => match b with | .message _ => true | _ => false) t.built).filterMap fun (b, mine) =>
    match b with
    | .message c => some ("{\"name\": " ++ js c.proto_obj.name ++ ", \"path\": " ++ jp c.path ++ ", \"fields\": "
        ++ jl (fieldsOf c mine) ++ "}")
    | _ => none
  let svcs := (segments (fun b => match b with | .service _ => true | _ => false) t.built).filterMap fun (b, mine) =>
    match b with
    | .service c => some (jl [js c.proto_obj.name, jp c.path, jl (methodsOf c mine)])
    | _ => none
  "{\"inputs\": " ++ jl (t.input_files.map fun f => js f.name) ++ ", \"pkgobj\": " ++ js t.package_proto_obj.name
    ++ ", \"output\": " ++ toString t.output ++ ", \"pydantic\": " ++ toString t.pydantic_dataclasses
    ++ ", \"tc\": " ++ js (tcName t.typing_compiler).toList ++ ", \"messages\": " ++ jl msgs
    ++ ", \"enums\": " ++ jl enums ++ ", \"services\": " ++ jl svcs ++ "}"
def showGen (r : Res Response) : String :=
  match r with
  | .ok resp =>
    let mods := resp.file.filter (·.content.isSome)
    let inits := resp.file.filter (·.content.isNone)
    "{\"feature\": " ++ js (resp.supported_features.getD []) ++ ", \"modules\": " ++ jl (mods.map fun f => js f.name)
      ++ ", \"inits\": " ++ jl (inits.map fun f => js f.name) ++ ", \"templates\": "
      ++ jl (mods.filterMap fun f => f.content.map showTpl) ++ "}"
  | .raise .value => "\"raise value\"" | .raise _ => "\"raise other\"" | .diverge => "\"diverge\""
'''


def lean_run(cases):
    src = [PRELUDE]
    for files, opt in cases:
        src.append('#eval IO.println ("T " ++ jl [%s])' % ", ".join(
            "showTrav (Src.Parser.traverse 8 %s)" % lean_file(f) for f in files))
        src.append('#eval IO.println ("G " ++ showGen (Src.Parser.generate_code 8 (fun _ => false) { parameter := %s, proto_file := [%s] }))'
                   % (ls(opt), ", ".join(lean_file(f) for f in files)))
    with tempfile.NamedTemporaryFile("w", suffix=".lean", delete=False) as f:
        f.write("\n".join(src) + "\n")
        path = f.name
    try:
        r = subprocess.run(["lake", "env", "lean", path], cwd=LEAN, capture_output=True, text=True, timeout=2400)
    finally:
        os.unlink(path)
    if r.returncode != 0:
        raise SystemExit("lean failed:\n" + r.stdout[-3000:] + r.stderr[-3000:])
    out = [l for l in r.stdout.splitlines() if l.startswith(("T ", "G "))]
    return [(json.loads(out[2 * i][2:]), json.loads(out[2 * i + 1][2:])) for i in range(len(cases))]


def main():
    n = int(sys.argv[1]) if len(sys.argv) > 1 else 60
    rng = random.Random(int(sys.argv[2]) if len(sys.argv) > 2 else 20260930)
    r = subprocess.run(["lake", "build", "BpProofs.Gen.SrcParser"], cwd=LEAN, capture_output=True, text=True, timeout=1800)
    if r.returncode != 0:
        raise SystemExit("lake build BpProofs.Gen.SrcParser failed (translation failed?):\n" + r.stdout[-3000:])
    cases = []
    for i in range(n):
        files = [gen_file(rng, j) for j in range(rng.randint(1, 4))]
        cases.append((files, rng.choice(OPTS)))
    lean = lean_run(cases)
    bad, stats = [], {"items": 0, "modules": 0, "raise": 0, "fields": 0, "nested_deep": 0, "shared_pkg": 0}
    for (files, opt), (ltrav, lgen) in zip(cases, lean):
        rtrav, rgen = real_run(files, opt)
        if rtrav != ltrav:
            bad.append(("traverse", opt, rtrav, ltrav))
        stats["items"] += sum(len(t) for t in rtrav)
        stats["nested_deep"] += sum(1 for t in rtrav for _, p in t if len(p) >= 6)
        if isinstance(rgen, dict):
            rgen = dict(rgen, feature={1: "FEATURE_PROTO3_OPTIONAL"}.get(rgen["feature"], str(rgen["feature"])))
            lg = dict(lgen, inits=sorted(lgen["inits"])) if isinstance(lgen, dict) else lgen
            # the real response lists only the written modules; their templates were recorded in the same order
            stats["modules"] += len(rgen["modules"])
            stats["fields"] += sum(len(m["fields"]) for t in rgen["templates"] for m in t["messages"])
            stats["shared_pkg"] += sum(1 for t in rgen["templates"] if len(t["inputs"]) > 1)
        else:
            lg = lgen
            stats["raise"] += 1
        if rgen != lg:
            bad.append(("generate_code", opt, rgen, lg))
    print("check_srcparser: %d requests, %s, %d mismatches" % (n, stats, len(bad)))
    for b in bad[:5]:
        print("MISMATCH", b[0], "options=%r" % b[1])
        print("  real:", json.dumps(b[2])[:1500])
        print("  lean:", json.dumps(b[3])[:1500])
    sys.exit(1 if bad else 0)


if __name__ == "__main__":
    main()
