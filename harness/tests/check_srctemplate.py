"""Validation of the Jinja-template SOURCE TRANSLATOR (harness/extract_srctemplate.py) + lean/BpProofs/PyPreludeTemplate.lean
against the REAL Jinja2.

Random small contexts (fake `output_file` objects carrying exactly the attributes of the translator's SCHEMA: 0..3 enums /
messages / services, 0..3 entries / fields / methods each, every streaming combination, empty and non-empty comments,
import SETS of 0..4 names including names that differ only in case, a fake typing compiler whose methods wrap their
arguments so that every call site is visible) are rendered twice:

  * by the real templates of the working tree, through an Environment built as compiler.py builds it
    (`header.render(output_file=ctx) + body.render(output_file=ctx)`, before ruff);
  * by `Tpl.text (Src.render_module ctx)` of lean/BpProofs/Gen/SrcTemplate.lean (`#eval`, same context as a Lean term;
    sets are given to Lean as the list in the iteration order Python's set has in this process).

The two strings must be equal for every context.

    /venv/bin/python harness/tests/check_srctemplate.py [N contexts, default 40] [seed]
"""
import os
import random
import subprocess
import sys
import tempfile
from types import SimpleNamespace as NS

HERE = os.path.dirname(os.path.abspath(__file__))
LEAN = os.path.normpath(os.path.join(HERE, "..", "..", "lean"))
sys.path.insert(0, os.path.join(HERE, ".."))
import jinja2  # noqa: E402
from extract_srctemplate import TPL_DIR, lean_string  # noqa: E402

IMPORT_NAMES = ["from .. import Money as _Money__", "from .. import money as _money__", "from . import b",
                "import betterproto.lib.google.protobuf as betterproto_lib_google_protobuf", "from ... import a as ___a__",
                "Zeta", "alpha", "Alpha", "beta", "_x", "datetime", "timedelta", "warnings", "builtins"]
WORDS = ["Foo", "bar_baz", "X1", "Q", "list_", "Outer", "thing"]
COMMENTS = ["", '    """\n    A comment.\n    """', "    # c"]


class FakeTC:
    def __init__(self, r):
        self._imports = {} if r.random() < 0.4 else {"typing": None}
        self._lines = [r.choice(["import typing", "from typing import (", "    Optional,", ")"])
                       for _ in range(r.randrange(0, 4))]

    def optional(self, t): return "OPT<%s>" % t
    def dict(self, k, v): return "DICT<%s;%s>" % (k, v)
    def union(self, a, b): return '"UNION<%s;%s>"' % (a, b)
    def iterable(self, t): return "IT<%s>" % t
    def async_iterable(self, t): return "AIT<%s>" % t
    def async_iterator(self, t): return '"AITER<%s>"' % t
    def imports(self): return self._imports
    def import_lines(self): return iter(self._lines)


def rset(r):
    return set(r.sample(IMPORT_NAMES, r.randrange(0, 5)))


def gen_ctx(r):
    def word():
        return r.choice(WORDS) + str(r.randrange(0, 9))
    enums = [NS(py_name=word(), comment=r.choice(COMMENTS),
                entries=[NS(name=word().upper(), value=r.randrange(-5, 300), comment=r.choice(COMMENTS))
                         for _ in range(r.randrange(0, 4))]) for _ in range(r.randrange(0, 3))]
    messages = []
    for _ in range(r.randrange(0, 4)):
        fields = [NS(get_field_string=(lambda s: (lambda: s))("%s: int = betterproto.int32_field(%d)" % (word(), i + 1)),
                     comment=r.choice(COMMENTS)) for i in range(r.randrange(0, 4))]
        dep = [word() for _ in range(r.randrange(0, 3))]
        messages.append(NS(py_name=word(), comment=r.choice(COMMENTS), fields=fields, deprecated=r.random() < 0.3,
                           has_deprecated_fields=bool(dep) if r.random() < 0.9 else not dep,
                           deprecated_fields=dep, has_oneof_fields=r.random() < 0.5))
    services = []
    for _ in range(r.randrange(0, 3)):
        methods = []
        for _ in range(r.randrange(0, 5)):
            methods.append(NS(py_name=word(), comment=r.choice(COMMENTS), route="/p.S/" + word(),
                              client_streaming=r.random() < 0.5, server_streaming=r.random() < 0.5,
                              py_input_message_param=word(), py_input_message_type=r.choice(["In", "_a__.In", '"Q"']),
                              py_output_message_type=r.choice(["Out", "b.Out"]),
                              proto_obj=NS(options=NS(deprecated=r.random() < 0.3))))
        services.append(NS(py_name=word(), comment=r.choice(COMMENTS), methods=methods))
    return NS(input_filenames=[word() + ".proto" for _ in range(r.randrange(0, 3))], enums=enums, messages=messages,
              services=services, python_module_imports=rset(r), datetime_imports=rset(r), pydantic_imports=rset(r),
              imports_type_checking_only=rset(r), imports_end=rset(r), pydantic_dataclasses=r.random() < 0.5,
              typing_compiler=FakeTC(r))


def L(s):
    return "%s.toList" % lean_string(s)


def lst(xs, f=L):
    return "[" + ", ".join(f(x) for x in xs) + "]"


def b(x):
    return "true" if x else "false"


def lean_ctx(c):
    tc = c.typing_compiler
    def wrap(pre, n, q=False):
        args = " ".join("a%d" % i for i in range(n))
        body = " ++ \";\".toList ++ ".join("a%d" % i for i in range(n))
        t = '"%s<".toList ++ %s ++ ">".toList' % (pre, body)
        if q:
            t = '"\\"".toList ++ %s ++ "\\"".toList' % t
        return "fun %s => %s" % (args, t)
    tcs = ("{ optional := %s, dict := %s, union := %s, iterable := %s, async_iterable := %s, async_iterator := %s, "
           "imports := %s, import_lines := %s }") % (
        wrap("OPT", 1), wrap("DICT", 2), wrap("UNION", 2, True), wrap("IT", 1), wrap("AIT", 1), wrap("AITER", 1, True),
        "[(%s, [])]" % L("typing") if tc._imports else "[]", lst(tc._lines))
    def entry(e):
        return "{ name := %s, value := %d, comment := %s }" % (L(e.name), e.value, L(e.comment))
    def enum(e):
        return "{ py_name := %s, comment := %s, entries := %s }" % (L(e.py_name), L(e.comment), lst(e.entries, entry))
    def field(f):
        return "{ get_field_string := %s, comment := %s }" % (L(f.get_field_string()), L(f.comment))
    def msg(m):
        return ("{ py_name := %s, comment := %s, fields := %s, deprecated := %s, has_deprecated_fields := %s, "
                "deprecated_fields := %s, has_oneof_fields := %s }") % (
            L(m.py_name), L(m.comment), lst(m.fields, field), b(m.deprecated), b(m.has_deprecated_fields),
            lst(m.deprecated_fields), b(m.has_oneof_fields))
    def meth(m):
        return ("{ py_name := %s, comment := %s, route := %s, client_streaming := %s, server_streaming := %s, "
                "py_input_message_param := %s, py_input_message_type := %s, py_output_message_type := %s, "
                "proto_obj := { options := { deprecated := %s } } }") % (
            L(m.py_name), L(m.comment), L(m.route), b(m.client_streaming), b(m.server_streaming),
            L(m.py_input_message_param), L(m.py_input_message_type), L(m.py_output_message_type),
            b(m.proto_obj.options.deprecated))
    def svc(s):
        return "{ py_name := %s, comment := %s, methods := %s }" % (L(s.py_name), L(s.comment), lst(s.methods, meth))
    return ("{ input_filenames := %s, enums := %s, messages := %s, services := %s, python_module_imports := %s, "
            "datetime_imports := %s, pydantic_imports := %s, imports_type_checking_only := %s, imports_end := %s, "
            "pydantic_dataclasses := %s, typing_compiler := %s }") % (
        lst(c.input_filenames), lst(c.enums, enum), lst(c.messages, msg), lst(c.services, svc),
        lst(list(c.python_module_imports)), lst(list(c.datetime_imports)), lst(list(c.pydantic_imports)),
        lst(list(c.imports_type_checking_only)), lst(list(c.imports_end)), b(c.pydantic_dataclasses), tcs)


def main():
    n = int(sys.argv[1]) if len(sys.argv) > 1 else 40
    seed = int(sys.argv[2]) if len(sys.argv) > 2 else 27
    r = random.Random(seed)
    env = jinja2.Environment(trim_blocks=True, lstrip_blocks=True, loader=jinja2.FileSystemLoader(TPL_DIR),
                             undefined=jinja2.StrictUndefined)
    body_t, header_t = env.get_template("template.py.j2"), env.get_template("header.py.j2")
    ctxs = [gen_ctx(r) for _ in range(n)]
    want = []
    for c in ctxs:
        body = body_t.render(output_file=c)
        want.append(header_t.render(output_file=c) + body)
    lines = ["import BpProofs.Gen.SrcTemplate", "open Bp", "set_option maxRecDepth 100000",
             "def hex (s : List Char) : String := String.intercalate \",\" (s.map fun c => toString c.toNat)"]
    for i, c in enumerate(ctxs):
        lines.append("def c%d : Tpl.OutputFile := %s" % (i, lean_ctx(c)))
        lines.append('#eval IO.println ("R%d " ++ hex (Tpl.text (Src.render_module c%d)))' % (i, i))
    with tempfile.NamedTemporaryFile("w", suffix=".lean", dir=LEAN, delete=False) as f:
        f.write("\n".join(lines) + "\n")
        path = f.name
    try:
        out = subprocess.run(["lake", "env", "lean", path], cwd=LEAN, capture_output=True, text=True, timeout=1200)
    finally:
        os.unlink(path)
    got = {}
    for ln in out.stdout.splitlines():
        if ln.startswith("R") and " " in ln:
            k, v = ln.split(" ", 1)
            got[int(k[1:])] = "".join(chr(int(x)) for x in v.split(",") if x)
        elif ln.startswith("R"):
            got[int(ln[1:])] = ""
    bad = 0
    for i, w in enumerate(want):
        if got.get(i) != w:
            bad += 1
            if bad <= 3:
                g = got.get(i)
                print("MISMATCH context %d" % i)
                if g is None:
                    print("  no Lean output;", out.stdout[-500:], out.stderr[-1500:])
                else:
                    k = next((j for j in range(min(len(g), len(w))) if g[j] != w[j]), min(len(g), len(w)))
                    print("  first difference at %d:\n  jinja: %r\n  lean : %r" % (k, w[max(0, k - 60):k + 60], g[max(0, k - 60):k + 60]))
    print("check_srctemplate: %d contexts, %d mismatches, %d characters compared" % (n, bad, sum(map(len, want))))
    sys.exit(1 if bad else 0)


if __name__ == "__main__":
    main()
