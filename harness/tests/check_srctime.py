"""Validation of the Timestamp / Duration SOURCE TRANSLATOR against real Python.

For random and boundary values the generated Lean functions of lean/BpProofs/Gen/SrcTime.lean are evaluated with
`#eval` (one Lean file, `lake env lean`) and compared with the real `betterproto._Duration` / `_Timestamp` methods run
on the corresponding `timedelta` / `datetime` objects.  This checks what the proofs cannot: that the translator and
the intrinsics of lean/BpProofs/PyPreludeTime.lean (datetime = microseconds since the epoch, `td.days`, the float
`timedelta(seconds=s, microseconds=n / 1e3)`, the f-string tuple …) mean what Python does.

    /venv/bin/python harness/tests/check_srctime.py [N per function, default 2000] [seed]
"""
import os
import random
import subprocess
import sys
import tempfile
from datetime import datetime, timedelta, timezone

HERE = os.path.dirname(os.path.abspath(__file__))
LEAN = os.path.normpath(os.path.join(HERE, "..", "..", "lean"))
if os.environ.get("VERIF_REPO"):
    sys.path.insert(0, os.path.join(os.environ["VERIF_REPO"], "src"))
import betterproto  # noqa: E402

US = timedelta(microseconds=1)
EPOCH = datetime(1970, 1, 1, tzinfo=timezone.utc)
TS_MIN, TS_MAX = -62135596800000000, 253402300799999999          # 0001-01-01 .. 9999-12-31T23:59:59.999999 (UTC)
DUR_MIN, DUR_MAX = timedelta.min // US, timedelta.max // US


def spread(rng, lo, hi, n, extra=()):
    """n values of [lo, hi]: the ends, values around 0 and around multiples of 10^3 / 10^6 / a day, log-uniform and
    uniform random ones"""
    vals = {lo, lo + 1, hi, hi - 1}
    for c in (0, 1000, 10**6, 86400 * 10**6, 10**9, 2**31, 2**53, 2**63) + tuple(extra):
        for sgn in (1, -1):
            for d in (-1001, -1000, -999, -501, -500, -499, -1, 0, 1, 499, 500, 501, 999, 1000, 1001):
                vals.add(sgn * c + d)
    vals = {v for v in vals if lo <= v <= hi}
    while len(vals) < n:
        k = rng.random()
        if k < 0.4:
            v = rng.randint(lo, hi)
        elif k < 0.8:
            v = rng.choice((1, -1)) * rng.randint(0, 10 ** rng.randint(0, 20))
        else:  # near a multiple of 500 µs / 500 ns: the rounding and the 3-or-6-digit boundaries
            v = rng.choice((1, -1)) * (rng.randint(0, 10 ** rng.randint(0, 17)) * 500 + rng.randint(-1, 1))
        if lo <= v <= hi:
            vals.add(v)
    return sorted(vals)


def lean_eval(groups):
    """groups: [(name, lean function text, list of argument tuples, printer)] -> {name: [line per argument tuple]}"""
    src = ["import BpProofs.Gen.SrcTime", "open Bp Bp.Py", "",
           "def p2 : Py.Res (Int × Int) → String\n  | .ok (a, b) => s!\"ok {a} {b}\"\n  | .raise _ => \"raise\"\n  | .diverge => \"diverge\"",
           "def p1 : Py.Res Int → String\n  | .ok a => s!\"ok {a}\"\n  | .raise _ => \"raise\"\n  | .diverge => \"diverge\"",
           "def pf : Py.Res (Option (Int × Int)) → String\n  | .ok none => \"ok none\"\n  | .ok (some (a, b)) => s!\"ok {a} {b}\"\n  | .raise _ => \"raise\"\n  | .diverge => \"diverge\"",
           "def p4 : Py.Res (Bool × Int × Int × Int) → String\n  | .ok (a, b, c, d) => s!\"ok {a} {b} {c} {d}\"\n  | .raise _ => \"raise\"\n  | .diverge => \"diverge\"",
           ""]
    for name, fn, args, pr in groups:
        src.append('#eval IO.println "## %s"' % name)
        for i in range(0, len(args), 200):
            chunk = args[i:i + 200]
            arity = len(chunk[0])
            ty = "Int" if arity == 1 else "(Int × Int)"
            lit = ", ".join("(%d : Int)" % a[0] if arity == 1 else "((%d : Int), (%d : Int))" % a for a in chunk)
            call = "%s x" % fn if arity == 1 else "%s x.1 x.2" % fn
            src.append('#eval IO.println (String.intercalate "\\n" (([%s] : List %s).map fun x => %s (%s)))' % (lit, ty, pr, call))
    with tempfile.NamedTemporaryFile("w", suffix=".lean", delete=False) as f:
        f.write("\n".join(src) + "\n")
        path = f.name
    try:
        r = subprocess.run(["lake", "env", "lean", path], cwd=LEAN, capture_output=True, text=True, timeout=1200)
    finally:
        os.unlink(path)
    if r.returncode != 0:
        raise SystemExit("lean failed:\n" + r.stdout[-3000:] + r.stderr[-3000:])
    out, cur = {}, None
    for line in r.stdout.splitlines():
        if line.startswith("## "):
            cur = line[3:]
            out[cur] = []
        elif line.strip() and cur is not None:
            out[cur].append(line.strip())
    return out


def main():
    n = int(sys.argv[1]) if len(sys.argv) > 1 else 2000
    rng = random.Random(int(sys.argv[2]) if len(sys.argv) > 2 else 20260930)
    D, T = betterproto._Duration, betterproto._Timestamp
    r = subprocess.run(["lake", "build", "BpProofs.Gen.SrcTime"], cwd=LEAN, capture_output=True, text=True, timeout=1800)
    if r.returncode != 0:
        raise SystemExit("lake build BpProofs.Gen.SrcTime failed (translation failed?):\n" + r.stdout[-3000:])

    durs = spread(rng, DUR_MIN, DUR_MAX, n)
    tss = spread(rng, TS_MIN, TS_MAX, n, extra=(TS_MIN, TS_MAX))
    zones = [timezone.utc, timezone(timedelta(hours=5, minutes=30)), timezone(-timedelta(hours=11)),
             timezone(timedelta(seconds=1, microseconds=1))]
    # (seconds, nanos) pairs: what from_* produces, nanosecond-precision nanos, out-of-range / negative nanos
    sn_ts, sn_dur = [], []
    for _ in range(n):
        s = rng.choice((rng.randint(TS_MIN // 10**6 + 3, TS_MAX // 10**6 - 3), rng.randint(-10**6, 10**6), 0, -1))
        nn = rng.choice((rng.randint(0, 10**9 - 1), rng.randint(-2**31, 2**31 - 1), rng.randint(0, 10**6) * 1000,
                         rng.randint(-2000, 2000), 999999999, 0))
        sn_ts.append((s, nn))
        s = rng.choice((rng.randint(DUR_MIN // 10**6 + 3000, DUR_MAX // 10**6 - 3000), rng.randint(-10**6, 10**6), 0, -1))
        q = rng.choice((rng.randint(-2**31 // 1000, 2**31 // 1000 - 1), rng.randint(-5, 5)))
        nn = rng.choice((q * 1000 + rng.choice((0, 1, 499, 500, 501, 999)), rng.randint(-2**31, 2**31 - 1),
                         -2**31, 2**31 - 1, 999999999, -999999999))
        nn = max(-2**31, min(2**31 - 1, nn))
        sn_dur.append((s, nn))

    # dt.microsecond values: boundaries, multiples of 1000, random
    micros = sorted({0, 1, 999, 1000, 1001, 999000, 999999, 500000, 123000, 123456}
                    | {rng.randrange(10**6) for _ in range(n // 2)} | {rng.randrange(1000) * 1000 for _ in range(n // 2)})
    out = lean_eval([
        ("duration_from_timedelta", "Src.duration_from_timedelta", [(u,) for u in durs], "p2"),
        ("duration_delta_to_json", "Src.duration_delta_to_json", [(u,) for u in durs], "p4"),
        ("duration_to_timedelta", "Src.duration_to_timedelta", sn_dur, "p1"),
        ("timestamp_from_datetime", "Src.timestamp_from_datetime", [(u,) for u in tss], "p2"),
        ("timestamp_to_datetime", "Src.timestamp_to_datetime", sn_ts, "p1"),
    ])
    bad = []

    def cmp(name, i, arg, want):
        got = out[name][i]
        if got != want:
            bad.append((name, arg, got, want))

    for i, u in enumerate(durs):
        td = u * US
        m = D.from_timedelta(td)
        cmp("duration_from_timedelta", i, u, "ok %d %d" % (m.seconds, m.nanos))
        # the tuple of the translated f-string, rendered as PyPreludeTime.fmtSecs says, against the real string
        got = out["duration_delta_to_json"][i].split()
        text = ("-" if got[1] == "true" else "") + got[2] + "." + "%0*d" % (int(got[3]), int(got[4])) + "s"
        real = D.delta_to_json(td)
        if got[0] != "ok" or text != real:
            bad.append(("duration_delta_to_json", u, " ".join(got) + " -> " + text, real))
    for i, (s, nn) in enumerate(sn_dur):
        cmp("duration_to_timedelta", i, (s, nn), "ok %d" % (D(seconds=s, nanos=nn).to_timedelta() // US))
    for i, u in enumerate(tss):
        dt = EPOCH + u * US
        try:
            dt = dt.astimezone(zones[i % len(zones)])   # the same instant in another zone
        except OverflowError:
            pass
        m = T.from_datetime(dt)
        cmp("timestamp_from_datetime", i, u, "ok %d %d" % (m.seconds, m.nanos))
    for i, (s, nn) in enumerate(sn_ts):
        try:
            want = "ok %d" % ((T(seconds=s, nanos=nn).to_datetime() - EPOCH) // US)
        except OverflowError:
            continue  # outside datetime's range: not modelled
        cmp("timestamp_to_datetime", i, (s, nn), want)

    # (timestamp_to_json: the whole method is translated by extract_srcleaf.py and validated by check_srcleaf.py)
    micros = []

    total = len(micros) + 2 * len(durs) + len(sn_dur) + len(tss) + len(sn_ts)
    print("check_srctime: %d comparisons (%d timedeltas x2, %d Duration pairs, %d datetimes, %d Timestamp pairs, %d microsecond fields), %d disagreements"
          % (total, len(durs), len(sn_dur), len(tss), len(sn_ts), len(micros), len(bad)))
    for b in bad[:20]:
        print("  DISAGREE %s arg=%r lean=%s python=%s" % b)
    return 1 if bad else 0


if __name__ == "__main__":
    sys.exit(main())
