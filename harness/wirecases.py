"""Shared case generation for the codec checks (C01 C02 C06 C08 C09 C10 C17)."""
import io

import betterproto
import bpgen


class Batch:
    """one random schema with its real classes, reference classes and a list of values"""

    def __init__(self, rng, sid, nvals, features=None, with_ref=False, nmsgs=None):
        self.sid = sid
        self.schema = bpgen.random_schema(rng, nmsgs=nmsgs, features=features)
        self.classes = bpgen.build_bp(self.schema)
        self.refs = bpgen.build_ref(self.schema) if with_ref else None
        self.values = []
        for _ in range(nvals):
            ci = rng.randrange(len(self.schema))
            self.values.append(bpgen.gen_msg(rng, self.schema, ci, depth=rng.choice([1, 2, 3])))

    def schema_line(self):
        return bpgen.schema_line(self.sid, self.schema)

    def describe(self):
        return [[f.line() for f in m.fields] for m in self.schema]


def impl_bytes(m):
    try:
        return bytes(m)
    except Exception as e:  # noqa
        return e


def hexs(b):
    return b.hex() or "-"


def is_trivial(v):
    """a constructor call without arguments, recursively"""
    return v[0] == "c" and not v[2]


def count_features(chk, batch):
    for m in batch.schema:
        for f in m.fields:
            key = f.ty
            if f.ty == "message":
                key = "wrapper" if f.wraps else {"ts": "timestamp", "dur": "duration"}.get(f.kind, "message")
            card = "repeated" if f.repeated else ("optional" if f.optional else ("oneof" if f.group is not None else ("map" if f.ty == "map" else "singular")))
            chk.count("field_%s_%s" % (key, card))
