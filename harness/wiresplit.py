"""An independent (harness-side) splitter of protobuf wire data into records, used to
build alternative encodings and to state oracles without trusting the code under test."""


def read_varint(b, i):
    v, s, start = 0, 0, i
    while True:
        if i >= len(b):
            raise ValueError("truncated varint")
        x = b[i]
        i += 1
        v |= (x & 0x7f) << s
        s += 7
        if not x & 0x80:
            return v, i
        if i - start >= 10:
            raise ValueError("varint too long")


def enc_varint(v, pad=0):
    out = bytearray()
    while True:
        x = v & 0x7f
        v >>= 7
        if v or pad:
            out.append(x | 0x80)
            if not v:
                pad -= 1
        else:
            out.append(x)
            return bytes(out)


def split(b):
    """-> list of (number, wire_type, raw_bytes, payload_bytes, varint_value)"""
    out, i = [], 0
    while i < len(b):
        start = i
        tag, i = read_varint(b, i)
        num, wt = tag >> 3, tag & 7
        val, payload = None, b""
        if wt == 0:
            val, i = read_varint(b, i)
        elif wt == 1:
            payload = b[i:i + 8]
            i += 8
        elif wt == 5:
            payload = b[i:i + 4]
            i += 4
        elif wt == 2:
            n, i = read_varint(b, i)
            payload = b[i:i + n]
            i += n
        else:
            raise ValueError("wire type %d" % wt)
        if i > len(b):
            raise ValueError("truncated payload")
        out.append((num, wt, b[start:i], payload, val))
    return out


def boundaries(b):
    pos, out = 0, [0]
    for r in split(b):
        pos += len(r[2])
        out.append(pos)
    return out


def random_unknown_record(rng, avoid_numbers):
    """a well-formed record of a field number the schema does not declare.  One record in four is encoded NON-MINIMALLY
    (padded tag, padded varint value, padded length prefix — legal on the wire, other writers produce them): "re-emitted
    byte for byte" is about the bytes that arrived, not about a re-encoding of their meaning"""
    while True:
        num = rng.choice([6, 8, 9, 11, 12, 13, 14, 99, 1000, 4000, 70000, 536870910])
        if num not in avoid_numbers:
            break
    wt = rng.choice([0, 1, 2, 5])
    padded = rng.random() < 0.25

    def pad(v):
        # keep every varint within 10 bytes
        room = 10 - len(enc_varint(v))
        return rng.randint(1, min(2, room)) if padded and room > 0 and rng.random() < 0.7 else 0
    tag = enc_varint(num << 3 | wt, pad(num << 3 | wt))
    if wt == 0:
        v = rng.choice([0, 1, 5, 127, 128, rng.getrandbits(64)])
        return tag + enc_varint(v, pad(v))
    if wt == 1:
        return tag + bytes(rng.getrandbits(8) for _ in range(8))
    if wt == 5:
        return tag + bytes(rng.getrandbits(8) for _ in range(4))
    n = rng.choice([0, 1, 3, 7])
    return tag + enc_varint(n, pad(n)) + bytes(rng.getrandbits(8) for _ in range(n))
