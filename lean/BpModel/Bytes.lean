/-
  Bytes are `List Nat` with the side condition `WfBytes` (every element < 256).
  Python `int` is `Int`/`Nat` (unbounded).  No imports: this file is linked into
  the native driver.
-/
namespace Bp

abbrev Bytes := List Nat

def WfBytes (bs : Bytes) : Prop := ∀ b ∈ bs, b < 256

instance (bs : Bytes) : Decidable (WfBytes bs) := by unfold WfBytes; infer_instance

/-- small exception enum; the correspondence only compares raised / returned -/
inductive PyErr
  | eof | value | unicode | struct | type | key | attr | overflow | notImpl | assertion
  deriving Repr, DecidableEq, Inhabited

abbrev R (α : Type) := Except PyErr α

def R.isOk {α} : R α → Bool
  | .ok _ => true
  | .error _ => false

/-- little-endian unsigned packing into exactly `n` bytes (`struct.pack('<I'/'<Q')`
    when the value is in range; range is checked by the caller) -/
def packLE : Nat → Nat → Bytes
  | 0, _ => []
  | n+1, v => (v % 256) :: packLE n (v / 256)

/-- little-endian unsigned unpacking of a whole byte list -/
def unpackLE : Bytes → Nat
  | [] => 0
  | b :: bs => b + 256 * unpackLE bs

/-- two's complement: signed value of an unsigned `bits`-wide pattern -/
def toSigned (bits : Nat) (u : Nat) : Int :=
  if u < 2 ^ (bits - 1) then (u : Int) else (u : Int) - (2 ^ bits : Nat)

/-- two's complement: unsigned pattern of a signed value (caller checks range) -/
def ofSigned (bits : Nat) (v : Int) : Nat :=
  (v % ((2 ^ bits : Nat) : Int)).toNat

end Bp
