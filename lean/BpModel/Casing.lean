import BpModel.Gen.Keywords
/-
  Model of src/betterproto/casing.py  (strict mode, the only mode any call site uses).

  Strings are `List Char`.  The three public functions are built on one regular
  expression,

      ([^a-zA-Z0-9]*)([A-Z]+(?![a-z])[0-9]*|[A-Z]*[a-z]*[0-9]*)

  applied with `re.sub` (left to right, non-overlapping, empty matches included).
  The regex engine is NOT modelled.  `go` below is a hand-written one-pass tokenizer that
  returns the list of non-empty `word` groups the successive matches produce; the
  symbol group is dropped in strict mode and an empty word is replaced by "" in both
  `snake_case` and `pascal_case`, so the words are all that matters.  Its fidelity is
  validated exhaustively by the correspondence run of check C19.

  The character classes of the regex are ASCII-explicit, so every character outside
  [A-Za-z0-9] (including every non-ASCII character) is a "symbol" in the model as in the
  code; `str.lower()` / `str.capitalize()` are only ever applied to words, which are ASCII.
-/
namespace Bp.Casing

/-- the four character classes the regex distinguishes -/
inductive Cls where
  | up   -- [A-Z]
  | lo   -- [a-z]
  | dg   -- [0-9]
  | sym  -- [^a-zA-Z0-9]
  deriving DecidableEq, Repr

def uppers : List Char := "ABCDEFGHIJKLMNOPQRSTUVWXYZ".toList
def lowers : List Char := "abcdefghijklmnopqrstuvwxyz".toList
def digits : List Char := "0123456789".toList

/-- classes are given by explicit tables so that every fact about them is a finite check -/
def cls (c : Char) : Cls :=
  if c ∈ uppers then .up else if c ∈ lowers then .lo else if c ∈ digits then .dg else .sym

def lookupC (c : Char) : List (Char × Char) → Char
  | [] => c
  | (a, b) :: t => if c = a then b else lookupC c t

/-- `str.lower()` on one ASCII character -/
def lowerC (c : Char) : Char := lookupC c (uppers.zip lowers)
/-- `str.upper()` on one ASCII character -/
def upperC (c : Char) : Char := lookupC c (lowers.zip uppers)

/-- `word.lower()` -/
def lowerW (w : List Char) : List Char := w.map lowerC

/-- `word.capitalize()`: first character upper-cased, the rest lower-cased -/
def capitalize : List Char → List Char
  | [] => []
  | c :: w => upperC c :: lowerW w

/-- state of the tokenizer: between words; inside the leading run of capitals
    (`pre ++ [last]`, the last one kept apart because the look-ahead `(?![a-z])` may hand
    it to the next word); inside the lower-case run; inside the digit run -/
inductive St where
  | sym
  | up (pre : List Char) (last : Char)
  | lo (cur : List Char)
  | dg (cur : List Char)

def emit (w : List Char) (rest : List (List Char)) : List (List Char) :=
  match w with
  | [] => rest
  | _ :: _ => w :: rest

/-- the successive non-empty `word` groups of the regex on the rest of the input -/
def go : St → List Char → List (List Char)
  | .sym, [] => []
  | .up pre l, [] => [pre ++ [l]]
  | .lo cur, [] => [cur]
  | .dg cur, [] => [cur]
  | .sym, c :: s =>
    match cls c with
    | .sym => go .sym s
    | .up => go (.up [] c) s
    | .lo => go (.lo [c]) s
    | .dg => go (.dg [c]) s
  | .up pre l, c :: s =>
    match cls c with
    | .up => go (.up (pre ++ [l]) c) s
    -- WORD_UPPER fails its look-ahead: with two or more capitals it backtracks by one
    -- (the word is `pre`), with exactly one the alternative WORD matches `l` + lower run
    | .lo => emit pre (go (.lo [l, c]) s)
    | .dg => go (.dg (pre ++ [l, c])) s
    | .sym => (pre ++ [l]) :: go .sym s
  | .lo cur, c :: s =>
    match cls c with
    | .lo => go (.lo (cur ++ [c])) s
    | .dg => go (.dg (cur ++ [c])) s
    | .up => cur :: go (.up [] c) s
    | .sym => cur :: go .sym s
  | .dg cur, c :: s =>
    match cls c with
    | .dg => go (.dg (cur ++ [c])) s
    | .up => cur :: go (.up [] c) s
    | .lo => cur :: go (.lo [c]) s
    | .sym => cur :: go .sym s

/-- the words of a string, in order -/
def tokens (s : List Char) : List (List Char) := go .sym s

/-- `"_".join(words)` -/
def joinU : List (List Char) → List Char
  | [] => []
  | [w] => w
  | w :: ws => w ++ '_' :: joinU ws

/-- `snake_case(value)` (strict): the first match gets no delimiter, every later word one `_` -/
def snake (s : List Char) : List Char := joinU ((tokens s).map lowerW)

/-- `pascal_case(value)` (strict) -/
def pascal (s : List Char) : List Char := ((tokens s).map capitalize).flatten

/-- `lowercase_first` -/
def lowerFirst : List Char → List Char
  | [] => []
  | c :: s => lowerC c :: s

/-- `camel_case(value)` (strict) -/
def camel (s : List Char) : List Char := lowerFirst (pascal s)

/-- `keyword.kwlist` of the interpreter that runs the plugin (regenerated table) -/
def kw : List (List Char) := Bp.Gen.keywords.map String.toList

def identStart (c : Char) : Bool := cls c = .up || cls c = .lo || c = '_'
def identChar (c : Char) : Bool := cls c ≠ .sym || c = '_'

/-- `str.isidentifier()` on an ASCII string -/
def pyIdent : List Char → Bool
  | [] => false
  | c :: s => identStart c && s.all identChar

/-- `sanitize_name` -/
def sanitize (v : List Char) : List Char :=
  if v ∈ kw then v ++ ['_'] else if pyIdent v then v else '_' :: v

/-- `safe_snake_case` -/
def safeSnake (s : List Char) : List Char := sanitize (snake s)

/-- `str.rstrip("_")` -/
def rstripU (s : List Char) : List Char := (s.reverse.dropWhile (· = '_')).reverse

/-- `str.lstrip("_")` -/
def lstripU (s : List Char) : List Char := s.dropWhile (· = '_')

/-- the key `Message.to_dict` emits for the Python field `f`: `casing(f).rstrip("_")` -/
def keyCamel (f : List Char) : List Char := rstripU (camel f)
def keySnake (f : List Char) : List Char := rstripU (snake f)

/-- the field `Message.from_dict` stores a key into: `safe_snake_case(key)` -/
def fieldOfKey (k : List Char) : List Char := safeSnake k

/-- proto identifiers: `[A-Za-z_][A-Za-z0-9_]*` -/
def protoIdent (s : List Char) : Bool := pyIdent s

/-! ### decidable guards of the partial theorems (evaluated by the driver on harness inputs) -/

def isLetter (c : Char) : Bool := cls c = .up || cls c = .lo

/-- the word begins with two letters -/
def startsAlpha2 : List Char → Bool
  | a :: b :: _ => isLetter a && isLetter b
  | _ => false

/-- every word of the name begins with two letters (`foo_bar`, `fooBar`, `HTTPStatus`;
    not `address_line_1`, `x_y_z`, `ipv4_address` is fine: words `ipv4`, `address`) -/
def allWordsAlpha2 (s : List Char) : Bool := (tokens s).all startsAlpha2

/-- the keywords that begin with a capital letter (`False`, `None`, `True`) -/
def capKeywords : List (List Char) :=
  kw.filter fun k => match k with
    | c :: _ => cls c = .up
    | [] => false

/-- the first letter-or-digit of the name is a letter -/
def firstAlnumIsLetter (s : List Char) : Bool :=
  match s.dropWhile (fun c => cls c = .sym) with
  | c :: _ => isLetter c
  | [] => false

/-- guard of `class_name_valid_partial` -/
def classNameGuard (s : List Char) : Bool :=
  firstAlnumIsLetter s && !(capKeywords.contains (pascal s))

end Bp.Casing
