/-
  Model of `betterproto.grpc.util.async_channel.AsyncChannel` (with the D06 repair:
  `task_done()` only after a successful `get()`) on top of a model of CPython 3.12's
  `asyncio.Queue` (asyncio/queues.py) and of the part of `asyncio.Task` / `Future` that the
  channel relies on (suspension on a future, wake-up, `cancel()` of a blocked / woken /
  not yet started task, the `wait_for` timer).

  * `Sys` is the whole world: the queue (`queue`, `getters`, `putters`, `unfinished`,
    `maxsize`), the channel (`closed`, `flushed`, `waiting`), the task table, and ghost logs.
  * A task is a small program counter (`Code`) plus its suspension state (`Wait`).
  * `micro s t` lets task `t` perform ONE atomic action (one loop iteration of its program);
    `step s c` is what the event loop does with one ready handle: it iterates `micro` on the
    chosen task until that task is suspended on a pending future or finished.
  The invariants of BpProofs/Chan*.lean are proved for `micro`, hence for `step`.
  Import-free (core Lean only).
-/
namespace Bp.Chan

/-- what travels through the queue: a data item with a unique id `(sender task, sequence number)`,
    or the channel's private flush sentinel `AsyncChannel.__flush` -/
inductive Item where
  | data (sender seq : Nat)
  | flush
deriving DecidableEq, Repr

def Item.isData : Item → Bool
  | .data _ _ => true
  | .flush => false

/-- state of the future a task is suspended on: pending, result set (`set_result(None)` by
    `_wakeup_next`), or cancelled -/
inductive Fut where
  | pending | woken | cancelled
deriving DecidableEq, Repr

/-- suspension state of a task.  `blocked true f`: inside `Queue.get()` on a getter future in
    state `f`; `blocked false f`: inside `Queue.put()` on a putter future.  A task is runnable
    (has a handle in the loop's ready queue) iff it is `ready` or its future is done. -/
inductive Wait where
  | ready
  | blocked (getter : Bool) (f : Fut)
  | done
deriving DecidableEq, Repr

inductive Outcome where
  | running | ok | chanClosed | cancelled | timeout | valueError
deriving DecidableEq, Repr

/-- `each`: `await ch.send(x)` per item (closed is checked before every item);
    `fromStart`: `await ch.send_from(xs)` not yet entered (closed is checked once);
    `fromRunning`: inside the loop of `send_from` (no further check) -/
inductive SMode where
  | each | fromStart | fromRunning
deriving DecidableEq, Repr

/-- the programs a configuration is made of -/
inductive Prog where
  | sender (sendFrom : Bool) (n : Nat) (close : Bool)
  | receiver (timed : Bool)
  | closer
  | canceller (target : Nat)
deriving DecidableEq, Repr

/-- program counter of a task -/
inductive Code where
  | sender (mode : SMode) (next remaining : Nat) (close : Bool)
  | receiver (timed : Bool)
  | closer
  | canceller (target : Nat)
  /-- `AsyncChannel._flush_queue`; `none`: not started, `some r`: `r` sentinels still to put -/
  | flusher (remaining : Option Nat)
deriving DecidableEq, Repr

def Code.isFlusher : Code → Bool
  | .flusher _ => true
  | _ => false

def Code.isReceiver : Code → Bool
  | .receiver _ => true
  | _ => false

/-- next sequence number a sender will use -/
def Code.nextSeq : Code → Nat
  | .sender _ n _ _ => n
  | _ => 0

structure Task where
  code : Code
  wait : Wait := .ready
  /-- `Task._must_cancel`: a `cancel()` arrived while the task was not suspended on a pending future -/
  mustCancel : Bool := false
  /-- an external `task.cancel()` was issued (by a canceller) -/
  cancelReq : Bool := false
  /-- the `wait_for` timer of this task fired -/
  timedOut : Bool := false
  out : Outcome := .running
deriving DecidableEq, Repr

structure Sys where
  maxsize : Nat               -- `buffer_limit`; 0 = unbounded
  queue : List Item := []     -- `Queue._queue`
  getters : List Nat := []    -- `Queue._getters` (task ids; the future's state lives in the task)
  putters : List Nat := []    -- `Queue._putters`
  unfinished : Nat := 0       -- `Queue._unfinished_tasks`
  closed : Bool := false      -- `AsyncChannel._closed`
  flushed : Bool := false     -- `AsyncChannel._flushed`
  waiting : Nat := 0          -- `AsyncChannel._waiting_receivers`
  tasks : List Task := []
  -- ghost state (not read by the programs)
  putLog : List Item := []            -- data items in the order of their `put_nowait`
  recvLog : List (Nat × Item) := []   -- (receiver, data item) in the order of the receive events
  preClose : Option Nat := none       -- length of `putLog` at the first `close()`
  cancels : Nat := 0                  -- number of `cancel()` calls that hit a live task
deriving Repr

def Prog.toTask : Prog → Task
  | .sender sf n cl => { code := .sender (if sf then .fromStart else .each) 0 n cl }
  | .receiver tm => { code := .receiver tm }
  | .closer => { code := .closer }
  | .canceller tg => { code := .canceller tg }

def init (maxsize : Nat) (progs : List Prog) : Sys :=
  { maxsize := maxsize, tasks := progs.map Prog.toTask }

/-- `Queue.full()` -/
def Sys.full (s : Sys) : Bool := decide (0 < s.maxsize) && decide (s.maxsize ≤ s.queue.length)

def Sys.dq (s : Sys) (g : Bool) : List Nat := if g then s.getters else s.putters

def Sys.setDq (s : Sys) (g : Bool) (d : List Nat) : Sys :=
  if g then { s with getters := d } else { s with putters := d }

def Sys.setTask (s : Sys) (t : Nat) (x : Task) : Sys := { s with tasks := s.tasks.set t x }

/-- `Queue._wakeup_next(waiters)`: pop waiters until one is found that is not done; set its result -/
def wakeNext (g : Bool) : List Nat → List Task → List Nat × List Task
  | [], ts => ([], ts)
  | u :: rest, ts =>
    match ts[u]? with
    | some y =>
      if y.wait = .blocked g .pending then (rest, ts.set u { y with wait := .blocked g .woken })
      else wakeNext g rest ts
    | none => wakeNext g rest ts

def wake (g : Bool) (s : Sys) : Sys :=
  let r := wakeNext g (s.dq g) s.tasks
  { s.setDq g r.1 with tasks := r.2 }

/-- `Queue.put_nowait(item)` (the caller has checked `not full()`) -/
def putNowait (s : Sys) (it : Item) : Sys :=
  wake true { s with queue := s.queue ++ [it], unfinished := s.unfinished + 1,
                     putLog := if it.isData then s.putLog ++ [it] else s.putLog }

/-- the queue part of `Queue.get_nowait()` once the head has been taken: `rest` remains -/
def popQ (s : Sys) (rest : List Item) : Sys :=
  wake false { s with queue := rest }

def flusherTask : Task := { code := .flusher none }

/-- `AsyncChannel.close()`: `_closed = True; asyncio.ensure_future(self._flush_queue())` -/
def doClose (s : Sys) : Sys :=
  { s with closed := true, tasks := s.tasks ++ [flusherTask],
           preClose := match s.preClose with
                       | none => some s.putLog.length
                       | some n => some n }

def finish (s : Sys) (t : Nat) (x : Task) (o : Outcome) : Sys :=
  s.setTask t { x with wait := .done, out := o }

/-- how a `CancelledError` thrown into the task surfaces: `wait_for` turns it into
    `TimeoutError` iff its timer fired and nobody else asked for cancellation -/
def cancelOutcome (x : Task) : Outcome := if x.cancelReq then .cancelled else .timeout

/-- `task.cancel()` (by a canceller: `timer = false`) / the `wait_for` timer firing (`timer = true`).
    `_flush_queue` tasks are private to the channel and cannot be the target. -/
def cancelTask (s : Sys) (tgt : Nat) (timer : Bool) : Sys :=
  match s.tasks[tgt]? with
  | none => s
  | some y =>
    if y.code.isFlusher then s else
    match y.wait with
    | .done => s
    | .blocked g .pending =>
      { s.setTask tgt { y with wait := .blocked g .cancelled, cancelReq := y.cancelReq || !timer,
                               timedOut := y.timedOut || timer } with cancels := s.cancels + 1 }
    | _ =>
      { s.setTask tgt { y with mustCancel := true, cancelReq := y.cancelReq || !timer,
                               timedOut := y.timedOut || timer } with cancels := s.cancels + 1 }

/-- `while self.full(): <suspend on a new putter>` / `put_nowait(item)` for a task whose
    program counter becomes `cBlocked` if it has to wait and `cDone` once the item is in -/
def putOrBlock (s : Sys) (t : Nat) (x : Task) (cBlocked cDone : Code) (it : Item) : Sys :=
  if s.full then
    { s.setTask t { x with wait := .blocked false .pending, code := cBlocked } with putters := s.putters ++ [t] }
  else
    putNowait (s.setTask t { x with wait := .ready, code := cDone }) it

def SMode.running : SMode → SMode
  | .each => .each
  | _ => .fromRunning

/-- a sender / flusher that is about to put its next item (ready with the closed check already
    made, or woken from a putter) -/
def putStep (s : Sys) (t : Nat) (x : Task) : Sys :=
  match x.code with
  | .sender m nx (r + 1) cl =>
    putOrBlock s t x (.sender m.running nx (r + 1) cl) (.sender m.running (nx + 1) r cl) (.data t nx)
  | .flusher (some (r + 1)) =>
    putOrBlock s t x (.flusher (some (r + 1))) (.flusher (some r)) .flush
  | _ => s   -- not reachable: only a sender / flusher with something left to put gets here

/-- the receiver has taken `it` off the queue (`rest` remains): `get_nowait` wakes a putter, then
    (fixed code) `task_done()`, which raises ValueError if nothing is unfinished, then the
    sentinel test; `finally: _waiting_receivers -= 1` when the receiver had been counted. -/
def takeItem (s : Sys) (t : Nat) (x : Task) (it : Item) (rest : List Item) (counted : Bool) : Sys :=
  let w := if counted then s.waiting - 1 else s.waiting
  if s.unfinished = 0 then
    popQ { finish s t x .valueError with waiting := w } rest
  else
    match it with
    | .flush => popQ { finish s t x .ok with waiting := w, unfinished := s.unfinished - 1 } rest
    | .data a b =>
      popQ { s.setTask t { x with wait := .ready } with
             waiting := w, unfinished := s.unfinished - 1, recvLog := s.recvLog ++ [(t, .data a b)] } rest

/-- the `except:` branch of `Queue.get` / `Queue.put` when CancelledError is thrown into the
    task at its await: remove the waiter, pass an unused wake-up on, re-raise
    (and `finally: _waiting_receivers -= 1` for a receiver) -/
def cancelBranch (s : Sys) (t : Nat) (x : Task) (g : Bool) (f : Fut) : Sys :=
  let s1 := finish s t x (cancelOutcome x)
  let s2 := if g then { s1 with getters := s1.getters.erase t, waiting := s1.waiting - 1 }
            else { s1 with putters := s1.putters.erase t }
  if f ≠ .cancelled ∧ (if g then !s.queue.isEmpty else !s.full) then wake g s2 else s2

/-- one atomic action of task `t` -/
def micro (s : Sys) (t : Nat) : Sys :=
  match s.tasks[t]? with
  | none => s
  | some x =>
    match x.wait with
    | .done => s
    | .blocked _ .pending => s
    | .blocked g .cancelled => cancelBranch s t x g .cancelled
    | .blocked g .woken =>
      if x.mustCancel then cancelBranch s t x g .woken
      else if g then
        -- back in `while self.empty():` of Queue.get
        match s.queue with
        | [] => { s.setTask t { x with wait := .blocked true .pending } with getters := s.getters ++ [t] }
        | it :: rest => takeItem s t x it rest true
      else putStep s t x
    | .ready =>
      if x.mustCancel then finish s t x (cancelOutcome x) else
      match x.code with
      | .sender m nx r cl =>
        let check := match m with
          | .each => decide (0 < r)
          | .fromStart => true
          | .fromRunning => false
        if check && s.closed then finish s t x .chanClosed
        else if r = 0 then
          let s1 := finish s t x .ok
          if cl then doClose s1 else s1
        else putStep s t x
      | .receiver _ =>
        -- `done()`: closed and qsize <= waiting receivers
        if s.closed && decide (s.queue.length ≤ s.waiting) then finish s t x .ok
        else
          match s.queue with
          | [] => { s.setTask t { x with wait := .blocked true .pending } with
                    getters := s.getters ++ [t], waiting := s.waiting + 1 }
          | it :: rest => takeItem s t x it rest false
      | .closer => doClose (finish s t x .ok)
      | .canceller tg => cancelTask (finish s t x .ok) tg false
      | .flusher none =>
        if s.flushed then finish s t x .ok
        else { s.setTask t { x with code := .flusher (some (s.waiting - s.queue.length)) } with flushed := true }
      | .flusher (some 0) => finish s t x .ok
      | .flusher (some (_ + 1)) => putStep s t x

/-- what the scheduler can pick: run the ready handle of a task, or fire the `wait_for` timer of a
    timed receiver -/
inductive Choice where
  | run (t : Nat)
  | fire (t : Nat)
deriving DecidableEq, Repr

def waitOf (s : Sys) (t : Nat) : Option Wait := (s.tasks[t]?).map Task.wait

def runnable (s : Sys) (t : Nat) : Bool :=
  match waitOf s t with
  | some .ready => true
  | some (.blocked _ .woken) => true
  | some (.blocked _ .cancelled) => true
  | _ => false

/-- the timer of `wait_for(receive())` is armed while the receiver is inside `get()` -/
def timerLive (s : Sys) (t : Nat) : Bool :=
  match s.tasks[t]? with
  | some x =>
    (match x.code with | .receiver true => true | _ => false) &&
    (match x.wait with | .blocked true _ => true | _ => false) && !x.timedOut
  | none => false

def enabled (s : Sys) : Choice → Bool
  | .run t => runnable s t
  | .fire t => timerLive s t

/-- iterate `micro` on task `t` until it is suspended or finished -/
def runTask : Nat → Sys → Nat → Sys
  | 0, s, _ => s
  | fuel + 1, s, t =>
    let s' := micro s t
    if waitOf s' t = some .ready then runTask fuel s' t else s'

def remainingOf : Code → Nat
  | .sender _ _ r _ => r
  | .flusher (some r) => r
  | _ => 0

def fuelFor (s : Sys) (t : Nat) : Nat :=
  s.queue.length + s.waiting + (match s.tasks[t]? with | some x => remainingOf x.code | none => 0) + 4

/-- one step of the event loop: the chosen handle runs -/
def step (s : Sys) (c : Choice) : Sys :=
  if enabled s c then
    match c with
    | .run t => runTask (fuelFor s t) s t
    | .fire t => cancelTask s t true
  else s

def run (s : Sys) (cs : List Choice) : Sys := cs.foldl step s

/-- no handle is ready (live timers may remain: a timeout need not ever fire) -/
def quiescent (s : Sys) : Bool := (List.range s.tasks.length).all fun t => !runnable s t

end Bp.Chan
