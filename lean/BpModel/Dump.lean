import BpModel.Varint
import BpModel.Value
import BpModel.Time
/-
  Model of the encoder: `_preprocess_single`, `_serialize_single`, `Message.dump` /
  `__bytes__` (src/betterproto/__init__.py:399-497, 928-1041).
-/
namespace Bp
open Gen

def fmtOf (t : PType) : Option (Nat × Bool × Bool) := (packFmt.find? (·.1 == t)).map (·.2)

/-- `struct.pack(_pack_fmt(t), value)`; floats are bit patterns -/
def packFixed (t : PType) (v : Val) : R Bytes :=
  match fmtOf t with
  | Option.none => .error .key
  | some (w, signed, flt) =>
    match flt, v with
    | true, .f32 b => if w == 4 then (if b < 2 ^ 32 then .ok (packLE 4 b) else .error .struct) else .error .type
    | true, .f64 b => if w == 8 then (if b < 2 ^ 64 then .ok (packLE 8 b) else .error .struct) else .error .type
    | false, .int i =>
      if signed then
        if -(2 ^ (8 * w - 1) : Nat) ≤ i ∧ i < (2 ^ (8 * w - 1) : Nat) then .ok (packLE w (ofSigned (8 * w) i))
        else .error .struct
      else
        if 0 ≤ i ∧ i < (2 ^ (8 * w) : Nat) then .ok (packLE w i.toNat) else .error .struct
    | _, _ => .error .type

/-- the integer a varint-typed value denotes (`True` encodes as 1) -/
def asInt : Val → R Int
  | .int i => .ok i
  | .bool b => .ok (if b then 1 else 0)
  | _ => .error .type

/-- is `v == default` for the scalar type `t` (used for the one `value` field of a wrapper) -/
def scalarIsDefault (S : Schema) (t : PType) (v : Val) : Bool := eqDefault S (scalarDef t) v

/-- `_preprocess_single` for every type except `message` -/
def prepPlain (t : PType) (v : Val) : R Bytes :=
  if t == .enum || t == .bool || t == .int32 || t == .int64 || t == .uint32 || t == .uint64 then
    (asInt v).bind dumpVarint
  else if t == .sint32 || t == .sint64 then
    (asInt v).bind fun i => dumpVarint (zig i)
  else if isFixed t then packFixed t v
  else if t == .string then
    match v with
    | .str s => .ok s
    | _ => .error .attr
  else
    -- bytes / map: the value is returned as it is
    match v with
    | .byt s => .ok s
    | _ => .error .type

/-- the framing half of `_serialize_single`, on an already preprocessed value -/
def frame (num : Nat) (t : PType) (pre : Bytes) (serializeEmpty : Bool) (wraps : Bool) : R Bytes :=
  if wireVarintTypes.contains t then (dumpVarint ((num * 8 : Nat) : Int)).bind fun k => .ok (k ++ pre)
  else if wireFixed32Types.contains t then (dumpVarint ((num * 8 + 5 : Nat) : Int)).bind fun k => .ok (k ++ pre)
  else if wireFixed64Types.contains t then (dumpVarint ((num * 8 + 1 : Nat) : Int)).bind fun k => .ok (k ++ pre)
  else if wireLenDelimTypes.contains t then
    if pre.length != 0 || serializeEmpty || wraps then
      (dumpVarint ((num * 8 + 2 : Nat) : Int)).bind fun k =>
      (dumpVarint (pre.length : Int)).bind fun l => .ok (k ++ l ++ pre)
    else .ok []
  else .error .notImpl

/-- `bytes(Timestamp(seconds, nanos))` / `bytes(Duration(seconds, nanos))`: two
    implicit-presence fields, int64 #1 and int32 #2 -/
def secNanosBytes (s n : Int) : R Bytes :=
  (if s == 0 then .ok [] else (dumpVarint s).bind fun b => frame 1 .int64 b false false).bind fun a =>
  (if n == 0 then .ok [] else (dumpVarint n).bind fun b => frame 2 .int32 b false false).bind fun b =>
  .ok (a ++ b)

def tsBytes (us : Int) : R Bytes := secNanosBytes (tsSplit us).1 (tsSplit us).2
def durBytes (us : Int) : R Bytes := secNanosBytes (durSplit us).1 (durSplit us).2

/-- `bytes(Wrapper(value=v))`: one implicit-presence field #1 of the wrapped type -/
def wrapperBytes (S : Schema) (w : PType) (v : Val) : R Bytes :=
  if scalarIsDefault S w v then .ok []
  else (prepPlain w v).bind fun pre => frame 1 w pre false false

/-- `_preprocess_single` on everything except user messages (whose bytes come from the
    recursive encoder).  `wraps` only matters for `message`. -/
def prepScalar (S : Schema) (t : PType) (wraps : Option PType) (v : Val) : R Bytes :=
  if t == .message then
    match v with
    | .ts us => tsBytes us
    | .dur us => durBytes us
    | v =>
      match wraps with
      | some w =>
        (match v with
         | .none => .ok []
         | v => wrapperBytes S w v)
      | Option.none => .error .type
  else prepPlain t v

/-- `_serialize_single` for non-message values -/
def serializeScalar (S : Schema) (num : Nat) (t : PType) (v : Val) (serializeEmpty : Bool)
    (wraps : Option PType) : R Bytes :=
  (prepScalar S t wraps v).bind fun pre => frame num t pre serializeEmpty wraps.isSome

/-- packed payload: concatenation of `_preprocess_single(t, "", item)` -/
def prepPacked (S : Schema) (t : PType) : List Val → R Bytes
  | [] => .ok []
  | x :: xs => (prepScalar S t Option.none x).bind fun a => (prepPacked S t xs).bind fun b => .ok (a ++ b)

def isMsgVal : Val → Bool
  | .msg .. => true
  | _ => false

def onWireOf : Val → Bool
  | .msg _ _ ow _ _ => ow
  | _ => false

/-- `Message.dump` on a slot still holding PLACEHOLDER: `getattr` materialises the
    default, which equals the default by construction; a fresh default message is
    not `_serialized_on_wire` and encodes to no bytes (theorem `dump_fresh`). -/
def dumpDefault (S : Schema) (f : FieldD) (sel : Bool) : R Bytes :=
  let selG := f.group.isSome || f.optional
  match f.defKind with
  | .none => .ok []
  | k =>
    if !(selG || sel) then .ok []
    else
      match k with
      | .list => if isPacked f.ty then frame f.num .bytes [] false false else .ok []
      | .dict => .ok []
      | .msg _ => if f.ty == .message then frame f.num f.ty [] selG f.wraps.isSome else .error .type
      | k => serializeScalar S f.num f.ty (defaultOfKind S k) ((match k with | .str => sel | _ => false) || selG) f.wraps

mutual
/-- `bytes(value)` of a message instance -/
def dumpVal (S : Schema) : Val → R Bytes
  | .msg c slots _ unknown cur =>
    (dumpSlots S (fieldsOf S c) cur 0 slots).bind fun body => .ok (body ++ unknown)
  | _ => .error .type

/-- the loop of `Message.dump` over `meta_by_field_name` -/
def dumpSlots (S : Schema) (fs : List FieldD) (cur : List (Option Nat)) : Nat → List Val → R Bytes
  | _, [] => .ok []
  | idx, v :: vs =>
    match fs[idx]? with
    | Option.none => .ok []
    | some f =>
      (dumpSlot S f (hidden f idx cur) (selectedInGroup f idx cur) v).bind fun a =>
      (dumpSlots S fs cur (idx + 1) vs).bind fun b => .ok (a ++ b)

/-- one iteration of that loop: `hid` = getattr raised AttributeError,
    `sel` = `_include_default_value_for_oneof` -/
def dumpSlot (S : Schema) (f : FieldD) (hid sel : Bool) : Val → R Bytes
  | .ph => if hid then .ok [] else dumpDefault S f sel
  | .none => .ok []
  | .list xs =>
    if hid then .ok []
    else
      let selG := f.group.isSome || f.optional
      if eqDefault S f.defKind (.list xs) && !(selG || sel) then .ok []
      else if isPacked f.ty then (prepPacked S f.ty xs).bind fun buf => frame f.num .bytes buf false false
      else dumpItems S f xs
  | .dict ks vs =>
    if hid then .ok []
    else
      let selG := f.group.isSome || f.optional
      if eqDefault S f.defKind (.dict ks vs) && !(selG || sel) then .ok []
      else dumpEntries S f ks vs
  | .msg c slots ow unknown cur =>
    if hid then .ok []
    else
      let selG := f.group.isSome || f.optional
      if eqDefault S f.defKind (.msg c slots ow unknown cur) && !(selG || ow || sel) then .ok []
      else
        (dumpSlots S (fieldsOf S c) cur 0 slots).bind fun body =>
        if f.ty == PType.message && f.wraps.isNone then frame f.num f.ty (body ++ unknown) (ow || selG) false
        else .error .type
  | v =>
    if hid then .ok []
    else
      let selG := f.group.isSome || f.optional
      if eqDefault S f.defKind v && !(selG || sel) then .ok []
      else serializeScalar S f.num f.ty v ((match v with | .str [] => sel | _ => false) || selG) f.wraps

/-- non-packed repeated field: one record per item, `serialize_empty=True` -/
def dumpItems (S : Schema) (f : FieldD) : List Val → R Bytes
  | [] => .ok []
  | x :: xs =>
    (match x with
     | .msg c slots _ unknown cur =>
       (dumpSlots S (fieldsOf S c) cur 0 slots).bind fun body =>
       if f.ty == PType.message && f.wraps.isNone then frame f.num f.ty (body ++ unknown) true false else .error .type
     | x => serializeScalar S f.num f.ty x true f.wraps).bind fun a =>
    -- `or b"\n\x00"`: an empty serialisation is replaced by the two bytes 0a 00
    let a := if a.isEmpty then [10, 0] else a
    (dumpItems S f xs).bind fun b => .ok (a ++ b)

/-- map field: one length-delimited record per entry (`serialize_empty=True`), key = #1, value = #2 -/
def dumpEntries (S : Schema) (f : FieldD) : List Val → List Val → R Bytes
  | k :: ks, v :: vs =>
    (serializeScalar S 1 f.mapK k false Option.none).bind fun sk =>
    (match v with
     | .msg c slots _ unknown cur =>
       (dumpSlots S (fieldsOf S c) cur 0 slots).bind fun body =>
       if f.mapV == PType.message then frame 2 f.mapV (body ++ unknown) false false else .error .type
     | v => serializeScalar S 2 f.mapV v false Option.none).bind fun sv =>
    (frame f.num f.ty (sk ++ sv) true false).bind fun e =>
    (dumpEntries S f ks vs).bind fun rest => .ok (e ++ rest)
  | _, _ => .ok []
end

/-- `m.dump(stream, SIZE_DELIMITED)` given `len(m)` -/
def dumpDelimitedWith (len : Nat) (body : Bytes) : R Bytes :=
  (dumpVarint (len : Int)).bind fun p => .ok (p ++ body)

end Bp
