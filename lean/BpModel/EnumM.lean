import BpModel.Bytes
/-
  Model of `betterproto.enum` (src/betterproto/enum.py) and of the two JSON helpers
  `_dump_enum` / `_parse_enum` of src/betterproto/__init__.py.

  * an enum *definition* is the `members` dict built by `EnumType.__new__` from the class
    namespace: `(name, number)` pairs in declaration order.  It is a dict, so the names
    are pairwise distinct (`NamesNodup`); numbers are arbitrary Python ints (negative
    numbers and aliases included).
  * a *member object* carries its `name` (None for a value the enum does not define),
    its `number` (both the `int` value and the `.value` attribute: `Enum.__new__` builds
    them from the same argument) and an object identity `oid`: the position of the
    `cls.__new__` call that created it among all such calls for the class.  Identity
    (`is`) of two objects of the class is equality of `oid`.
  * the class state is `_value_map_`, `_member_map_` (association lists in insertion
    order, as Python dicts are) and the allocation counter.
  The name type `ν` is a parameter (Python `str`; the driver uses `String`).
-/
namespace Bp.EnumM

/-- `dict.get` / `dict[k]` on an insertion-ordered association list with distinct keys -/
def assoc {κ β : Type} [DecidableEq κ] (k : κ) : List (κ × β) → Option β
  | [] => none
  | (k', b) :: rest => if k = k' then some b else assoc k rest

structure Member (ν : Type) where
  name : Option ν
  number : Int
  oid : Nat
  deriving DecidableEq, Repr

/-- `int.__eq__`: an `Enum` object is an `int`; it compares equal to an integer iff its
    number is that integer -/
def Member.eqInt {ν : Type} (m : Member ν) (i : Int) : Bool := m.number == i

/-- `a is b` for two objects of the same enum class -/
def Member.same {ν : Type} (a b : Member ν) : Bool := a.oid == b.oid

abbrev Decl (ν : Type) := List (ν × Int)

structure Cls (ν : Type) where
  valueMap : List (Int × Member ν) := []
  memberMap : List (ν × Member ν) := []
  /-- number of `cls.__new__` calls so far -/
  next : Nat := 0
  deriving Repr

variable {ν : Type} [DecidableEq ν]

/-- one turn of the loop in `EnumType.__new__`:
    `member = value_map.get(value); if member is None: member = cls.__new__(cls, name=name, value=value);
     value_map[value] = member`; then `member_map[name] = member` -/
def declare (c : Cls ν) (n : ν) (v : Int) : Cls ν :=
  match assoc v c.valueMap with
  | some m => { c with memberMap := c.memberMap ++ [(n, m)] }
  | none =>
    let m : Member ν := { name := some n, number := v, oid := c.next }
    { valueMap := c.valueMap ++ [(v, m)], memberMap := c.memberMap ++ [(n, m)], next := c.next + 1 }

/-- the loop `for name, value in members.items()` -/
def build (c : Cls ν) : Decl ν → Cls ν
  | [] => c
  | (n, v) :: rest => build (declare c n v) rest

/-- `EnumType.__new__` on a definition -/
def mk (d : Decl ν) : Cls ν := build {} d

/-- the names of a definition are pairwise distinct (it is a dict) -/
def NamesNodup : Decl ν → Bool
  | [] => true
  | (n, _) :: rest => (assoc n rest).isNone && NamesNodup rest

/-- `cls(value)` — `EnumType.__call__`: KeyError becomes ValueError -/
def call (c : Cls ν) (v : Int) : R (Member ν) :=
  match assoc v c.valueMap with
  | some m => .ok m
  | none => .error .value

/-- `cls[name]` — `EnumType.__getitem__`: KeyError -/
def getitem (c : Cls ν) (n : ν) : R (Member ν) :=
  match assoc n c.memberMap with
  | some m => .ok m
  | none => .error .key

/-- `getattr(cls, name)` for a name that is not an attribute of `int` / `Enum`: the
    members are class variables of the per-enum metaclass; AttributeError otherwise -/
def getattr (c : Cls ν) (n : ν) : R (Member ν) :=
  match assoc n c.memberMap with
  | some m => .ok m
  | none => .error .attr

/-- `cls.from_string(name)`: KeyError becomes ValueError -/
def fromString (c : Cls ν) (n : ν) : R (Member ν) :=
  match assoc n c.memberMap with
  | some m => .ok m
  | none => .error .value

/-- `cls.try_value(value)`: the member, or a *new* object `cls.__new__(cls, name=None, value=value)`
    that is not entered into the maps (the enum is open) -/
def tryValue (c : Cls ν) (v : Int) : Cls ν × Member ν :=
  match assoc v c.valueMap with
  | some m => (c, m)
  | none => ({ c with next := c.next + 1 }, { name := none, number := v, oid := c.next })

/-- `list(cls)`: `cls._member_map_.values()` -/
def iter (c : Cls ν) : List (Member ν) := c.memberMap.map (·.2)

/-- `list(reversed(cls))` -/
def reversed (c : Cls ν) : List (Member ν) := (iter c).reverse

/-- `list(cls.__members__)`: the names, in order -/
def memberNames (c : Cls ν) : List ν := c.memberMap.map (·.1)

/-- `len(cls)` -/
def len (c : Cls ν) : Nat := c.memberMap.length

/-- `member in cls` for an object of the class: `member.name in cls._member_map_` -/
def contains (c : Cls ν) (m : Member ν) : Bool :=
  match m.name with
  | none => false
  | some n => (assoc n c.memberMap).isSome

/-- `i in cls` for a plain `int`: `isinstance(i, cls)` is false -/
def containsInt (_c : Cls ν) (_i : Int) : Bool := false

/-- attribute names used by the mutation attempts on a member -/
inductive Attr | name | value | other
  deriving DecidableEq, Repr

/-- operations of a lock-step run.  An operation on a member object designates the object
    as `cls.try_value(v)` (the canonical member of `v`, or a fresh open value). -/
inductive Op (ν : Type)
  | call (v : Int) | getitem (n : ν) | getattr (n : ν) | tryValue (v : Int) | fromString (n : ν)
  | iter | reversed | len | contains (v : Int) | containsInt (v : Int)
  -- mutation attempts
  | setattrCls (n : ν) (v : Int)      -- setattr(cls, n, v)       EnumType.__setattr__
  | delattrCls (n : ν)                -- delattr(cls, n)          EnumType.__delattr__
  | membersSet (n : ν) (v : Int)      -- cls.__members__[n] = v   MappingProxyType
  | setattrMem (v : Int) (a : Attr) (x : Int)   -- setattr(cls.try_value(v), a, x)   Enum.__setattr__
  | delattrMem (v : Int) (a : Attr)             -- delattr(cls.try_value(v), a)      Enum.__delattr__
  -- copies
  | copy (v : Int) | deepcopy (v : Int) | pickle (v : Int)
  deriving Repr

def Op.isMutation : Op ν → Bool
  | .setattrCls .. | .delattrCls .. | .membersSet .. | .setattrMem .. | .delattrMem .. => true
  | _ => false

inductive Out (ν : Type)
  | member (m : Member ν)
  /-- result of a copy: the new object and the object it was made from -/
  | copied (m : Member ν) (src : Member ν)
  | members (ms : List (Member ν))
  | nat (n : Nat)
  | bool (b : Bool)
  | err (e : PyErr)
  deriving DecidableEq, Repr

def outR (r : R (Member ν)) : Out ν :=
  match r with
  | .ok m => .member m
  | .error e => .err e

/-- one operation: new class state and what the caller sees.

    * the five mutation attempts raise (AttributeError; TypeError for the mapping proxy)
      *before* touching anything.  `setattr`/`delattr` on a member first evaluate
      `cls.try_value(v)`, which allocates an object when `v` is undefined.
    * `copy.copy` / `copy.deepcopy` return the object itself (`__copy__`/`__deepcopy__`);
    * `pickle.loads(pickle.dumps(m))` calls `cls.__new__(cls, name=m.name, value=m.value)`
      (`__getnewargs_ex__`): a new object with the same name and number. -/
def step (c : Cls ν) : Op ν → Cls ν × Out ν
  | .call v => (c, outR (call c v))
  | .getitem n => (c, outR (getitem c n))
  | .getattr n => (c, outR (getattr c n))
  | .tryValue v => let (c', m) := tryValue c v; (c', .member m)
  | .fromString n => (c, outR (fromString c n))
  | .iter => (c, .members (iter c))
  | .reversed => (c, .members (reversed c))
  | .len => (c, .nat (len c))
  | .contains v => let (c', m) := tryValue c v; (c', .bool (contains c' m))
  | .containsInt v => (c, .bool (containsInt c v))
  | .setattrCls _ _ => (c, .err .attr)
  | .delattrCls _ => (c, .err .attr)
  | .membersSet _ _ => (c, .err .type)
  | .setattrMem v _ _ => ((tryValue c v).1, .err .attr)
  | .delattrMem v _ => ((tryValue c v).1, .err .attr)
  | .copy v => let (c', m) := tryValue c v; (c', .copied m m)
  | .deepcopy v => let (c', m) := tryValue c v; (c', .copied m m)
  | .pickle v =>
    let (c', m) := tryValue c v
    ({ c' with next := c'.next + 1 }, .copied { name := m.name, number := m.number, oid := c'.next } m)

/-- is `m` the canonical member object of its number (`m is cls(m.value)`)? -/
def isCanonical (c : Cls ν) (m : Member ν) : Bool :=
  match call c m.number with
  | .ok m' => m'.same m
  | .error _ => false

/-! ### JSON (after the D14 repair): `_dump_enum` / `_parse_enum` -/

inductive JEnum (ν : Type)
  | name (n : ν)
  | num (v : Int)
  deriving DecidableEq, Repr

/-- `_dump_enum(cls, value)`: `cls(value).name`, or `int(value)` when `cls(value)` raises
    ValueError.  `none` = JSON null (a member whose name is None; unreachable for the
    members a class definition creates, see `EnumM.dump_ne_null`). -/
def dumpEnum (c : Cls ν) (v : Int) : Option (JEnum ν) :=
  match call c v with
  | .ok m => m.name.map JEnum.name
  | .error _ => some (.num v)

/-- `_parse_enum(cls, value)`: `from_string` for a str, `try_value` for a number -/
def parseEnum (c : Cls ν) : JEnum ν → Cls ν × R (Member ν)
  | .name n => (c, fromString c n)
  | .num v => let (c', m) := tryValue c v; (c', .ok m)

/-! ### specification-level vocabulary (used by the property statements) -/

/-- `v` is a number the definition declares -/
def Defined (d : Decl ν) (v : Int) : Prop := ∃ n, (n, v) ∈ d

/-- `n0` is the first name declared with number `v` -/
def FirstName (d : Decl ν) (v : Int) (n0 : ν) : Prop :=
  ∃ pre post, d = pre ++ (n0, v) :: post ∧ ∀ p ∈ pre, p.2 ≠ v

end Bp.EnumM
