import BpModel.Value
import BpModel.Load
/-
  Model of `Message.__eq__` (src/betterproto/__init__.py:847-869) and of the comparison of two
  field values it performs,

      if self_val != other_val:
          if _equal_or_both_nan(self_val, other_val): continue
          else: return False

  i.e. "`self_val == other_val`, or `_equal_or_both_nan(self_val, other_val)`"
  (`_equal_or_both_nan`, :703-713: `a == b`, except that two NaN floats count as equal, also
  inside lists — same length, item-wise — and dicts — equal key sets, value-wise).

  What is modelled, per Python type of the two operands:
    * `PLACEHOLDER` (only reachable inside a list): `object.__eq__`, identity of the singleton;
    * `None`: equal to `None` only;
    * `int` / `bool` / `float`: the numeric tower — `True == 1`, `1 == 1.0`, `-0.0 == 0.0`,
      `nan != nan` but the both-NaN rule above.  Floats are IEEE bit patterns (`f32 b`: the
      Python float whose value is that of the float32 pattern `b`); two patterns of the same
      width are compared directly (`f32Eq` / `f64Eq`), every other pair of numbers through
      the exact value `± mant · 2^exp` (`FNum`);
    * `str` / `bytes`: equal byte strings (a `str` is never equal to a `bytes`);
    * aware `datetime` / `timedelta`: the same instant / the same length;
    * `list`: same length and item-wise;
    * `dict`: as unordered maps — the same number of keys, every key of the left operand is a
      key of the right one (`keyEq`: `1 == True` as keys) and the values under it compare equal;
    * `Message`: `Message.__eq__` — the same class (otherwise `NotImplemented` from both
      sides, hence unequal), then field by field over the RAW slots in declaration order:
      PLACEHOLDER on both sides is skipped; PLACEHOLDER on one side is replaced by
      `_get_field_default` (`defaultOf`) of that field; then the comparison above.
      `_unknown_fields`, `_serialized_on_wire` and `_group_current` are not looked at;
    * operands of unrelated types: unequal.

  NOT modelled: object identity shortcuts (`x is y` inside `list.__eq__` / `dict.__eq__`) —
  the two operands are assumed to share no mutable object; for shared immutable objects
  the shortcut agrees with `==` except for a shared NaN object, where the both-NaN rule gives
  the same answer anyway.

  Every function is total and structurally recursive: `decide` / `rfl` evaluate closed terms.
  The comparison of a value with a field DEFAULT (`defEq`) is defined first, on its own: the
  default is not a sub-term of either operand, so `slotsEq` cannot recurse into it.  That it
  IS the general comparison against the materialised default, on either side, is
  `Bp.EqS.valEq_default_right` / `valEq_default_left` in BpProofs/EqSound.lean.
-/
namespace Bp

/-! ### numbers -/

/-- the exact value of a Python number: NaN, ±inf, or `± mant · 2^exp` -/
inductive FNum
  | nan
  | inf (neg : Bool)
  | fin (neg : Bool) (mant : Nat) (exp : Int)
  deriving Repr, DecidableEq

/-- value of an IEEE-754 binary pattern with `mbits` fraction bits, `ebits` exponent bits -/
def decodeIEEE (ebits mbits bias : Nat) (b : Nat) : FNum :=
  let frac := b % 2 ^ mbits
  let e := (b / 2 ^ mbits) % 2 ^ ebits
  let neg := (b / 2 ^ (mbits + ebits)) % 2 == 1
  if e == 2 ^ ebits - 1 then (if frac == 0 then .inf neg else .nan)
  else if e == 0 then .fin neg frac (1 - (bias : Int) - (mbits : Int))
  else .fin neg (2 ^ mbits + frac) ((e : Int) - (bias : Int) - (mbits : Int))

def decode32 (b : Nat) : FNum := decodeIEEE 8 23 127 b
def decode64 (b : Nat) : FNum := decodeIEEE 11 52 1023 b

def FNum.ofInt (i : Int) : FNum := .fin (decide (i < 0)) i.natAbs 0

/-- `x == y or (isnan(x) and isnan(y))` on exact values -/
def fnumEq : FNum → FNum → Bool
  | .nan, .nan => true
  | .inf a, .inf b => a == b
  | .fin n1 m1 e1, .fin n2 m2 e2 =>
    let e := if e1 ≤ e2 then e1 else e2
    let x := m1 * 2 ^ (e1 - e).toNat
    let y := m2 * 2 ^ (e2 - e).toNat
    x == y && (x == 0 || n1 == n2)
  | _, _ => false

/-- two float32 patterns: both NaN, or neither NaN and the same pattern or both zeros -/
def f32Eq (a b : Nat) : Bool :=
  if isNaN32 a || isNaN32 b then isNaN32 a && isNaN32 b
  else a == b || (f32IsZero a && f32IsZero b)

def f64Eq (a b : Nat) : Bool :=
  if isNaN64 a || isNaN64 b then isNaN64 a && isNaN64 b
  else a == b || (f64IsZero a && f64IsZero b)

/-- the number a value denotes, if it is one -/
def numOf : Val → Option FNum
  | .int i => some (FNum.ofInt i)
  | .bool b => some (FNum.ofInt (if b then 1 else 0))
  | .f32 b => some (decode32 b)
  | .f64 b => some (decode64 b)
  | _ => Option.none

/-! ### values that are neither a list, a dict nor a message -/

/-- the comparison of two field values when neither is a container (a container on either
    side: unequal — the container cases are `valEq`'s) -/
def atomEq : Val → Val → Bool
  | .ph, .ph => true
  | .none, .none => true
  | .int a, .int b => a == b
  | .bool a, .bool b => a == b
  | .int a, .bool b => a == (if b then 1 else 0)
  | .bool a, .int b => b == (if a then 1 else 0)
  | .f32 a, .f32 b => f32Eq a b
  | .f64 a, .f64 b => f64Eq a b
  | .str a, .str b => a == b
  | .byt a, .byt b => a == b
  | .ts a, .ts b => a == b
  | .dur a, .dur b => a == b
  -- the remaining pairs of numbers: int / bool against float, float32-valued against double
  | .int a, .f32 b => fnumEq (FNum.ofInt a) (decode32 b)
  | .int a, .f64 b => fnumEq (FNum.ofInt a) (decode64 b)
  | .bool a, .f32 b => fnumEq (FNum.ofInt (if a then 1 else 0)) (decode32 b)
  | .bool a, .f64 b => fnumEq (FNum.ofInt (if a then 1 else 0)) (decode64 b)
  | .f32 a, .int b => fnumEq (decode32 a) (FNum.ofInt b)
  | .f64 a, .int b => fnumEq (decode64 a) (FNum.ofInt b)
  | .f32 a, .bool b => fnumEq (decode32 a) (FNum.ofInt (if b then 1 else 0))
  | .f64 a, .bool b => fnumEq (decode64 a) (FNum.ofInt (if b then 1 else 0))
  | .f32 a, .f64 b => fnumEq (decode32 a) (decode64 b)
  | .f64 a, .f32 b => fnumEq (decode64 a) (decode32 b)
  | _, _ => false

/-! ### a value against the default of a field -/

/-- the default of kind `k` when it is not a container -/
def defAtom : DefKind → Option Val
  | .none => some .none
  | .int => some (.int 0)
  | .bool => some (.bool false)
  | .f32 => some (.f32 0)
  | .f64 => some (.f64 0)
  | .str => some (.str [])
  | .byt => some (.byt [])
  | .ts => some (.ts 0)
  | .dur => some (.dur 0)
  | .list | .dict | .msg _ => Option.none

/-- an atom `v` against the default of kind `k` (unequal when that default is a container).
    Used for both orders of the operands: `atomEq` is symmetric (`Bp.EqS.atomEq_comm`, BpProofs/EqSound.lean) -/
def atomDefEq (k : DefKind) (v : Val) : Bool :=
  match defAtom k with
  | some d => atomEq v d
  | Option.none => false

mutual
/-- the comparison of `v` with the default of kind `k` (`[]`, `{}`, a scalar zero, `None`,
    the epoch, a fresh `Cls()`), in either order -/
def defEq (S : Schema) (k : DefKind) : Val → Bool
  | .list xs => k == .list && xs.isEmpty
  | .dict ks _ => k == .dict && ks.isEmpty
  | .msg c sl _ _ _ =>
    match k with
    | .msg c' => c == c' && slotsDef S (fieldsOf S c) sl
    | _ => false
  | .ph => atomDefEq k .ph
  | .none => atomDefEq k .none
  | .int i => atomDefEq k (.int i)
  | .bool b => atomDefEq k (.bool b)
  | .f32 b => atomDefEq k (.f32 b)
  | .f64 b => atomDefEq k (.f64 b)
  | .str s => atomDefEq k (.str s)
  | .byt s => atomDefEq k (.byt s)
  | .ts us => atomDefEq k (.ts us)
  | .dur us => atomDefEq k (.dur us)
termination_by structural v => v
/-- `Message.__eq__` between the slots `vs` and those of a fresh instance (`None` for a
    proto3-optional field, PLACEHOLDER otherwise): PLACEHOLDER against `None` compares the
    field default with `None`; a value against `None` is equal only if it is `None`;
    PLACEHOLDER against PLACEHOLDER is skipped; a value against PLACEHOLDER is `defEq` -/
def slotsDef (S : Schema) : List FieldD → List Val → Bool
  | f :: fs, v :: vs =>
    (match v with
     | .ph => if f.optional then atomDefEq f.defKind .none else true
     | .none => if f.optional then true else atomDefEq f.defKind .none
     | v => if f.optional then false else defEq S f.defKind v) && slotsDef S fs vs
  | _, _ => true
termination_by structural _ vs => vs
end

/-! ### two values -/

/-- `b[key]`, `None` for a KeyError -/
def dictGet : List Val → List Val → Val → Option Val
  | k' :: ks, v' :: vs, k => if keyEq k' k then some v' else dictGet ks vs k
  | _, _, _ => Option.none

mutual
/-- `not (a != b) or _equal_or_both_nan(a, b)` for two field values -/
def valEq (S : Schema) : Val → Val → Bool
  | .list xs, b => (match b with | .list ys => listEq S xs ys | _ => false)
  | .dict ks vs, b =>
    (match b with
     | .dict ks' vs' => ks.length == ks'.length && dictEq S ks vs ks' vs'
     | _ => false)
  | .msg c sl _ _ _, b =>
    (match b with
     | .msg c' sl' _ _ _ => c == c' && slotsEq S (fieldsOf S c) sl sl'
     | _ => false)
  | .ph, b => atomEq .ph b
  | .none, b => atomEq .none b
  | .int i, b => atomEq (.int i) b
  | .bool x, b => atomEq (.bool x) b
  | .f32 x, b => atomEq (.f32 x) b
  | .f64 x, b => atomEq (.f64 x) b
  | .str s, b => atomEq (.str s) b
  | .byt s, b => atomEq (.byt s) b
  | .ts us, b => atomEq (.ts us) b
  | .dur us, b => atomEq (.dur us) b
termination_by structural a => a
/-- lists: the same length and item-wise -/
def listEq (S : Schema) : List Val → List Val → Bool
  | [], [] => true
  | x :: xs, y :: ys => valEq S x y && listEq S xs ys
  | _, _ => false
termination_by structural xs => xs
/-- every entry `(k, v)` of the left dict has a counterpart `b[k]` with `v` equal to it -/
def dictEq (S : Schema) : List Val → List Val → List Val → List Val → Bool
  | k :: ks, v :: vs, ks', vs' =>
    (match dictGet ks' vs' k with
     | some v' => valEq S v v'
     | Option.none => false) && dictEq S ks vs ks' vs'
  | _, _, _, _ => true
termination_by structural _ vs => vs
/-- the loop of `Message.__eq__` over `meta_by_field_name` -/
def slotsEq (S : Schema) : List FieldD → List Val → List Val → Bool
  | f :: fs, a :: as, b :: bs =>
    (match a with
     | .ph => (match b with
               | .ph => true
               | b => defEq S f.defKind b)
     | a => (match b with
             | .ph => defEq S f.defKind a
             | b => valEq S a b)) && slotsEq S fs as bs
  | _, _, _ => true
termination_by structural _ as => as
end

/-- `m == m'` for two message instances: `Message.__eq__` -/
def msgEq (S : Schema) (a b : Val) : Bool := isMsgVal a && isMsgVal b && valEq S a b

end Bp
