import BpModel.Varint
import BpModel.Gen.WireTables
/-
  Model of `load_fields` (src/betterproto/__init__.py, after the D09 repair): tag and
  payload framing.  Short reads raise EOFError, wire types 3/4/6/7 and field number 0
  raise ValueError; the input may end cleanly only at a field boundary.
-/
namespace Bp
open Gen

structure PField where
  num : Nat
  wt : Nat
  /-- decoded varint (wire type 0) -/
  vint : Nat
  /-- decoded bytes (wire types 1, 2, 5) -/
  payload : Bytes
  /-- every byte of the field as it was read: `ParsedField.raw` -/
  raw : Bytes
  deriving Repr, Inhabited, DecidableEq

/-- `_read_exact(stream, n)` on the remaining input -/
def readExact (bs : Bytes) (n : Nat) : R (Bytes × Bytes) :=
  if bs.length < n then .error .eof else .ok (bs.take n, bs.drop n)

/-- one field: returns it and the remaining input -/
def loadField (bs : Bytes) : R (PField × Bytes) :=
  match loadVarint bs with
  | .error e => .error e
  | .ok (numWire, k) =>
    let number := numWire / 8
    let wt := numWire % 8
    let rest := bs.drop k
    if number == 0 then .error .value
    else if wt == wireVarint then
      match loadVarint rest with
      | .error e => .error e
      | .ok (v, k2) => .ok ({ num := number, wt := wt, vint := v, payload := [], raw := bs.take (k + k2) }, rest.drop k2)
    else if wt == wireFixed64 then
      match readExact rest 8 with
      | .error e => .error e
      | .ok (p, rest') => .ok ({ num := number, wt := wt, vint := 0, payload := p, raw := bs.take (k + 8) }, rest')
    else if wt == wireLenDelim then
      match loadVarint rest with
      | .error e => .error e
      | .ok (len, k2) =>
        match readExact (rest.drop k2) len with
        | .error e => .error e
        | .ok (p, rest') => .ok ({ num := number, wt := wt, vint := 0, payload := p, raw := bs.take (k + k2 + len) }, rest')
    else if wt == wireFixed32 then
      match readExact rest 4 with
      | .error e => .error e
      | .ok (p, rest') => .ok ({ num := number, wt := wt, vint := 0, payload := p, raw := bs.take (k + 4) }, rest')
    else .error .value

/-- `load_fields` with explicit fuel (every field consumes at least one byte, so
    `bs.length + 1` always suffices: lemma `loadFields_fuel`) -/
def loadFieldsFuel : Nat → Bytes → R (List PField)
  | 0, _ => .error .assertion
  | fuel + 1, bs =>
    match bs with
    | [] => .ok []
    | _ =>
      match loadField bs with
      | .error e => .error e
      | .ok (pf, rest) =>
        match loadFieldsFuel fuel rest with
        | .error e => .error e
        | .ok pfs => .ok (pf :: pfs)

def loadFields (bs : Bytes) : R (List PField) := loadFieldsFuel (bs.length + 1) bs

end Bp
