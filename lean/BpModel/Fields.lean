import BpModel.Varint
import BpModel.Gen.WireTables
/-
  Model of `load_fields` (src/betterproto/__init__.py, after the D09 repair): tag and
  payload framing.  Short reads raise EOFError, wire types 3/4/6/7 and field number 0
  raise ValueError; the input may end cleanly only at a field boundary.
-/
namespace Bp
open Gen

structure PField where
  num : Nat
  wt : Nat
  /-- decoded varint (wire type 0) -/
  vint : Nat
  /-- decoded bytes (wire types 1, 2, 5) -/
  payload : Bytes
  /-- every byte of the field as it was read: `ParsedField.raw` -/
  raw : Bytes
  deriving Repr, Inhabited, DecidableEq

/-- the payload of a field of wire type `wt` at the head of `rest`:
    (decoded varint, decoded bytes, number of bytes consumed) -/
def loadPayload (wt : Nat) (rest : Bytes) : R (Nat × Bytes × Nat) :=
  if wt == wireVarint then
    match loadVarint rest with
    | .error e => .error e
    | .ok (v, k2) => .ok (v, [], k2)
  else if wt == wireFixed64 then
    if rest.length < 8 then .error .eof else .ok (0, rest.take 8, 8)
  else if wt == wireLenDelim then
    match loadVarint rest with
    | .error e => .error e
    | .ok (len, k2) =>
      if (rest.drop k2).length < len then .error .eof else .ok (0, (rest.drop k2).take len, k2 + len)
  else if wt == wireFixed32 then
    if rest.length < 4 then .error .eof else .ok (0, rest.take 4, 4)
  else .error .value

/-- one field: returns it and the remaining input -/
def loadField (bs : Bytes) : R (PField × Bytes) :=
  match loadVarint bs with
  | .error e => .error e
  | .ok (numWire, k) =>
    if numWire / 8 == 0 then .error .value
    else
      match loadPayload (numWire % 8) (bs.drop k) with
      | .error e => .error e
      | .ok (v, p, c) =>
        .ok ({ num := numWire / 8, wt := numWire % 8, vint := v, payload := p, raw := bs.take (k + c) },
             bs.drop (k + c))

/-- `load_fields` with explicit fuel (every field consumes at least one byte, so
    `bs.length + 1` always suffices: lemma `loadFields_fuel`) -/
def loadFieldsFuel : Nat → Bytes → R (List PField)
  | 0, _ => .error .assertion
  | fuel + 1, bs =>
    match bs with
    | [] => .ok []
    | _ =>
      match loadField bs with
      | .error e => .error e
      | .ok (pf, rest) =>
        match loadFieldsFuel fuel rest with
        | .error e => .error e
        | .ok pfs => .ok (pf :: pfs)

def loadFields (bs : Bytes) : R (List PField) := loadFieldsFuel (bs.length + 1) bs

end Bp
