/-
  C11 — model of what the generated client stub and the generated server base say about
  one RPC, and of the request-keyword resolution of ServiceStub.

  * `route`: ServiceMethodCompiler.route (plugin/models.py:726-731), the string both the
    stub call and the `__mapping__` key are rendered from.
  * `helperOf`/`cardOf`/`recvOf`/`sendOf`: the four-way branches of template.py.j2 on
    (client_streaming, server_streaming): which call helper the stub method uses, which
    Cardinality constant `__mapping__` lists, how `__rpc_*` obtains the request and how
    it delivers the response.
  * `resolve`/`resolveKw`: ServiceStub.__resolve_request_kwargs (grpclib_client.py:54-65).
  No imports: core Lean only (linked into the driver).
-/
namespace Bp.Grpc

abbrev Str := List Char

/-- `f"/{package_part}{service proto name}/{method proto name}"`,
    `package_part = f"{package}." if package else ""` -/
def packagePart (pkg : Str) : Str := if pkg.isEmpty then [] else pkg ++ ['.']

def route (pkg svc method : Str) : Str := '/' :: (packagePart pkg ++ svc ++ '/' :: method)

inductive Card
  | unaryUnary | unaryStream | streamUnary | streamStream
  deriving DecidableEq, Repr

/-- the cardinality the two streaming flags of the descriptor mean -/
def cardOf (clientStreaming serverStreaming : Bool) : Card :=
  match clientStreaming, serverStreaming with
  | false, false => .unaryUnary
  | false, true => .unaryStream
  | true, false => .streamUnary
  | true, true => .streamStream

def cardName : Card → String
  | .unaryUnary => "UNARY_UNARY"
  | .unaryStream => "UNARY_STREAM"
  | .streamUnary => "STREAM_UNARY"
  | .streamStream => "STREAM_STREAM"

/-- stub template: `{% if server_streaming %}{% if client_streaming %}_stream_stream{% else %}_unary_stream …` -/
def helperOf (clientStreaming serverStreaming : Bool) : String :=
  if serverStreaming then (if clientStreaming then "_stream_stream" else "_unary_stream")
  else (if clientStreaming then "_stream_unary" else "_unary_unary")

/-- `__mapping__` template: the `{% if not cs and not ss %} … {% elif … %}` chain -/
def mappingCardOf (clientStreaming serverStreaming : Bool) : String :=
  if !clientStreaming && !serverStreaming then "UNARY_UNARY"
  else if !clientStreaming && serverStreaming then "UNARY_STREAM"
  else if clientStreaming && !serverStreaming then "STREAM_UNARY"
  else "STREAM_STREAM"

/-- `__rpc_*`: `await stream.recv_message()` or `stream.__aiter__()` -/
def recvOf (clientStreaming : Bool) : String := if clientStreaming then "aiter" else "recv_message"

/-- `__rpc_*`: `await stream.send_message(await handler(request))` or `_call_rpc_handler_server_stream` -/
def sendOf (serverStreaming : Bool) : String := if serverStreaming then "server_stream" else "send_message"

/-- `self.x if x is None else x` -/
def resolve {α : Type} (stubDefault call : Option α) : Option α :=
  match call with
  | none => stubDefault
  | some v => some v

structure Kw (α : Type) where
  timeout : Option α
  deadline : Option α
  metadata : Option α
  deriving DecidableEq, Repr

/-- `ServiceStub.__resolve_request_kwargs(timeout, deadline, metadata)` -/
def resolveKw {α : Type} (stub call : Kw α) : Kw α :=
  { timeout := resolve stub.timeout call.timeout,
    deadline := resolve stub.deadline call.deadline,
    metadata := resolve stub.metadata call.metadata }

end Bp.Grpc
