import BpModel.Grpc
/-
  C11 — the CALL PROTOCOL of the client helpers of `ServiceStub` (grpclib_client.py), of the generated `__rpc_*`
  adapters of the server base (template.py.j2) and of `ServiceBase._call_rpc_handler_server_stream`
  (grpclib_server.py), over a minimal model of ONE grpclib stream (the external).

  THE EXTERNAL (grpclib 0.4.9 `client.Stream`, `server.Stream`, `server.request_handler`; assumed, validated by the
  correspondence run of harness/props/c11.py):
    * two FIFO directions.  `Up`: client → server messages with an END_STREAM flag.  `Down`: server → client
      messages, whether the server has sent initial metadata (`hdrs`: it does so with its first message — a status
      without any message is a "trailers-only" response), the final status (`fin`; `some none` = OK).
      Both FIFOs are unbounded: flow control, deadlines, cancellation, connection loss and RST_STREAM are NOT
      modelled (a send never blocks and never fails because the peer has finished).
    * the client stream object (`Client`): the cardinality given to `channel.request` and the flags
      `_send_request_done`, `_send_message_done`, `_end_done`, with the `ProtocolError` checks of `send_request`,
      `send_message`, `end`, `recv_trailing_metadata` as written in grpclib (`sendRequest`, `sendOp`, `endedOk`);
      for a cardinality that is not client streaming `send_message` FORCES END_STREAM whatever `end=` says.
    * client `recv_message`: next message; `None` when the server has finished; a non-OK trailers-only response
      raises its `GRPCError` here, a non-OK status after messages is raised when the `async with` block is left
      (`__aexit__` → `recv_trailing_metadata`), after the check "outgoing stream was ended".
    * server `recv_message`: next message, `None` at END_STREAM; server `send_message`; when the adapter returns
      the status is OK, when it raises `GRPCError(e)` the status is `e`, any other exception is
      `UNKNOWN "Internal Server Error"` (`Stream.__aexit__` of grpclib.server).
      Not modelled: the server-side checks "message was already sent" / "unary response needs a message" (the
      adapters modelled here send exactly one message before returning normally).

  THE CODE: the client helpers are lists of stream operations (`COp`); `_stream_stream` runs `_send_messages` as a
  second task (`spawn`).  The handler (user code) is an interaction tree `HProg`; the adapter + the handler are
  compiled into the server task's program `VProg`.  Three tasks (client main `M`, client sender `S`, server `V`)
  run under an ARBITRARY schedule (`step`, `run`); `call` is the run under the canonical schedule
  (M until it blocks, S, V, M), BpProofs/GrpcSched.lean proves every other schedule ends in the same state.
  No imports beyond BpModel.Grpc: core Lean only (linked into the driver).
-/
namespace Bp.GrpcCall
open Bp.Grpc

/-! ## values -/

/-- `grpclib.GRPCError(status, message)`: numeric value of the `Status` member and the message -/
structure GErr where
  status : Nat
  message : Option String
  deriving DecidableEq, Repr

/-- `grpclib.GRPCError(grpclib.const.Status.UNIMPLEMENTED)` -/
def unimplementedErr : GErr := ⟨12, none⟩
/-- what grpclib's server answers when the adapter raises anything but a GRPCError -/
def internalErr : GErr := ⟨2, some "Internal Server Error"⟩

/-- `Cardinality.X.client_streaming` -/
def csOf : Card → Bool
  | .unaryUnary => false | .unaryStream => false | .streamUnary => true | .streamStream => true
/-- `Cardinality.X.server_streaming` -/
def ssOf : Card → Bool
  | .unaryUnary => false | .unaryStream => true | .streamUnary => false | .streamStream => true

/-! ## the external: one grpclib stream -/

/-- the client's `Stream` object: cardinality of `channel.request` and the three send-side flags -/
structure Client where
  card : Card
  reqDone : Bool := false
  msgDone : Bool := false
  endDone : Bool := false
  deriving DecidableEq, Repr

structure Up (Req : Type) where
  msgs : List Req := []
  ended : Bool := false
  deriving DecidableEq, Repr

structure Down (Resp : Type) where
  msgs : List Resp := []
  hdrs : Bool := false
  fin : Option (Option GErr) := none
  deriving DecidableEq, Repr

/-- what a client-side send operation can raise -/
inductive CErr
  | protocol   -- grpclib.exceptions.ProtocolError
  | closed     -- h2 StreamClosedError: a frame after END_STREAM
  deriving DecidableEq, Repr

/-- the operations of `_send_messages`: `await stream.send_message(m, end=e)`, `await stream.end()` -/
inductive SOp (Req : Type)
  | message (m : Req) (e : Bool)
  | endStream
  deriving DecidableEq, Repr

/-- `Stream.send_request()` -/
def sendRequest (cl : Client) : Except CErr Client :=
  if cl.reqDone then .error .protocol else .ok { cl with reqDone := true }

/-- what `Stream.send_message(m, end=e)` / `Stream.end()` of grpclib.client do, given whether END_STREAM has gone
    out already: the new flags, the messages put on the wire, the new END_STREAM flag -/
def sendEff {Req : Type} (cl : Client) (ended : Bool) : SOp Req → Except CErr (Client × List Req × Bool)
  | .message m e =>
    -- `if not self._send_request_done: await self.send_request()`
    if !csOf cl.card && cl.msgDone then .error .protocol          -- 'Message was already sent'
    else if cl.endDone then .error .protocol                       -- 'Stream is ended'
    else if ended then .error .closed                              -- (h2) a frame after END_STREAM
    else .ok ({ cl with reqDone := true, msgDone := true, endDone := e }, [m], e || !csOf cl.card)
                                                                   -- unary request: END_STREAM forced
  | .endStream =>
    if !cl.reqDone then .error .protocol                           -- 'Request was not sent'
    else if cl.endDone then .error .protocol                       -- 'Stream was already ended'
    else if !csOf cl.card then
      (if !cl.msgDone then .error .protocol else .ok ({ cl with endDone := true }, [], ended))
    else if ended then .error .closed
    else .ok ({ cl with endDone := true }, [], true)

def sendOp {Req : Type} (cl : Client) (u : Up Req) (o : SOp Req) : Except CErr (Client × Up Req) :=
  match sendEff cl u.ended o with
  | .ok (cl', push, e') => .ok (cl', ⟨u.msgs ++ push, e'⟩)
  | .error x => .error x

/-- the check of `recv_trailing_metadata`: explicit end, or implicit end of a unary request -/
def endedOk (cl : Client) : Bool := cl.endDone || (!csOf cl.card && cl.msgDone)

/-! ## the client helpers: lists of operations -/

/-- one operation of a client helper, inside / after `async with self.channel.request(…) as stream` -/
inductive COp (Req : Type)
  | sendRequest                       -- `await stream.send_request()`
  | send (o : SOp Req)                -- `await stream.send_message(m, end=e)` / `await stream.end()`
  | spawn (ops : List (SOp Req))      -- `asyncio.ensure_future(self._send_messages(stream, it))`
  | recvMessage                       -- `response = await stream.recv_message()`
  | iterYield                         -- `async for x in stream: yield x`
  | exitCtx                           -- leaving the `async with` block (`Stream.__aexit__`)
  | assertResponse                    -- `assert response is not None`
  | returnResponse                    -- `return response`
  deriving DecidableEq, Repr

/-- how the helper's coroutine / async generator ended -/
inductive CResult (Resp : Type)
  | returned (r : Option Resp)
  | grpcError (e : GErr)
  | protocolError
  | closedError
  | assertionError
  | hang                               -- (only in an `Outcome`) blocked for ever
  deriving DecidableEq, Repr

/-- `channel.request(route, Cardinality.X, …, **kwargs)` + the body of the `async with` and what follows it -/
structure ClientProg (Req α : Type) where
  route : Str
  card : Card
  kw : Kw α
  ops : List (COp Req)
  deriving DecidableEq, Repr

/-- `_send_messages(stream, messages)`: every message with `end=False`, then `stream.end()` -/
def sendMessages {Req : Type} (ms : List Req) : List (SOp Req) :=
  ms.map (fun m => SOp.message m false) ++ [SOp.endStream]

/-- `_unary_unary(route, request, response_type, timeout=…, deadline=…, metadata=…)` -/
def unaryUnary {Req α : Type} (route : Str) (kw : Kw α) (req : Req) : ClientProg Req α :=
  ⟨route, .unaryUnary, kw, [.send (.message req true), .recvMessage, .exitCtx, .assertResponse, .returnResponse]⟩

/-- `_unary_stream` -/
def unaryStream {Req α : Type} (route : Str) (kw : Kw α) (req : Req) : ClientProg Req α :=
  ⟨route, .unaryStream, kw, [.send (.message req true), .iterYield, .exitCtx]⟩

/-- `_stream_unary`: `_send_messages` is awaited in line -/
def streamUnary {Req α : Type} (route : Str) (kw : Kw α) (reqs : List Req) : ClientProg Req α :=
  ⟨route, .streamUnary, kw,
    .sendRequest :: ((sendMessages reqs).map COp.send ++ [.recvMessage, .exitCtx, .assertResponse, .returnResponse])⟩

/-- `_stream_stream`: `_send_messages` runs as a task of its own -/
def streamStream {Req α : Type} (route : Str) (kw : Kw α) (reqs : List Req) : ClientProg Req α :=
  ⟨route, .streamStream, kw, [.sendRequest, .spawn (sendMessages reqs), .iterYield, .exitCtx]⟩

/-- the helper the stub method of an RPC with the given flags calls, on the caller's request(s): a unary
    helper sends the FIRST element of `reqs` (the stub method takes one message; `reqs = [r]`), with no element
    there is nothing to call with (the empty program: no operation at all) -/
def helperProg {Req α : Type} (card : Card) (route : Str) (kw : Kw α) (reqs : List Req) : ClientProg Req α :=
  match card, reqs with
  | .unaryUnary, r :: _ => unaryUnary route kw r
  | .unaryStream, r :: _ => unaryStream route kw r
  | .streamUnary, rs => streamUnary route kw rs
  | .streamStream, rs => streamStream route kw rs
  | c, [] => ⟨route, c, kw, []⟩

/-! ## the handler (user code) and the server adapters -/

/-- a handler body as an interaction tree: `recv` = `__anext__` of the request iterator (`none` = exhausted),
    `yield` (async generators), `ret` (`return r` of a coroutine; the end of a generator), `raise GRPCError` -/
inductive HProg (Req Resp : Type)
  | recv (k : Option Req → HProg Req Resp)
  | yield (r : Resp) (k : HProg Req Resp)
  | ret (r : Option Resp)
  | raise (e : GErr)

/-- an implementation of one method of the Base class: `isGen` = it is an async generator function (its body
    contains `yield`); `body req` = what it does given the request message (`none` for a request iterator, and
    for the `None` an adapter passes when the client sent no message) -/
structure Handler (Req Resp : Type) where
  isGen : Bool
  body : Option Req → HProg Req Resp

/-- the server task's program: the adapter and the handler compiled together.
    `recvA` = the adapter's own `await stream.recv_message()`; `recvH` = the handler pulling the request iterator
    (recorded in the trace); `call arg` = the handler's body starts (recorded: one invocation, given `arg`) -/
inductive VProg (Req Resp : Type)
  | recvA (k : Option Req → VProg Req Resp)
  | recvH (k : Option Req → VProg Req Resp)
  | call (arg : Option (Option Req)) (k : VProg Req Resp)
  | send (r : Resp) (k : VProg Req Resp)
  | fin (f : Option GErr)
  | halt

/-- `response = await self.m(request)` then `await stream.send_message(response)`, for a coroutine handler.
    `iter`: the handler was given `stream.__aiter__()`.  (Not Python: a `yield` in a coroutine is skipped, a
    `recv` without an iterator reads `None`; a coroutine returning `None` makes `send_message` fail to encode.) -/
def coroProg {Req Resp : Type} (iter : Bool) : HProg Req Resp → VProg Req Resp
  | .recv k => if iter then .recvH (fun x => coroProg iter (k x)) else coroProg iter (k none)
  | .yield _ k => coroProg iter k
  | .ret (some r) => .send r (.fin none)
  | .ret none => .fin (some internalErr)
  | .raise e => .fin (some e)

/-- `async for response_message in response_iter: await stream.send_message(response_message)` -/
def genProg {Req Resp : Type} (iter : Bool) : HProg Req Resp → VProg Req Resp
  | .recv k => if iter then .recvH (fun x => genProg iter (k x)) else genProg iter (k none)
  | .yield r k => .send r (genProg iter k)
  | .ret _ => .fin none
  | .raise e => .fin (some e)

/-- what is recorded as given to the handler at its invocation: the message for a unary request -/
def callArg {Req : Type} (iter : Bool) (req : Option Req) : Option (Option Req) := if iter then none else some req

/-- `ServiceBase._call_rpc_handler_server_stream(handler, stream, request)`:
    `response_iter = handler(request)`; an async generator is iterated and every item sent; anything else (a
    coroutine: the handler has no `yield`) is closed WITHOUT being run -/
def callServerStream {Req Resp : Type} (h : Handler Req Resp) (iter : Bool) (req : Option Req) : VProg Req Resp :=
  if h.isGen then .call (callArg iter req) (genProg iter (h.body req)) else .fin none

/-- `response = await self.m(request); await stream.send_message(response)`: awaiting an async generator
    object is a TypeError (→ UNKNOWN), the body does not run -/
def callUnaryResp {Req Resp : Type} (h : Handler Req Resp) (iter : Bool) (req : Option Req) : VProg Req Resp :=
  if h.isGen then .fin (some internalErr) else .call (callArg iter req) (coroProg iter (h.body req))

/-- the shape of a generated `__rpc_<name>`: how it gets the request, how it delivers the response -/
inductive RecvShape | recvMessage | aiter deriving DecidableEq, Repr
inductive SendShape | sendMessage | serverStream deriving DecidableEq, Repr
structure Adapter where
  recv : RecvShape
  send : SendShape
  deriving DecidableEq, Repr

/-- template.py.j2: `{% if not method.client_streaming %} recv_message {% else %} __aiter__`,
    `{% if not method.server_streaming %} send_message {% else %} _call_rpc_handler_server_stream` -/
def rpcShape (card : Card) : Adapter :=
  ⟨if csOf card then .aiter else .recvMessage, if ssOf card then .serverStream else .sendMessage⟩

def afterRecv {Req Resp : Type} (a : Adapter) (h : Handler Req Resp) (req : Option Req) : VProg Req Resp :=
  match a.send with
  | .sendMessage => callUnaryResp h (a.recv == .aiter) req
  | .serverStream => callServerStream h (a.recv == .aiter) req

/-- `__rpc_<name>(self, stream)` with the handler `self.<name>` -/
def serverProg {Req Resp : Type} (a : Adapter) (h : Handler Req Resp) : VProg Req Resp :=
  match a.recv with
  | .recvMessage => .recvA (afterRecv a h)
  | .aiter => afterRecv a h none

/-- the default body of every Base method: `raise grpclib.GRPCError(grpclib.const.Status.UNIMPLEMENTED)`,
    followed by the unreachable `yield` that makes it an async generator exactly when server streaming -/
def unimplementedHandler {Req Resp : Type} (card : Card) : Handler Req Resp :=
  ⟨ssOf card, fun _ => .raise unimplementedErr⟩

/-! ## three tasks under a schedule -/

/-- the client's main task: the helper's coroutine / async generator.  Finished when `ops = []`: `result` is then
    how it ended (`none`: fell off the end — an exhausted generator) -/
structure MSt (Req Resp : Type) where
  ops : List (COp Req)
  resp : Option Resp := none          -- the local `response`
  yielded : List Resp := []           -- what the caller's `async for` has received so far
  result : Option (CResult Resp) := none

/-- the server task, with the trace of what the handler was given -/
structure VSt (Req Resp : Type) where
  prog : VProg Req Resp
  calls : Nat := 0                    -- number of times the handler's body was started
  hIn : List (Option Req) := []       -- its unary argument / the answers to its pulls of the request iterator
  sawEnd : Bool := false              -- a server-side `recv_message` returned `None`

structure Cfg (Req Resp : Type) where
  cl : Client
  up : Up Req
  down : Down Resp
  s : List (SOp Req)                  -- the client's sender task (`_send_messages` under `ensure_future`)
  m : MSt Req Resp
  v : VSt Req Resp

variable {Req Resp : Type}

def CErr.toResult : CErr → CResult Resp
  | .protocol => .protocolError
  | .closed => .closedError

/-- the main task ends with an exception -/
def failM (c : Cfg Req Resp) (r : CResult Resp) : Cfg Req Resp :=
  { c with m := { c.m with ops := [], result := some r } }

/-- what client-side `recv_message()` does: `none` = it waits -/
inductive RecvAns (Resp : Type)
  | msg (r : Resp) (d : Down Resp)
  | eof
  | err (e : GErr)

def downRecv (d : Down Resp) : Option (RecvAns Resp) :=
  match d.msgs with
  | r :: rs => some (.msg r { d with msgs := rs })
  | [] =>
    match d.fin with
    | none => none
    | some none => some .eof
    | some (some e) => if d.hdrs then some .eof else some (.err e)     -- trailers-only: raised at once

/-- `Stream.__aexit__` without a pending exception (`_maybe_finish`): outer `none` = it waits for the status;
    `some none` = leaves normally.  `strict = false` is the semantics WITHOUT the check "outgoing stream was
    ended" (used only as a proof device: BpProofs/GrpcSched.lean) -/
def exitCheck (strict : Bool) (cl : Client) (d : Down Resp) : Option (Option (CResult Resp)) :=
  if !cl.reqDone then some none
  else
    match d.fin with
    | none => none
    | some f =>
      match f, d.hdrs with
      | some e, false => some (some (.grpcError e))                    -- trailers-only: `recv_initial_metadata`
      | _, _ =>
        if strict && !endedOk cl then some (some .protocolError)       -- 'Outgoing stream was not ended'
        else
          match f with
          | some e => some (some (.grpcError e))
          | none => some none

/-- one step of the main task; `none` = waiting or finished -/
def mStep (strict : Bool) (c : Cfg Req Resp) : Option (Cfg Req Resp) :=
  match c.m.ops with
  | [] => none
  | op :: rest =>
    match op with
    | .sendRequest =>
      match sendRequest c.cl with
      | .ok cl => some { c with cl := cl, m := { c.m with ops := rest } }
      | .error e => some (failM c e.toResult)
    | .send o =>
      match sendOp c.cl c.up o with
      | .ok (cl, up) => some { c with cl := cl, up := up, m := { c.m with ops := rest } }
      | .error e => some (failM c e.toResult)
    | .spawn ops => some { c with s := c.s ++ ops, m := { c.m with ops := rest } }
    | .recvMessage =>
      if !c.cl.reqDone then some (failM c .protocolError)               -- 'Request was not sent yet'
      else
        match downRecv c.down with
        | none => none
        | some (.msg r d) => some { c with down := d, m := { c.m with ops := rest, resp := some r } }
        | some .eof => some { c with m := { c.m with ops := rest, resp := none } }
        | some (.err e) => some (failM c (.grpcError e))
    | .iterYield =>
      if !c.cl.reqDone then some (failM c .protocolError)
      else
        match downRecv c.down with
        | none => none
        | some (.msg r d) => some { c with down := d, m := { c.m with yielded := c.m.yielded ++ [r] } }
        | some .eof => some { c with m := { c.m with ops := rest } }
        | some (.err e) => some (failM c (.grpcError e))
    | .exitCtx =>
      match exitCheck strict c.cl c.down with
      | none => none
      | some none => some { c with m := { c.m with ops := rest } }
      | some (some r) => some (failM c r)
    | .assertResponse =>
      if c.m.resp.isSome then some { c with m := { c.m with ops := rest } } else some (failM c .assertionError)
    | .returnResponse => some { c with m := { c.m with ops := [], result := some (.returned c.m.resp) } }

/-- one step of the sender task: an exception ends it (nobody awaits the task) -/
def sStep (c : Cfg Req Resp) : Option (Cfg Req Resp) :=
  match c.s with
  | [] => none
  | o :: rest =>
    match sendOp c.cl c.up o with
    | .ok (cl, up) => some { c with cl := cl, up := up, s := rest }
    | .error _ => some { c with s := [] }

/-- one step of the server task; it starts when the request headers have arrived -/
def vStep (c : Cfg Req Resp) : Option (Cfg Req Resp) :=
  if !c.cl.reqDone then none
  else
    match c.v.prog with
    | .halt => none
    | .recvA k =>
      match c.up.msgs with
      | m :: ms => some { c with up := { c.up with msgs := ms }, v := { c.v with prog := k (some m) } }
      | [] => if c.up.ended then some { c with v := { c.v with prog := k none, sawEnd := true } } else none
    | .recvH k =>
      match c.up.msgs with
      | m :: ms =>
        some { c with up := { c.up with msgs := ms }, v := { c.v with prog := k (some m), hIn := c.v.hIn ++ [some m] } }
      | [] =>
        if c.up.ended then some { c with v := { c.v with prog := k none, hIn := c.v.hIn ++ [none], sawEnd := true } }
        else none
    | .call arg k => some { c with v := { c.v with prog := k, calls := c.v.calls + 1, hIn := c.v.hIn ++ arg.toList } }
    | .send r k => some { c with down := { c.down with msgs := c.down.msgs ++ [r], hdrs := true }, v := { c.v with prog := k } }
    | .fin f => some { c with down := { c.down with fin := some f }, v := { c.v with prog := .halt } }

inductive Task | M | S | V
  deriving DecidableEq, Repr

def step (strict : Bool) : Task → Cfg Req Resp → Option (Cfg Req Resp)
  | .M, c => mStep strict c
  | .S, c => sStep c
  | .V, c => vStep c

/-- a schedule: the task named next takes one step if it can (else nothing happens) -/
def run (strict : Bool) : List Task → Cfg Req Resp → Cfg Req Resp
  | [], c => c
  | t :: ts, c =>
    match step strict t c with
    | some c' => run strict ts c'
    | none => run strict ts c

/-- no task can take a step -/
def quiescent (strict : Bool) (c : Cfg Req Resp) : Bool :=
  (mStep strict c).isNone && (sStep c).isNone && (vStep c).isNone

/-! ## the canonical schedule: M as far as it gets, S to its end, V as far as it gets, M again -/

/-- the main task until it waits or ends (`iterYield` takes every message that is there) -/
def mRun (strict : Bool) : List (COp Req) → Cfg Req Resp → Cfg Req Resp
  | [], c => { c with m := { c.m with ops := [] } }
  | op :: rest, c =>
    match op with
    | .sendRequest =>
      match sendRequest c.cl with
      | .ok cl => mRun strict rest { c with cl := cl }
      | .error e => failM c e.toResult
    | .send o =>
      match sendOp c.cl c.up o with
      | .ok (cl, up) => mRun strict rest { c with cl := cl, up := up }
      | .error e => failM c e.toResult
    | .spawn ops => mRun strict rest { c with s := c.s ++ ops }
    | .recvMessage =>
      if !c.cl.reqDone then failM c .protocolError
      else
        match downRecv c.down with
        | none => { c with m := { c.m with ops := op :: rest } }
        | some (.msg r d) => mRun strict rest { c with down := d, m := { c.m with resp := some r } }
        | some .eof => mRun strict rest { c with m := { c.m with resp := none } }
        | some (.err e) => failM c (.grpcError e)
    | .iterYield =>
      if !c.cl.reqDone then failM c .protocolError
      else
        let c' : Cfg Req Resp :=
          { c with down := { c.down with msgs := [] }, m := { c.m with yielded := c.m.yielded ++ c.down.msgs } }
        match downRecv c'.down with
        | none => { c' with m := { c'.m with ops := op :: rest } }
        | some (.msg _ _) => { c' with m := { c'.m with ops := op :: rest } }   -- not reached: no message is left
        | some .eof => mRun strict rest c'
        | some (.err e) => failM c' (.grpcError e)
    | .exitCtx =>
      match exitCheck strict c.cl c.down with
      | none => { c with m := { c.m with ops := op :: rest } }
      | some none => mRun strict rest c
      | some (some r) => failM c r
    | .assertResponse => if c.m.resp.isSome then mRun strict rest c else failM c .assertionError
    | .returnResponse => { c with m := { c.m with ops := [], result := some (.returned c.m.resp) } }

def sRunL : List (SOp Req) → Client → Up Req → Client × Up Req
  | [], cl, up => (cl, up)
  | o :: rest, cl, up =>
    match sendOp cl up o with
    | .ok (cl', up') => sRunL rest cl' up'
    | .error _ => (cl, up)

/-- the sender task to its end -/
def sRun (c : Cfg Req Resp) : Cfg Req Resp :=
  let r := sRunL c.s c.cl c.up
  { c with cl := r.1, up := r.2, s := [] }

/-- the server task until it waits or halts -/
def vRun : VProg Req Resp → Cfg Req Resp → Cfg Req Resp
  | .halt, c => { c with v := { c.v with prog := .halt } }
  | .recvA k, c =>
    match c.up.msgs with
    | m :: ms => vRun (k (some m)) { c with up := { c.up with msgs := ms } }
    | [] =>
      if c.up.ended then vRun (k none) { c with v := { c.v with sawEnd := true } }
      else { c with v := { c.v with prog := .recvA k } }
  | .recvH k, c =>
    match c.up.msgs with
    | m :: ms => vRun (k (some m)) { c with up := { c.up with msgs := ms }, v := { c.v with hIn := c.v.hIn ++ [some m] } }
    | [] =>
      if c.up.ended then vRun (k none) { c with v := { c.v with hIn := c.v.hIn ++ [none], sawEnd := true } }
      else { c with v := { c.v with prog := .recvH k } }
  | .call arg k, c => vRun k { c with v := { c.v with calls := c.v.calls + 1, hIn := c.v.hIn ++ arg.toList } }
  | .send r k, c => vRun k { c with down := { c.down with msgs := c.down.msgs ++ [r], hdrs := true } }
  | .fin f, c => { c with down := { c.down with fin := some f }, v := { c.v with prog := .halt } }

def vRunG (c : Cfg Req Resp) : Cfg Req Resp := if c.cl.reqDone then vRun c.v.prog c else c

def mRunC (strict : Bool) (c : Cfg Req Resp) : Cfg Req Resp := mRun strict c.m.ops c

def canon (strict : Bool) (c : Cfg Req Resp) : Cfg Req Resp := mRunC strict (vRunG (sRun (mRunC strict c)))

/-! ## a call -/

def VProg.isHalt : VProg Req Resp → Bool
  | .halt => true
  | _ => false

/-- what the two users see of a call: the handler's side (how often its body was started, what it was given,
    whether the server finished) and the caller's side (the items its `async for` received, how the call ended) -/
structure Outcome (Req Resp : Type) where
  calls : Nat
  hIn : List (Option Req)
  served : Bool
  yielded : List Resp
  result : CResult Resp
  deriving DecidableEq, Repr

def outcome (c : Cfg Req Resp) : Outcome Req Resp :=
  { calls := c.v.calls, hIn := c.v.hIn, served := c.v.prog.isHalt, yielded := c.m.yielded,
    result := match c.m.ops with
      | [] => c.m.result.getD (.returned none)
      | _ :: _ => .hang }

/-- the start of a call: nothing sent, the client program and the server program at their first operation -/
def initV {α : Type} (p : ClientProg Req α) (v : VProg Req Resp) : Cfg Req Resp :=
  { cl := { card := p.card }, up := {}, down := {}, s := [], m := { ops := p.ops }, v := { prog := v } }

def init {α : Type} (p : ClientProg Req α) (a : Adapter) (h : Handler Req Resp) : Cfg Req Resp :=
  initV p (serverProg a h)

/-- a client program against a server program, under the canonical schedule -/
def callProg {α : Type} (p : ClientProg Req α) (v : VProg Req Resp) : Outcome Req Resp :=
  outcome (canon true (initV p v))

/-- a client program against an adapter + handler, under the canonical schedule -/
def callWith {α : Type} (p : ClientProg Req α) (a : Adapter) (h : Handler Req Resp) : Outcome Req Resp :=
  callProg p (serverProg a h)

/-- the call of an RPC of cardinality `card` through the generated stub and the generated base -/
def call (card : Card) (h : Handler Req Resp) (reqs : List Req) : Outcome Req Resp :=
  callWith (helperProg (α := Unit) card [] ⟨none, none, none⟩ reqs) (rpcShape card) h

end Bp.GrpcCall
