/-
  Heap model of `copy.copy` / `copy.deepcopy` / pickle on betterproto messages (C14, aliasing half).

  A value tree (`Val`, BpModel/Value.lean) has no object identity, so "mutating a copy never
  affects the original" cannot even be stated over it.  Here objects live in a heap:

    * object id = index into `Heap := List Cell`; allocation = append;
    * `HVal` = what a slot / list item / map value holds: `ph` (PLACEHOLDER: the slot was never
      assigned), an immutable scalar `leaf tag` (payload abstracted to a tag), or a reference `ref id`;
    * cells: `msg slots onWire unk gc` (a Message: raw slots in field-number order,
      `_serialized_on_wire`, the id of the `bytes` cell holding `_unknown_fields`, the id of the `gcur`
      cell holding `_group_current`), `list items` (a repeated field's list), `dict keys vals` (a map
      field's dict, keys are scalars), `gcur sel` (the `_group_current` dict: per oneof group the
      selected slot index) and `bytes bs` (an IMMUTABLE `bytes` object).
      `_group_current` and `_unknown_fields` are cells of their own because sharing them between a copy
      and its original is a real bug class.

  `Message.__copy_state_to(clone, dup)` (src/betterproto/__init__.py):
      for every raw slot that is not PLACEHOLDER: clone.slot = dup(value)
      clone._serialized_on_wire = self._serialized_on_wire
      clone._unknown_fields = self._unknown_fields          (the same immutable bytes object)
      clone._group_current = dict(self._group_current)      (a NEW dict)
  with `dup` = identity (`__copy__`) or `copy.deepcopy` WITHOUT the caller's memo (`__deepcopy__(self, _)`
  ignores its memo argument and calls `deepcopy(value)`): every field of every message is deep-copied
  with a FRESH memo.  Inside one field `copy.deepcopy` threads its memo through lists and dicts, so
  the same sub-message twice in one list stays one object in the copy, whereas the same sub-message
  in two fields becomes two objects.  `copyVal` models exactly that (quirk included; it is observed
  on the real code by the correspondence run, harness/props/c14.py stage "heap").
  A reference cycle always passes through a Message (list items / map values are scalars or
  messages), whose `__deepcopy__` drops the memo: Python raises RecursionError, the model runs out
  of fuel and returns `none`.
-/
namespace Bp.Hp

inductive HVal where
  | ph
  | leaf (tag : Nat)
  | ref (id : Nat)
  deriving DecidableEq, Repr, Inhabited

inductive Cell where
  | msg (slots : List HVal) (onWire : Bool) (unk : Nat) (gc : Nat)
  | list (items : List HVal)
  | dict (keys : List Nat) (vals : List HVal)
  | gcur (sel : List (Option Nat))
  | bytes (bs : List Nat)
  deriving DecidableEq, Repr, Inhabited

abbrev Heap := List Cell

def HVal.refs : HVal → List Nat
  | .ref i => [i]
  | _ => []

def itemRefs : List HVal → List Nat
  | [] => []
  | v :: r => v.refs ++ itemRefs r

/-- the objects a cell points to -/
def Cell.refs : Cell → List Nat
  | .msg sl _ u g => u :: g :: itemRefs sl
  | .list it => itemRefs it
  | .dict _ vs => itemRefs vs
  | .gcur _ => []
  | .bytes _ => []

/-- `bytes` objects are the only immutable cells -/
def isBytes (h : Heap) (i : Nat) : Bool :=
  match h[i]? with
  | some (.bytes _) => true
  | _ => false

def bytesAt (h : Heap) (i : Nat) : List Nat :=
  match h[i]? with
  | some (.bytes bs) => bs
  | _ => []

def selAt (h : Heap) (i : Nat) : List (Option Nat) :=
  match h[i]? with
  | some (.gcur sel) => sel
  | _ => []

/-! ### reachability (executable; the proofs use the inductive `Reach` of BpProofs/HeapBasic.lean) -/

/-- ids on paths of at most `n` edges from `i` (tree unfolding, with repetitions) -/
def reachF : Nat → Heap → Nat → List Nat
  | 0, _, i => [i]
  | n + 1, h, i =>
    i :: (match h[i]? with
          | some c => c.refs.flatMap (reachF n h)
          | none => [])

/-- the ids reachable from `i` (a simple path has fewer than `h.length` edges when references are in range) -/
def reach (h : Heap) (i : Nat) : List Nat := (reachF h.length h i).eraseDups

/-! ### abstraction back to a plain tree -/

inductive Tree where
  | ph
  | leaf (tag : Nat)
  | msg (slots : List Tree) (onWire : Bool) (unk : List Nat) (sel : List (Option Nat))
  | list (items : List Tree)
  | dict (keys : List Nat) (vals : List Tree)
  | gsel (sel : List (Option Nat))
  | blob (bs : List Nat)
  | cut
  deriving Repr, Inhabited

/-- the value seen through `v`, to depth `n` (`cut` below; on an acyclic heap a large enough `n`
    gives the whole value; the theorems hold for EVERY `n`) -/
def absV : Nat → Heap → HVal → Tree
  | _, _, .ph => .ph
  | _, _, .leaf t => .leaf t
  | 0, _, .ref _ => .cut
  | n + 1, h, .ref i =>
    match h[i]? with
    | none => .cut
    | some (.msg sl ow u g) => .msg (sl.map (absV n h)) ow (bytesAt h u) (selAt h g)
    | some (.list it) => .list (it.map (absV n h))
    | some (.dict ks vs) => .dict ks (vs.map (absV n h))
    | some (.gcur sel) => .gsel sel
    | some (.bytes bs) => .blob bs

def absVal (n : Nat) (h : Heap) (id : Nat) : Tree := absV n h (.ref id)

/-- flat prefix code of a tree (decidable equality for the `decide` witnesses) -/
def Tree.enc : Tree → List Nat
  | .ph => [0]
  | .leaf t => [1, t]
  | .msg sl ow u sel => [2, sl.length, if ow then 1 else 0, u.length] ++ u ++ [sel.length]
      ++ sel.map (fun o => match o with | none => 0 | some k => k + 1) ++ encL sl
  | .list it => [3, it.length] ++ encL it
  | .dict ks vs => [4, ks.length] ++ ks ++ [vs.length] ++ encL vs
  | .gsel sel => [5, sel.length] ++ sel.map (fun o => match o with | none => 0 | some k => k + 1)
  | .blob bs => [6, bs.length] ++ bs
  | .cut => [7]
where encL : List Tree → List Nat
  | [] => []
  | t :: r => t.enc ++ encL r

/-! ### copies -/

abbrev Memo := List (Nat × Nat)

/-- knobs for the seeded-bug witnesses; the code is `{}` -/
structure Cfg where
  /-- BUG CLASS: `clone._group_current = self._group_current` instead of `dict(…)` -/
  shareGc : Bool := false
  /-- `false`: nothing is remembered (an unpickled copy: `parse(bytes(m))` builds a tree of fresh objects) -/
  useMemo : Bool := true
  deriving DecidableEq, Repr

def remember (cfg : Cfg) (i j : Nat) (m : Memo) : Memo := if cfg.useMemo then (i, j) :: m else m

/-- copy the items left to right, threading heap and memo -/
def copyItems (f : Heap → Memo → HVal → Option (Heap × Memo × HVal)) :
    Heap → Memo → List HVal → Option (Heap × Memo × List HVal)
  | h, m, [] => some (h, m, [])
  | h, m, v :: vs =>
    match f h m v with
    | none => none
    | some (h1, m1, v') =>
      match copyItems f h1 m1 vs with
      | none => none
      | some (h2, m2, vs') => some (h2, m2, v' :: vs')

/-- `deepcopy(value)` as `__copy_state_to` calls it: with a FRESH memo, which is then dropped -/
def freshMemo (f : Heap → Memo → HVal → Option (Heap × Memo × HVal)) :
    Heap → Memo → HVal → Option (Heap × Memo × HVal) :=
  fun h m v =>
    match f h [] v with
    | none => none
    | some (h', _, v') => some (h', m, v')

/-- `copy.deepcopy(v, memo)`; `none` = out of fuel (RecursionError on a cyclic graph) or a dangling reference -/
def copyVal (cfg : Cfg) : Nat → Heap → Memo → HVal → Option (Heap × Memo × HVal)
  | _, h, m, .ph => some (h, m, .ph)
  | _, h, m, .leaf t => some (h, m, .leaf t)
  | 0, _, _, .ref _ => none
  | fuel + 1, h, m, .ref i =>
    match m.lookup i with
    | some j => some (h, m, .ref j)
    | none =>
      match h[i]? with
      | none => none
      | some (.bytes _) => some (h, m, .ref i)
      | some (.gcur sel) => some (h ++ [.gcur sel], remember cfg i h.length m, .ref h.length)
      | some (.list it) =>
        match copyItems (copyVal cfg fuel) h m it with
        | none => none
        | some (h1, m1, it') => some (h1 ++ [.list it'], remember cfg i h1.length m1, .ref h1.length)
      | some (.dict ks vs) =>
        match copyItems (copyVal cfg fuel) h m vs with
        | none => none
        | some (h1, m1, vs') => some (h1 ++ [.dict ks vs'], remember cfg i h1.length m1, .ref h1.length)
      | some (.msg sl ow u g) =>
        match copyItems (freshMemo (copyVal cfg fuel)) h m sl with
        | none => none
        | some (h1, m1, sl') =>
          if cfg.shareGc then
            some (h1 ++ [.msg sl' ow u g], remember cfg i h1.length m1, .ref h1.length)
          else
            some (h1 ++ [.gcur (selAt h g), .msg sl' ow u h1.length],
                  remember cfg i (h1.length + 1) m1, .ref (h1.length + 1))

def copyWith (cfg : Cfg) (fuel : Nat) (h : Heap) (o : Nat) : Option (Heap × Nat) :=
  match copyVal cfg fuel h [] (.ref o) with
  | some (h', _, .ref c) => some (h', c)
  | _ => none

/-- `copy.deepcopy(o)` -/
def deepCopy (fuel : Nat) (h : Heap) (o : Nat) : Option (Heap × Nat) := copyWith {} fuel h o

/-- the aliasing structure of `pickle.loads(pickle.dumps(o))`: a tree of fresh objects
    (that the VALUE survives the wire round trip is C01 / `C14.pickle_is_wire_roundtrip`) -/
def pickleCopy (fuel : Nat) (h : Heap) (o : Nat) : Option (Heap × Nat) := copyWith { useMemo := false } fuel h o

/-- `copy.copy(o)`: a new message cell with the SAME slot values and bytes object, and a new `gcur` cell -/
def shallowCopy (h : Heap) (o : Nat) : Option (Heap × Nat) :=
  match h[o]? with
  | some (.msg sl ow u g) => some (h ++ [.gcur (selAt h g), .msg sl ow u h.length], h.length + 1)
  | _ => none

/-- BUG CLASS witness: `copy.copy` that shares `_group_current` -/
def shallowCopySharedGc (h : Heap) (o : Nat) : Option (Heap × Nat) :=
  match h[o]? with
  | some (.msg sl ow u g) => some (h ++ [.msg sl ow u g], h.length)
  | _ => none

/-! ### mutations -/

inductive Mut where
  /-- `t.field_i = v` for a field outside any oneof (`__setattr__` also sets `_serialized_on_wire`) -/
  | setSlot (t i : Nat) (v : HVal)
  /-- a READ of `t.field_i` whose slot is PLACEHOLDER: `__getattribute__` stores the default `v`
      (a scalar, or a list / dict / message constructed just before) with `super().__setattr__`:
      `_serialized_on_wire` is not touched; a slot that holds a value is left alone -/
  | fill (t i : Nat) (v : HVal)
  /-- `t.append(v)` on a list -/
  | listAppend (t : Nat) (v : HVal)
  /-- `t.clear()` on a list -/
  | listClear (t : Nat)
  /-- `t[k] = v` on a dict -/
  | dictSet (t k : Nat) (v : HVal)
  /-- `t.field_i = v` for a member of oneof group `g` whose other members are the slots `sibs`:
      `_group_current[g] = i` IN the message's own dict, siblings reset to PLACEHOLDER -/
  | selectMember (t g i : Nat) (sibs : List Nat) (v : HVal)
  /-- `t._unknown_fields += bs` (`parse` of bytes carrying an unknown field): a NEW bytes object -/
  | mergeUnknown (t : Nat) (bs : List Nat)
  /-- `Cls()`: a new message (own empty bytes, own `_group_current`), not yet attached anywhere -/
  | newMsg (nslots ngroups : Nat)
  | newList
  | newDict
  deriving DecidableEq, Repr

def clearSlots : List Nat → List HVal → List HVal
  | [], sl => sl
  | s :: r, sl => clearSlots r (sl.set s .ph)

def dictPut : List Nat → List HVal → Nat → HVal → List Nat × List HVal
  | k' :: ks, v' :: vs, k, v =>
    if k' = k then (k' :: ks, v :: vs)
    else let r := dictPut ks vs k v; (k' :: r.1, v' :: r.2)
  | _, _, k, v => ([k], [v])

def applyMut (h : Heap) : Mut → Heap
  | .setSlot t i v =>
    match h[t]? with
    | some (.msg sl _ u g) => h.set t (.msg (sl.set i v) true u g)
    | _ => h
  | .fill t i v =>
    match h[t]? with
    | some (.msg sl ow u g) => if sl[i]? = some .ph then h.set t (.msg (sl.set i v) ow u g) else h
    | _ => h
  | .listAppend t v =>
    match h[t]? with
    | some (.list it) => h.set t (.list (it ++ [v]))
    | _ => h
  | .listClear t =>
    match h[t]? with
    | some (.list _) => h.set t (.list [])
    | _ => h
  | .dictSet t k v =>
    match h[t]? with
    | some (.dict ks vs) => h.set t (.dict (dictPut ks vs k v).1 (dictPut ks vs k v).2)
    | _ => h
  | .selectMember t g i sibs v =>
    match h[t]? with
    | some (.msg sl _ u gc) =>
      let h1 := match h[gc]? with
        | some (.gcur sel) => h.set gc (.gcur (sel.set g (some i)))
        | _ => h
      h1.set t (.msg ((clearSlots sibs sl).set i v) true u gc)
    | _ => h
  | .mergeUnknown t bs =>
    match h[t]? with
    | some (.msg sl _ u g) => h.set t (.msg sl true h.length g) ++ [.bytes (bytesAt h u ++ bs)]
    | _ => h
  | .newMsg ns ng =>
    h ++ [.bytes [], .gcur (List.replicate ng none), .msg (List.replicate ns .ph) false h.length (h.length + 1)]
  | .newList => h ++ [.list []]
  | .newDict => h ++ [.dict [] []]

/-- the objects a mutation is applied THROUGH: its target and the references it stores -/
def Mut.touched : Mut → List Nat
  | .setSlot t _ v => t :: v.refs
  | .fill t _ v => t :: v.refs
  | .listAppend t v => t :: v.refs
  | .listClear t => [t]
  | .dictSet t _ v => t :: v.refs
  | .selectMember t _ _ _ v => t :: v.refs
  | .mergeUnknown t _ => [t]
  | _ => []

/-- the object a constructor call hands to the program (a new local variable) -/
def Mut.newRoots (h : Heap) : Mut → List Nat
  | .newMsg _ _ => [h.length + 2]
  | .newList => [h.length]
  | .newDict => [h.length]
  | _ => []

def runMuts : Heap → List Mut → Heap
  | h, [] => h
  | h, mu :: ms => runMuts (applyMut h mu) ms

/-- decidable guard for "every step of the program goes through `roots`" (sound for `Legal`,
    BpProofs/HeapMut.lean `legalB_sound`) -/
def legalB : Heap → List Nat → List Mut → Bool
  | _, _, [] => true
  | h, roots, mu :: ms =>
    (mu.touched.all fun t => roots.any fun r => (reach h r).contains t)
      && legalB (applyMut h mu) (mu.newRoots h ++ roots) ms

/-- BUG CLASS witness: `_unknown_fields` as a mutable `bytearray` extended in place -/
def mergeUnknownInPlace (h : Heap) (t : Nat) (bs : List Nat) : Heap :=
  match h[t]? with
  | some (.msg _ _ u _) =>
    match h[u]? with
    | some (.bytes old) => h.set u (.bytes (old ++ bs))
    | _ => h
  | _ => h

/-! ### well-formedness (decidable) -/

/-- every reference of every cell is in range -/
def closedB (h : Heap) : Bool := h.all fun c => c.refs.all fun r => r < h.length

end Bp.Hp
