import BpModel.Casing
import BpModel.Naming
import BpModel.Gen.ImportWrappers
/-
  Model of src/betterproto/compile/importing.py:
    parse_source_type_name, get_type_reference and the five reference_* functions
  (strings built verbatim, aliases included), and `PyImport`: a small model of what a
  `from … import … [as …]` / `import … as …` statement binds when it is executed in the
  package module `<root>.<cur>` of the generated tree, and of what a forward-reference
  string (`"alias.Type"`, `"Type"`) evaluates to in that module's namespace.

  A generated import is kept as a structure (`Import`) together with its verbatim text
  (`Import.render`); likewise the returned reference (`Ref`, `Ref.render`).  The texts are
  what the correspondence run compares with the real function's return value and the
  string it adds to `imports`; that Python reads the text as the structure says is
  validated by really importing generated packages (check C13), not proved.
-/
namespace Bp.Importing
open Bp.Casing Bp.Naming

abbrev Str := List Char
/-- a package path: the list of its dot-separated segments; `[]` is "no package" -/
abbrev Pkg := List Str

/-- `sep.join(words)` -/
def joinWith (sep : Char) : List Str → Str
  | [] => []
  | [w] => w
  | w :: ws => w ++ sep :: joinWith sep ws

/-- `".".join(pkg)` -/
def dotted (p : Pkg) : Str := joinWith '.' p

/-- `s.split(sep)` (always at least one piece) -/
def splitOn (sep : Char) : Str → List Str
  | [] => [[]]
  | c :: s =>
    if c = sep then [] :: splitOn sep s
    else match splitOn sep s with
      | [] => [[c]]
      | w :: ws => (c :: w) :: ws

/-- `package.split(".") if package else []` -/
def splitPkg (s : Str) : Pkg := if s.isEmpty then [] else splitOn '.' s

/-- `c * n` -/
def rep (c : Char) (n : Nat) : Str := List.replicate n c

/-! ### parse_source_type_name -/

/-- scan of `^([^A-Z]+)\.(.+)` over `t`: `pre` is what has been read (all non-capitals);
    the greedy group with backtracking ends before the LAST dot inside the leading run of
    non-capitals that has something before and after it -/
def parseAux : Str → Str → Option (Str × Str) → Option (Str × Str)
  | _, [], best => best
  | pre, c :: r, best =>
    if cls c = .up then best
    else parseAux (pre ++ [c]) r (if c = '.' ∧ pre ≠ [] ∧ r ≠ [] then some (pre, r) else best)

def lstripDots (s : Str) : Str := s.dropWhile (· = '.')

/-- `parse_source_type_name`: `re.match(r"^\.?([^A-Z]+)\.(.+)", name)`; the optional dot is
    tried consumed first, then unconsumed; no match: `("", name.lstrip("."))` -/
def parseSourceTypeName (s : Str) : Str × Str :=
  let first := match s with
    | '.' :: r => parseAux [] r none
    | _ => none
  match first with
  | some x => x
  | none =>
    match parseAux [] s none with
    | some x => x
    | none => ([], lstripDots s)

/-! ### generated imports and references -/

inductive Import where
  /-- nothing added to `imports` -/
  | none
  /-- `import a.b.c as alias` -/
  | absolute (path : Pkg) (alias : Str)
  /-- `from <dots><from_> import <name>[ as <alias>]`; `from_` is the text after the dots -/
  | from_ (dots : Nat) (path : Pkg) (name : Str) (alias : Option Str)
  deriving DecidableEq, Repr

inductive Ref where
  /-- `"Type"` — a name of the module's own namespace -/
  | bare (name : Str)
  /-- `"alias.Type"` -/
  | qualified (alias : Str) (name : Str)
  /-- an unwrapped well-known type: `datetime`, `timedelta`, `Optional[int]` … (no quotes) -/
  | builtin (text : Str)
  deriving DecidableEq, Repr

def Import.render : Import → Str
  | .none => []
  | .absolute path alias => "import ".toList ++ dotted path ++ " as ".toList ++ alias
  | .from_ dots path name alias =>
    "from ".toList ++ rep '.' dots ++ dotted path ++ " import ".toList ++ name ++
      (match alias with
       | some a => " as ".toList ++ a
       | Option.none => [])

def Ref.render : Ref → Str
  | .bare n => '"' :: n ++ ['"']
  | .qualified a n => '"' :: a ++ '.' :: n ++ ['"']
  | .builtin t => t

structure TypeRef where
  ref : Ref
  imp : Import
  deriving DecidableEq, Repr

def lastD (p : Pkg) : Str := p.getLast?.getD []

/-- `reference_absolute` -/
def referenceAbsolute (py : Pkg) (pyType : Str) : TypeRef :=
  let alias := safeSnake (dotted py)
  { ref := .qualified alias pyType, imp := .absolute py alias }

/-- `reference_sibling` -/
def referenceSibling (pyType : Str) : TypeRef := { ref := .bare pyType, imp := .none }

/-- `reference_descendent` -/
def referenceDescendent (cur py : Pkg) (pyType : Str) : TypeRef :=
  let importing := py.drop cur.length
  let frm := importing.dropLast
  let name := lastD importing
  if (dotted frm).isEmpty then
    { ref := .qualified name pyType, imp := .from_ 1 frm name Option.none }
  else
    let alias := joinWith '_' importing
    { ref := .qualified alias pyType, imp := .from_ 1 frm name (some alias) }

/-- `reference_ancestor` -/
def referenceAncestor (cur py : Pkg) (pyType : Str) : TypeRef :=
  let d := cur.length - py.length
  if py.isEmpty then
    let alias := rep '_' d ++ pyType ++ "__".toList
    { ref := .bare alias, imp := .from_ (d + 1) [] pyType (some alias) }
  else
    let name := lastD py
    let alias := '_' :: rep '_' d ++ name ++ "__".toList
    { ref := .qualified alias pyType, imp := .from_ (d + 2) [] name (some alias) }

/-- `os.path.commonprefix([a, b])` on two lists -/
def commonPrefix : Pkg → Pkg → Pkg
  | a :: as, b :: bs => if a = b then a :: commonPrefix as bs else []
  | _, _ => []

/-- `reference_cousin` -/
def referenceCousin (cur py : Pkg) (pyType : Str) : TypeRef :=
  let shared := commonPrefix cur py
  let d := cur.length - shared.length
  let rest := py.drop shared.length
  let alias := rep '_' d ++ safeSnake (dotted rest) ++ "__".toList
  { ref := .qualified alias pyType, imp := .from_ (d + 1) rest.dropLast (lastD py) (some alias) }

/-- the dispatch of `get_type_reference` once packages are lists and the class name is known -/
def refCore (cur py : Pkg) (pyType : Str) : TypeRef :=
  if py.take 1 = ["betterproto".toList] then referenceAbsolute py pyType
  else if py = cur then referenceSibling pyType
  else if py.take cur.length = cur then referenceDescendent cur py pyType
  else if cur.take py.length = py then referenceAncestor cur py pyType
  else referenceCousin cur py pyType

def googleProtobuf : Pkg := ["google".toList, "protobuf".toList]

/-- the package the reference goes to: `google.protobuf` is redirected to the bundled
    library unless google.protobuf itself is being compiled -/
def redirect (cur py : Pkg) (pydantic : Bool) : Pkg :=
  if py = googleProtobuf ∧ cur ≠ googleProtobuf then
    ["betterproto".toList, "lib".toList] ++ (if pydantic then ["pydantic".toList] else []) ++ py
  else py

def wrapperTable : List (Str × Str) := Bp.Gen.importWrappers.map fun (a, b) => (a.toList, b.toList)

/-- `typing_compiler.optional(name)` of the default (direct-import) typing compiler -/
def optionalText (name : Str) : Str := "Optional[".toList ++ name ++ "]".toList

/-- `get_type_reference(package=…, source_type=…, unwrap=…, pydantic=…)`:
    the returned string and the import it adds -/
def getTypeReference (package sourceType : Str) (unwrap pydantic : Bool) : TypeRef :=
  match (if unwrap then wrapperTable.lookup sourceType else Option.none) with
  | some ty => { ref := .builtin (optionalText ty), imp := .none }
  | Option.none =>
    if unwrap ∧ sourceType = ".google.protobuf.Duration".toList then
      { ref := .builtin "timedelta".toList, imp := .none }
    else if unwrap ∧ sourceType = ".google.protobuf.Timestamp".toList then
      { ref := .builtin "datetime".toList, imp := .none }
    else
      let (srcPkg, srcName) := parseSourceTypeName sourceType
      let cur := splitPkg package
      let py := splitPkg srcPkg
      refCore cur (redirect cur py pydantic) (pythonizeClassName srcName)

/-! ### PyImport: what the statement binds, what the reference string evaluates to -/

/-- where a module lives: below the generated root package, or on `sys.path` -/
inductive Loc where
  | gen (p : Pkg)
  | abs (p : Pkg)
  deriving DecidableEq, Repr

inductive Obj where
  | module (l : Loc)
  | cls (l : Loc) (name : Str)
  deriving DecidableEq, Repr

/-- generated classes begin with a capital letter or a digit (`pascal_case` output);
    package directories do not.  `from X import n` yields the class `X.n` for the former and
    the sub-package `X.n` for the latter. -/
def isClassName : Str → Bool
  | c :: _ => cls c = .up || cls c = .dg
  | [] => false

/-- the package `k` levels above `cur`; going above the generated root is an ImportError -/
def up (cur : Pkg) (k : Nat) : Option Pkg :=
  if k ≤ cur.length then some (cur.take (cur.length - k)) else Option.none

/-- the name the statement binds in module `<root>.<cur>` and the object bound to it.
    A relative import with `n` dots starts at the module's own package (it is an
    `__init__`) for `n = 1` and goes up `n - 1` levels. -/
def Import.bind (cur : Pkg) : Import → Option (Str × Obj)
  | .none => Option.none
  | .absolute path alias => some (alias, .module (.abs path))
  | .from_ dots path name alias =>
    match dots with
    | 0 => Option.none
    | k + 1 =>
      match up cur k with
      | Option.none => Option.none
      | some base =>
        let m := base ++ path
        some (alias.getD name, if isClassName name then .cls (.gen m) name else .module (.gen (m ++ [name])))

/-- evaluation of the forward-reference in the namespace of module `<root>.<cur>` that
    contains the binding `b` (if any) besides the module's own classes:
    the (module, class name) it denotes -/
def denote (cur : Pkg) (b : Option (Str × Obj)) : Ref → Option (Loc × Str)
  | .bare n =>
    match b with
    | some (a, .cls l c) => if a = n then some (l, c) else some (.gen cur, n)
    | _ => some (.gen cur, n)
  | .qualified a n =>
    match b with
    | some (a', .module l) => if a' = a then some (l, n) else Option.none
    | _ => Option.none
  | .builtin _ => Option.none

/-- the proto type `.pkg.Outer.Inner` as protoc names it -/
def fullName (pkg : Pkg) (ty : List Str) : Str := '.' :: dotted (pkg ++ ty)

/-- the class the plugin generates for the (nested) type `ty`: `traverse` flattens the
    name to `_Outer_Inner`, `py_name` is `pascal_case` of that -/
def classOf (ty : List Str) : Str := pythonizeClassName ('_' :: joinWith '_' ty)

/-- the name the statement binds (`None` for siblings) -/
def boundName (cur : Pkg) (r : TypeRef) : Option Str := (r.imp.bind cur).map Prod.fst

/-! ### decidable guards -/

/-- package segment accepted by `parse_source_type_name`: non-empty, identifier characters,
    no capital letter, does not look like a class name -/
def segOk (s : Str) : Bool :=
  !s.isEmpty && s.all (fun c => identChar c && cls c != .up) && !isClassName s

def pkgOk (p : Pkg) : Bool := p.all segOk

/-- type name parts accepted by `parse_source_type_name`: begin with a capital letter -/
def tyPartOk (s : Str) : Bool :=
  (match s with
   | c :: _ => cls c = .up
   | [] => false) && s.all identChar

def typeOk (ty : List Str) : Bool := !ty.isEmpty && ty.all tyPartOk

/-- segment that is a single lower-case word `[a-z]+[0-9]*` (no underscore, no digit-letter
    boundary): the guard of alias injectivity -/
def simpleSeg (s : Str) : Bool :=
  (match s with
   | c :: _ => cls c = .lo
   | [] => false) && tokens s = [s] && lowerW s = s && !(kw.contains s)

def simplePkg (p : Pkg) : Bool := p.all simpleSeg

end Bp.Importing
