import BpModel.Ops
import BpModel.Casing
/-
  Model of the JSON / dict mapper of `betterproto.Message`
  (src/betterproto/__init__.py: `to_dict`, `_from_dict_init`, both forms of `from_dict`,
  `to_json` / `from_json`, `_dump_float` / `_parse_float`, `_dump_enum` / `_parse_enum`)
  -- the code as it is, quirks included -- and, separately, `specJson`: the canonical
  proto3 JSON mapping written from the specification (C05).

  What is abstract (DESIGN 3.2): the *leaf codecs*.  `str(int)` / `int(str)` is the
  constructor `decStr`, base64 is `b64`, the RFC 3339 text of a datetime at microsecond
  resolution is `tsStr`, the decimal-seconds text of a timedelta is `durStr` (their text
  formats belong to C15), the three strings "Infinity" / "-Infinity" / "NaN" are `fstr`.
  A Python float is its IEEE pattern: `fnum32 b` is the float whose value is that of the
  float32 pattern `b` (what a `float` field holds), `fnum b` a double.  Anything that is
  not a JSON type but can sit in the dict `to_dict` returns (bytes, datetime, timedelta)
  is `raw v`.  What is modelled exactly is the repo's own logic: per-kind dispatch,
  default skipping, oneof inclusion, `value is None` skips, map / repeated handling,
  wrapper passthrough, key casing in and out.
-/
namespace Bp

/-- a key of a Python dict: field names and `map<string,…>` keys are `str` (UTF-8 bytes);
    `to_dict` leaves int / bool map keys as they are -/
inductive JKey
  | str (utf8 : Bytes)
  | int (v : Int)
  | bool (b : Bool)
  deriving DecidableEq, Repr, Inhabited

inductive JVal
  | null
  | bool (b : Bool)
  | num (i : Int)                 -- a Python int
  | fnum32 (bits : Nat)           -- a Python float with the value of this float32 pattern
  | fnum (bits : Nat)             -- a Python float (double pattern)
  | fstr (k : Nat)                -- 0 "Infinity", 1 "-Infinity", 2 "NaN"
  | str (utf8 : Bytes)
  | decStr (i : Int)              -- `str(i)`
  | b64 (b : Bytes)               -- `b64encode(b).decode("utf8")`
  | tsStr (us : Int)              -- `_Timestamp.timestamp_to_json`
  | durStr (us : Int)             -- `_Duration.delta_to_json`
  | arr (xs : List JVal)
  | obj (ks : List JKey) (vs : List JVal)
  | raw (v : Val)                 -- a Python object json.dumps cannot serialise / unmodelled
  deriving Repr, Inhabited

/-- one enum class: members in definition order: Python member name, proto value name, number -/
structure EnumMem where
  py : Bytes
  proto : Bytes
  num : Int
  deriving Repr, Inhabited, DecidableEq

abbrev EnumDef := List EnumMem
abbrev Enums := List EnumDef

def enumOf (E : Enums) (f : FieldD) : EnumDef := E.getD (f.enumRef.getD 0) []

inductive KeyCase | camel | snake
  deriving DecidableEq, Repr, Inhabited

/-- `casing(field_name).rstrip("_")` as a dict key (field names are ASCII identifiers) -/
def jsonKey (cs : KeyCase) (name : String) : JKey :=
  .str ((match cs with
         | .camel => Casing.keyCamel name.toList
         | .snake => Casing.keySnake name.toList).map Char.toNat)

/-- index and metadata of the field called `name` (`meta_by_field_name[name]`) -/
def findName : List FieldD → List Char → Nat → Option (Nat × FieldD)
  | [], _, _ => Option.none
  | f :: fs, name, i => if f.name.toList = name then some (i, f) else findName fs name (i + 1)

/-- `meta_by_field_name[safe_snake_case(key)]`; `.error` = safe_snake_case on a non-str -/
def fieldOfJKey (fs : List FieldD) : JKey → R (Option (Nat × FieldD))
  | .str bs => .ok (findName fs (Casing.fieldOfKey (bs.map Char.ofNat)) 0)
  | _ => .error .type

/-! ### to_dict -/

def keyJ : Val → JKey
  | .str s => .str s
  | .int i => .int i
  | .bool b => .bool b
  | _ => .str []

def keyV : JKey → Val
  | .str s => .str s
  | .int i => .int i
  | .bool b => .bool b

mutual
/-- a Python value placed in the output dict as it is -/
def rawJ : Val → JVal
  | .none => .null
  | .int i => .num i
  | .bool b => .bool b
  | .f32 b => .fnum32 b
  | .f64 b => .fnum b
  | .str s => .str s
  | .list xs => .arr (rawJList xs)
  | v => .raw v
def rawJList : List Val → List JVal
  | [] => []
  | x :: xs => rawJ x :: rawJList xs
end

/-- `str(n)`; only modelled for ints -/
def strJ : Val → JVal
  | .int i => .decStr i
  | v => .raw v

/-- `b64encode(b).decode("utf8")` -/
def b64J : Val → JVal
  | .byt b => .b64 b
  | v => .raw v

def tsJ : Val → JVal
  | .ts us => .tsStr us
  | v => .raw v

def durJ : Val → JVal
  | .dur us => .durStr us
  | v => .raw v

/-- `_dump_float` -/
def dumpFloat : Val → JVal
  | .f32 b => if b == 0x7f800000 then .fstr 0 else if b == 0xff800000 then .fstr 1
              else if isNaN32 b then .fstr 2 else .fnum32 b
  | .f64 b => if b == 0x7ff0000000000000 then .fstr 0 else if b == 0xfff0000000000000 then .fstr 1
              else if isNaN64 b then .fstr 2 else .fnum b
  | v => rawJ v

/-- first member with this number: `enum_class(value)` -/
def enumByNum : EnumDef → Int → Option EnumMem
  | [], _ => Option.none
  | m :: ms, v => if m.num == v then some m else enumByNum ms v

/-- member with this Python name: `enum_class.from_string(name)` -/
def enumByPy : EnumDef → Bytes → Option EnumMem
  | [], _ => Option.none
  | m :: ms, s => if m.py == s then some m else enumByPy ms s

/-- `_dump_enum`: the member's name, or the number itself when there is no member -/
def dumpEnum (e : EnumDef) : Val → JVal
  | .int v => (match enumByNum e v with
               | some m => .str m.py
               | Option.none => .num v)
  | v => .raw v

/-- the branch of `to_dict` for a field that is neither a message nor a map, once the
    `value != default or include_default_values or selected` test has passed; `v` is a
    scalar or None -/
def encScalar (E : Enums) (f : FieldD) (incl : Bool) (v : Val) : Option JVal :=
  if isInt64 f.ty then
    if f.repeated then some (.raw v)
    else (match v with
          | .none => if incl then some .null else Option.none
          | v => some (strJ v))
  else if f.ty == .bytes then
    if f.repeated then some (.raw v)
    else (match v with
          | .none => if incl then some .null else some (.raw .none)    -- b64encode(None): TypeError
          | v => some (b64J v))
  else if f.ty == .enum then
    if f.repeated then some (.arr [dumpEnum (enumOf E f) v])     -- "transparently upgrade single value"
    else (match v with
          | .none => if incl then some .null else Option.none
          | v => some (dumpEnum (enumOf E f) v))
  else if f.ty == .float || f.ty == .double then
    if f.repeated then some (.raw v) else some (dumpFloat v)
  else some (rawJ v)

/-- `to_dict` on one attribute value that is a scalar, a datetime / timedelta, or None -/
def toDictPlain (S : Schema) (E : Enums) (f : FieldD) (sel incl : Bool) (v : Val) : Option JVal :=
  if f.ty == .message then
    match v with
    | .ts us => if us != 0 || incl || f.optional || sel then some (.tsStr us) else Option.none
    | .dur us => if us != 0 || incl || f.optional || sel then some (.durStr us) else Option.none
    | v =>
      if f.wraps.isSome then
        (match v with
         | .none => if incl then some .null else Option.none
         | v => some (rawJ v))
      else if f.repeated then some (.raw v)
      else (match v with
            | .none => if incl then some .null else Option.none
            | v => some (.raw v))
  else if f.ty == .map then some (.raw v)
  else if !eqDefault S f.defKind v || incl || sel then encScalar E f incl v
  else Option.none

/-- `to_dict` on an attribute that reads as the field's default (`getattr` raised
    AttributeError for an unselected oneof member, or the slot is still PLACEHOLDER) -/
def toDictDefault (S : Schema) (E : Enums) (f : FieldD) (sel incl : Bool) : Option JVal :=
  match f.defKind with
  | .list =>
    if f.ty == .message then
      if f.wraps.isSome then some (.arr []) else if incl then some (.arr []) else Option.none
    else if f.ty == .map then some (.raw (.list []))
    else if incl || sel then
      (if isInt64 f.ty || f.ty == .bytes || f.ty == .enum || f.ty == .float || f.ty == .double then some (.arr [])
       else some (.arr []))
    else Option.none
  | .dict => if f.ty == .map then (if incl then some (.obj [] []) else Option.none) else some (.raw (.dict [] []))
  | .msg _ =>
    -- a fresh sub-message: not on the wire.  With include_default_values its own
    -- defaults are expanded recursively (not modelled: `raw ph`)
    if f.ty == .message then
      (if incl then some (.raw .ph) else if sel then some (.obj [] []) else Option.none)
    else some (.raw .ph)
  | k => toDictPlain S E f sel incl (defaultOfKind S k)

/-- a dict from its items -/
def mkObj (kvs : List (JKey × JVal)) : JVal := .obj (kvs.map (·.1)) (kvs.map (·.2))

mutual
/-- `m.to_dict(casing, include_default_values)` -/
def toDict (S : Schema) (E : Enums) (cs : KeyCase) (incl : Bool) : Val → JVal
  | .msg c slots _ _ cur =>
    mkObj (toDictKVs S E cs incl (fieldsOf S c) cur 0 slots)
  | v => .raw v

/-- the items of the output dict, in `meta_by_field_name` order -/
def toDictKVs (S : Schema) (E : Enums) (cs : KeyCase) (incl : Bool) (fs : List FieldD) (cur : List (Option Nat)) :
    Nat → List Val → List (JKey × JVal)
  | _, [] => []
  | idx, v :: vs =>
    match fs[idx]? with
    | Option.none => []
    | some f =>
      match toDictSlot S E cs incl f (hidden f idx cur) (selectedInGroup f idx cur) v with
      | some j => (jsonKey cs f.name, j) :: toDictKVs S E cs incl fs cur (idx + 1) vs
      | Option.none => toDictKVs S E cs incl fs cur (idx + 1) vs

/-- one iteration of the loop of `to_dict`; `Option.none` = the field is left out -/
def toDictSlot (S : Schema) (E : Enums) (cs : KeyCase) (incl : Bool) (f : FieldD) (hid sel : Bool) : Val → Option JVal
  | .ph => toDictDefault S E f sel incl
  | .list xs =>
    if hid then toDictDefault S E f sel incl
    else if f.ty == .message then
      if f.wraps.isSome then some (rawJ (.list xs))
      else if f.repeated then
        let items := match f.kind with
          | .timestamp => xs.map tsJ
          | .duration => xs.map durJ
          | .user _ => toDictList S E cs incl xs
        if !items.isEmpty || incl then some (.arr items) else Option.none
      else some (.raw (.list xs))
    else if f.ty == .map then some (.raw (.list xs))
    else if !eqDefault S f.defKind (.list xs) || incl || sel then
      if !f.repeated then some (.raw (.list xs))
      else if isInt64 f.ty then some (.arr (xs.map strJ))
      else if f.ty == .bytes then some (.arr (xs.map b64J))
      else if f.ty == .enum then some (.arr (xs.map (dumpEnum (enumOf E f))))
      else if f.ty == .float || f.ty == .double then some (.arr (xs.map dumpFloat))
      else some (rawJ (.list xs))
    else Option.none
  | .dict ks vs =>
    if hid then toDictDefault S E f sel incl
    else if f.ty == .map then
      if !ks.isEmpty || incl then some (.obj (ks.map keyJ) (toDictMapVals S E cs incl vs)) else Option.none
    else some (.raw (.dict ks vs))
  | .msg c slots ow unk cur =>
    if hid then toDictDefault S E f sel incl
    else if f.ty == .message && f.wraps.isNone && !f.repeated then
      -- (after the D27 repair: a proto3-optional member that is not None is always written;
      --  after the D46 repair: so is a sub-message that differs from its default although nothing
      --  marked it — content set through nested attribute access, `m.a.b.x = 1` — as in `dump`)
      if ow || incl || f.optional || sel || !eqDefault S f.defKind (.msg c slots ow unk cur) then
        some (mkObj (toDictKVs S E cs incl (fieldsOf S c) cur 0 slots))
      else Option.none
    else some (.raw (.msg c slots ow unk cur))
  | v => if hid then toDictDefault S E f sel incl else toDictPlain S E f sel incl v

/-- `[i.to_dict(casing, include_default_values) for i in value]` -/
def toDictList (S : Schema) (E : Enums) (cs : KeyCase) (incl : Bool) : List Val → List JVal
  | [] => []
  | x :: xs =>
    (match x with
     | .msg c slots _ _ cur =>
       mkObj (toDictKVs S E cs incl (fieldsOf S c) cur 0 slots)
     | x => JVal.raw x) :: toDictList S E cs incl xs

/-- map values: those with a `to_dict` method are converted, all others stay as they are -/
def toDictMapVals (S : Schema) (E : Enums) (cs : KeyCase) (incl : Bool) : List Val → List JVal
  | [] => []
  | x :: xs =>
    (match x with
     | .msg c slots _ _ cur =>
       mkObj (toDictKVs S E cs incl (fieldsOf S c) cur 0 slots)
     | x => rawJ x) :: toDictMapVals S E cs incl xs
end

/-! ### from_dict -/

def decBytes (i : Int) : Bytes := (toString i).toList.map Char.toNat

mutual
/-- a JSON value stored in a field as it is -/
def unRaw : JVal → R Val
  | .null => .ok .none
  | .bool b => .ok (.bool b)
  | .num i => .ok (.int i)
  | .fnum32 b => .ok (.f32 b)
  | .fnum b => .ok (.f64 b)
  | .str s => .ok (.str s)
  | .decStr i => .ok (.str (decBytes i))
  | .raw v => .ok v
  | .arr xs => (unRawList xs).bind fun vs => .ok (.list vs)
  | .obj ks vs => (unRawList vs).bind fun vals => .ok (.dict (ks.map keyV) vals)
  | _ => .error .notImpl           -- the text of b64 / tsStr / durStr / fstr is abstract
def unRawList : List JVal → R (List Val)
  | [] => .ok []
  | x :: xs => (unRaw x).bind fun v => (unRawList xs).bind fun vs => .ok (v :: vs)
end

/-- `int(value)` -/
def intOf : JVal → R Val
  | .decStr i => .ok (.int i)
  | .num i => .ok (.int i)
  | .bool b => .ok (.int (if b then 1 else 0))
  | .null => .error .type
  | .arr _ => .error .type
  | .obj _ _ => .error .type
  | _ => .error .notImpl           -- int() of a float / of an arbitrary str: not modelled

/-- `b64decode(value)` -/
def b64dec : JVal → R Val
  | .b64 b => .ok (.byt b)
  | .raw (.byt b) => .error .notImpl
  | .null => .error .type
  | .num _ => .error .type
  | .bool _ => .error .type
  | _ => .error .notImpl

/-- `_parse_enum`: `from_string` for a str, `try_value` for anything else -/
def parseEnum (e : EnumDef) : JVal → R Val
  | .str s => (match enumByPy e s with
               | some m => .ok (.int m.num)
               | Option.none => .error .value)
  | .num i => .ok (.int i)
  | .bool b => .ok (.int (if b then 1 else 0))
  | .decStr _ => .error .value      -- a digit string is not a member name
  | _ => .error .notImpl

/-- `_parse_float` for a field of type `t` -/
def parseFloat (t : PType) : JVal → R Val
  | .fstr k =>
    if t == .float then .ok (.f32 (if k == 0 then 0x7f800000 else if k == 1 then 0xff800000 else 0x7fc00000))
    else .ok (.f64 (if k == 0 then 0x7ff0000000000000 else if k == 1 then 0xfff0000000000000 else 0x7ff8000000000000))
  | .fnum32 b => .ok (.f32 b)
  | .fnum b => .ok (.f64 b)
  | .null => .error .type
  | .arr _ => .error .type
  | .obj _ _ => .error .type
  | _ => .error .notImpl           -- float(int) / float(str): not modelled

/-- `isoparse(value)` -/
def isoparse : JVal → R Val
  | .tsStr us => .ok (.ts us)
  | _ => .error .value

/-- `_Duration.delta_from_json(value)` -/
def durParse : JVal → R Val
  | .durStr us => .ok (.dur us)
  | _ => .error .value

def mapMR {α β} (g : α → R β) : List α → R (List β)
  | [] => .ok []
  | x :: xs => (g x).bind fun y => (mapMR g xs).bind fun ys => .ok (y :: ys)

/-- the scalar decoders of `_from_dict_init` on one item -/
def decScalarItem (E : Enums) (f : FieldD) (j : JVal) : R Val :=
  if isInt64 f.ty then intOf j
  else if f.ty == .bytes then b64dec j
  else if f.ty == .enum then parseEnum (enumOf E f) j
  else if f.ty == .float || f.ty == .double then parseFloat f.ty j
  else unRaw j

mutual
/-- the conversion `_from_dict_init` applies to the value of one key -/
def decodeField (S : Schema) (E : Enums) (f : FieldD) : JVal → R Val
  | .arr xs =>
    if f.ty == .message then
      if f.wraps.isSome then unRaw (.arr xs)
      else match f.kind with
        | .timestamp => (mapMR isoparse xs).bind fun vs => .ok (.list vs)
        | .duration => (mapMR durParse xs).bind fun vs => .ok (.list vs)
        | .user c => (fromDictItems S E c xs).bind fun vs => .ok (.list vs)
    else if f.ty == .map && f.mapV == .message then .error .attr
    else if isInt64 f.ty || f.ty == .bytes || f.ty == .enum || f.ty == .float || f.ty == .double then
      (mapMR (decScalarItem E f) xs).bind fun vs => .ok (.list vs)
    else unRaw (.arr xs)
  | .obj ks vs =>
    if f.ty == .message then
      if f.wraps.isSome then unRaw (.obj ks vs)
      else match f.kind with
        | .user c => (fromDictKV S E c ks vs).bind fun kw => .ok (fromDictCls S c kw)
        | _ => .error .type
    else if f.ty == .map && f.mapV == .message then
      match f.mapVKind with
      | .user c => (fromDictMapVals S E c vs).bind fun vals => .ok (.dict (ks.map keyV) vals)
      | _ => if vs.isEmpty then .ok (.dict [] []) else .error .attr   -- `datetime.from_dict`: AttributeError on the first item
    else if isInt64 f.ty || f.ty == .bytes || f.ty == .enum || f.ty == .float || f.ty == .double then .error .type
    else unRaw (.obj ks vs)
  | j =>
    if f.ty == .message then
      if f.wraps.isSome then unRaw j
      else match f.kind with
        | .timestamp => isoparse j
        | .duration => durParse j
        | .user _ => .error .attr
    else if f.ty == .map && f.mapV == .message then .error .attr
    else decScalarItem E f j

/-- the loop of `_from_dict_init` for class `c`: `(field index, value)` in dict order -/
def fromDictKV (S : Schema) (E : Enums) (c : Nat) : List JKey → List JVal → R (List (Nat × Val))
  | k :: ks, j :: js =>
    match fieldOfJKey (fieldsOf S c) k with
    | .error e => .error e
    | .ok Option.none => fromDictKV S E c ks js
    | .ok (some (i, f)) =>
      match j with
      | .null => fromDictKV S E c ks js
      | j => (decodeField S E f j).bind fun v => (fromDictKV S E c ks js).bind fun kw => .ok ((i, v) :: kw)
  | _, _ => .ok []

/-- `[sub_cls.from_dict(item) for item in value]` -/
def fromDictItems (S : Schema) (E : Enums) (c : Nat) : List JVal → R (List Val)
  | [] => .ok []
  | j :: js =>
    (match j with
     | .obj ks vs => (fromDictKV S E c ks vs).bind fun kw => .ok (fromDictCls S c kw)
     | _ => .error .attr).bind fun v => (fromDictItems S E c js).bind fun vs => .ok (v :: vs)

/-- `{k: sub_cls.from_dict(v) for k, v in value.items()}` -/
def fromDictMapVals (S : Schema) (E : Enums) (c : Nat) : List JVal → R (List Val)
  | [] => .ok []
  | j :: js =>
    (match j with
     | .obj ks vs => (fromDictKV S E c ks vs).bind fun kw => .ok (fromDictCls S c kw)
     | _ => .error .attr).bind fun v => (fromDictMapVals S E c js).bind fun vs => .ok (v :: vs)
end

/-- `cls._from_dict_init(d)` -/
def fromDictInit (S : Schema) (E : Enums) (c : Nat) : JVal → R (List (Nat × Val))
  | .obj ks vs => fromDictKV S E c ks vs
  | _ => .error .attr

/-- `Cls.from_dict(d)` -/
def fromDictC (S : Schema) (E : Enums) (c : Nat) (j : JVal) : R Val :=
  (fromDictInit S E c j).bind fun kw => .ok (fromDictCls S c kw)

/-- `m.from_dict(d)` on an instance: `_serialized_on_wire = True`, then one `setattr` per key -/
def fromDictI (S : Schema) (E : Enums) (m : Val) (j : JVal) : R Val :=
  match stateOf m with
  | Option.none => .error .type
  | some (c, st) =>
    (fromDictInit S E c j).bind fun kw =>
      .ok ((applyKw S (fieldsOf S c) { st with onWire := true } kw).toVal c)

/-! ### json.dumps / json.loads -/

def boolBytes (b : Bool) : Bytes := (if b then "true" else "false").toList.map Char.toNat

mutual
/-- `json.loads(json.dumps(j))`: `none` = TypeError (not JSON serialisable).  int / bool
    dict keys become strings, every NaN is read back as the one `float("nan")`. -/
def jsonText : JVal → Option JVal
  | .raw _ => Option.none
  | .fnum32 b => some (if isNaN32 b then .fnum32 0x7fc00000 else .fnum32 b)
  | .fnum b => some (if isNaN64 b then .fnum 0x7ff8000000000000 else .fnum b)
  | .arr xs => (jsonTextList xs).map JVal.arr
  | .obj ks vs => (jsonTextList vs).map fun vs' =>
      JVal.obj (ks.map fun k => match k with
        | .int i => JKey.str (decBytes i)
        | .bool b => JKey.str (boolBytes b)
        | k => k) vs'
  | j => some j
def jsonTextList : List JVal → Option (List JVal)
  | [] => some []
  | x :: xs => match jsonText x, jsonTextList xs with
    | some y, some ys => some (y :: ys)
    | _, _ => Option.none
end

mutual
/-- every leaf is a JSON type and every key a string -/
def isJson : JVal → Bool
  | .raw _ => false
  | .arr xs => isJsonList xs
  | .obj ks vs => ks.all (fun k => match k with | .str _ => true | _ => false) && isJsonList vs
  | _ => true
def isJsonList : List JVal → Bool
  | [] => true
  | x :: xs => isJson x && isJsonList xs
end

end Bp

namespace Bp

/-! ### decidable guards of the partial theorems (evaluated by the driver on harness inputs) -/

/-- every key `to_dict` emits for a field of the class is mapped back to that very field -/
def namesOk (cs : KeyCase) (fs : List FieldD) : Bool :=
  (List.range fs.length).all fun i =>
    match fs[i]? with
    | some f => (match fieldOfJKey fs (jsonKey cs f.name) with
                 | .ok (some (j, _)) => j == i
                 | _ => false)
    | Option.none => true

/-- `from_string(_dump_enum(v).name)` gives a member with the same number -/
def enumOk (e : EnumDef) : Bool :=
  e.all fun m => match enumByPy e m.py with
    | some m' => m'.num == m.num
    | Option.none => false

def isScalarT (t : PType) : Bool := t != .message && t != .map

/-- the field kinds on which `to_dict` / `from_dict` are right (D17 carves out the rest) -/
def fieldJsonOk (f : FieldD) : Bool :=
  !(f.repeated && f.optional) && !(f.repeated && f.group.isSome) && !(f.optional && f.group.isSome) &&
  (if f.ty == .map then
     !f.repeated && !f.optional && f.group.isNone && f.wraps.isNone && f.mapK == .string &&
     f.mapV != .bytes && f.mapV != .map &&
     (f.mapV != .message || (match f.mapVKind with | .user _ => true | _ => false))
   else if f.ty == .message then
     (match f.wraps with
      | some w => !f.repeated && !f.optional && isScalarT w && w != .bytes
      | Option.none => true)
   else f.wraps.isNone)

def jsonOk (S : Schema) (E : Enums) (cs : KeyCase) : Bool :=
  S.all (fun d => d.fields.all fieldJsonOk && namesOk cs d.fields) && E.all enumOk

/-- the Python value has the type of a scalar field of type `t`; a NaN is the one
    `float("nan")` (JSON has a single NaN) -/
def valOfType (t : PType) : Val → Bool
  | .int _ => t != .bool && t != .float && t != .double && t != .string && t != .bytes && t != .message && t != .map
  | .bool _ => t == .bool
  | .f32 b => t == .float && (!isNaN32 b || b == 0x7fc00000)
  | .f64 b => t == .double && (!isNaN64 b || b == 0x7ff8000000000000)
  | .str _ => t == .string
  | .byt _ => t == .bytes
  | _ => false

/-- a scalar / datetime / timedelta value of the right type for the (singular view of the) field -/
def leafOk (f : FieldD) (v : Val) : Bool :=
  if f.ty == .message then
    match f.wraps with
    | some w => valOfType w v
    | Option.none =>
      (match f.kind, v with
       | .timestamp, .ts _ => true
       | .duration, .dur _ => true
       | _, _ => false)
  else f.ty != .map && valOfType f.ty v

mutual
/-- message values in the domain of the round-trip theorems: built through the
    constructor (no unknown fields, oneof invariant), every slot typed as its field says,
    an absent plain sub-message equals a fresh one -/
def wellTyped (S : Schema) : Val → Bool
  | .msg c sl _ unk cur =>
    unk.isEmpty && sl.length == (fieldsOf S c).length && cur.length == groupsOf S c &&
      slotsOk S (fieldsOf S c) cur 0 sl
  | _ => false
def slotsOk (S : Schema) (fs : List FieldD) (cur : List (Option Nat)) : Nat → List Val → Bool
  | _, [] => true
  | i, v :: vs =>
    (match fs[i]? with
     | some f => slotOk S f (hidden f i cur) (selectedInGroup f i cur) v
     | Option.none => false) && slotsOk S fs cur (i + 1) vs
def slotOk (S : Schema) (f : FieldD) (hid sel : Bool) : Val → Bool
  | .ph => !sel && !f.optional
  | .none => f.group.isNone && (f.optional || f.wraps.isSome) && !f.repeated && f.ty != .map
  | .list xs => !hid && f.repeated && f.ty != .map && itemsOk S f xs
  | .dict ks vs => !hid && f.ty == .map && ks.length == vs.length && ks.all (valOfType f.mapK) && mapValsOk S f vs
  | .msg c sl ow unk cur =>
    !hid && f.ty == .message && f.wraps.isNone && !f.repeated && f.kind == .user c &&
      (ow || f.optional || sel || eqDefault S f.defKind (.msg c sl ow unk cur)) &&
      unk.isEmpty && sl.length == (fieldsOf S c).length && cur.length == groupsOf S c &&
      slotsOk S (fieldsOf S c) cur 0 sl
  | v => !hid && !f.repeated && leafOk f v
def itemsOk (S : Schema) (f : FieldD) : List Val → Bool
  | [] => true
  | x :: xs =>
    (match x with
     | .msg c sl _ unk cur =>
       f.ty == .message && f.wraps.isNone && f.kind == .user c &&
         unk.isEmpty && sl.length == (fieldsOf S c).length && cur.length == groupsOf S c &&
         slotsOk S (fieldsOf S c) cur 0 sl
     | x => leafOk f x) && itemsOk S f xs
def mapValsOk (S : Schema) (f : FieldD) : List Val → Bool
  | [] => true
  | x :: xs =>
    (match x with
     | .msg c sl _ unk cur =>
       f.mapV == .message && f.mapVKind == .user c &&
         unk.isEmpty && sl.length == (fieldsOf S c).length && cur.length == groupsOf S c &&
         slotsOk S (fieldsOf S c) cur 0 sl
     | x => f.mapV != .message && valOfType f.mapV x) && mapValsOk S f xs
end

end Bp
