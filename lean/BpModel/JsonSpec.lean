import BpModel.Json
/-
  The canonical proto3 JSON mapping, written from the specification
  (protobuf.dev/programming-guides/json, "JSON Mapping" table), NOT from betterproto:

    message          object; key = the field's lowerCamelCase JSON name; a field is
                     written iff it is present (explicit presence: set; implicit presence:
                     value is not the default; repeated / map: not empty)
    enum             the NAME of the value as declared in the .proto file (the first name
                     for an aliased number); a number that has no name is written as a number
    map<K,V>         object; every key is a string (ints in decimal, bools true/false)
    repeated V       array
    bool             true / false
    string           string
    bytes            base64 string
    int32, fixed32, uint32, sint32, sfixed32          number
    int64, fixed64, uint64, sint64, sfixed64          decimal STRING
    float, double    number; "NaN", "Infinity", "-Infinity" as strings
    Timestamp        RFC 3339 string (UTC, 0 / 3 / 6 / 9 fractional digits)
    Duration         decimal seconds with suffix "s"
    wrapper types    the same representation as the wrapped primitive type (or null)

  The value is a `Val` of the schema (presence read off the raw slots exactly as the
  wire encoder reads it, which C02 ties to the reference).  The leaf texts are the same
  abstract constructors as in Json.lean; the Timestamp / Duration texts belong to C15.
-/
namespace Bp

/-- protoc's default `json_name` of a proto field name: every `_` is dropped and the
    character after it upper-cased (ASCII) -/
def jsonNameGo : Bool → List Char → List Char
  | _, [] => []
  | cap, c :: s =>
    if c = '_' then jsonNameGo true s
    else (if cap then Casing.upperC c else c) :: jsonNameGo false s

def specKey (name : String) : JKey := .str ((jsonNameGo false name.toList).map Char.toNat)

/-- first declared name of the number -/
def specEnum (e : EnumDef) (v : Int) : JVal :=
  match enumByNum e v with
  | some m => .str m.proto
  | Option.none => .num v

def specFloat32 (b : Nat) : JVal :=
  if isNaN32 b then .fstr 2 else if b == 0x7f800000 then .fstr 0 else if b == 0xff800000 then .fstr 1 else .fnum32 b
def specFloat64 (b : Nat) : JVal :=
  if isNaN64 b then .fstr 2 else if b == 0x7ff0000000000000 then .fstr 0 else if b == 0xfff0000000000000 then .fstr 1 else .fnum b

/-- one scalar value of proto type `t` -/
def specScalar (e : EnumDef) (t : PType) : Val → JVal
  | .int i => if t == .enum then specEnum e i else if isInt64 t then .decStr i else .num i
  | .bool b => .bool b
  | .f32 b => specFloat32 b
  | .f64 b => specFloat64 b
  | .str s => .str s
  | .byt b => .b64 b
  | v => .raw v

/-- a map key as a JSON object key -/
def specMapKey : Val → JKey
  | .str s => .str s
  | .int i => .str (decBytes i)
  | .bool b => .str (boolBytes b)
  | _ => .str []

/-- a singular non-message item: scalar, wrapper (bare value), Timestamp, Duration -/
def specLeaf (E : Enums) (f : FieldD) : Val → JVal
  | .ts us => .tsStr us
  | .dur us => .durStr us
  | .none => .null
  | v => match f.wraps with
    | some w => specScalar [] w v
    | Option.none => specScalar (enumOf E f) f.ty v

/-- is the proto3 default of an implicit-presence scalar field (only +0.0 is the zero of
    a float field: -0.0 is a different value and is written) -/
def specIsDefault : Val → Bool
  | .int v => v == 0
  | .bool b => !b
  | .f32 b => b == 0
  | .f64 b => b == 0
  | .str s => s.isEmpty
  | .byt s => s.isEmpty
  | _ => false

mutual
def specJson (S : Schema) (E : Enums) : Val → JVal
  | .msg c slots _ _ cur => mkObj (specKVs S E (fieldsOf S c) cur 0 slots)
  | v => .raw v

def specKVs (S : Schema) (E : Enums) (fs : List FieldD) (cur : List (Option Nat)) : Nat → List Val → List (JKey × JVal)
  | _, [] => []
  | idx, v :: vs =>
    match fs[idx]? with
    | Option.none => []
    | some f =>
      match specSlot S E f (hidden f idx cur) v with
      | some j => (specKey f.name, j) :: specKVs S E fs cur (idx + 1) vs
      | Option.none => specKVs S E fs cur (idx + 1) vs

/-- the JSON member of one field, `none` if the field is absent -/
def specSlot (S : Schema) (E : Enums) (f : FieldD) (hid : Bool) : Val → Option JVal
  | .ph => Option.none
  | .none => Option.none
  | .list xs =>
    if hid || xs.isEmpty then Option.none
    else some (.arr (match f.ty, f.wraps, f.kind with
      | .message, Option.none, .user _ => specList S E xs
      | _, _, _ => xs.map (specLeaf E f)))
  | .dict ks vs =>
    if hid || ks.isEmpty then Option.none
    else some (.obj (ks.map specMapKey)
      (if f.mapV == .message then specMapVals S E f vs
       else vs.map (specScalar (enumOf E f) f.mapV)))
  | .msg c slots ow unk cur =>
    if hid then Option.none
    else if f.group.isSome || f.optional || ow || !eqDefault S f.defKind (.msg c slots ow unk cur) then
      some (mkObj (specKVs S E (fieldsOf S c) cur 0 slots))
    else Option.none
  | v =>
    if hid then Option.none
    else if f.group.isSome || f.optional || f.wraps.isSome then some (specLeaf E f v)
    else (match v with
          | .ts us => if us == 0 then Option.none else some (.tsStr us)
          | .dur us => if us == 0 then Option.none else some (.durStr us)
          | v => if specIsDefault v then Option.none else some (specLeaf E f v))

def specList (S : Schema) (E : Enums) : List Val → List JVal
  | [] => []
  | x :: xs =>
    (match x with
     | .msg c slots _ _ cur => mkObj (specKVs S E (fieldsOf S c) cur 0 slots)
     | x => JVal.raw x) :: specList S E xs

def specMapVals (S : Schema) (E : Enums) (f : FieldD) : List Val → List JVal
  | [] => []
  | x :: xs =>
    (match x with
     | .msg c slots _ _ cur => mkObj (specKVs S E (fieldsOf S c) cur 0 slots)
     | .ts us => JVal.tsStr us
     | .dur us => JVal.durStr us
     | x => JVal.raw x) :: specMapVals S E f xs
end

/-! ### guard of the C05 theorems -/

def is64 (t : PType) : Bool := isInt64 t

/-- kinds on which betterproto's output IS the canonical mapping: in addition to `fieldJsonOk`,
    the emitted key is the JSON name, 64-bit ints / floats / enums do not occur as map values
    or inside wrappers (they are written raw there: D17) -/
def fieldJsonOk5 (f : FieldD) : Bool :=
  fieldJsonOk f && (jsonKey .camel f.name == specKey f.name) &&
  (if f.ty == .map then
     f.mapV == .int32 || f.mapV == .uint32 || f.mapV == .sint32 || f.mapV == .fixed32 || f.mapV == .sfixed32 ||
     f.mapV == .bool || f.mapV == .string || f.mapV == .message
   else match f.wraps with
     | some w => w == .int32 || w == .uint32 || w == .bool || w == .string
     | Option.none => true)

/-- the Python member names are the proto value names (D16: not so for plugin output) -/
def enumOk5 (e : EnumDef) : Bool := e.all fun m => m.py == m.proto

def jsonOk5 (S : Schema) (E : Enums) : Bool :=
  jsonOk S E .camel && S.all (fun d => d.fields.all fieldJsonOk5) && E.all enumOk5

mutual
/-- no -0.0 in an implicit-presence float field (betterproto treats it as the default, D25) -/
def noNegZero (S : Schema) : Val → Bool
  | .msg c sl _ _ _ => noNegZeroSlots S (fieldsOf S c) 0 sl
  | _ => true
def noNegZeroSlots (S : Schema) (fs : List FieldD) : Nat → List Val → Bool
  | _, [] => true
  | i, v :: vs =>
    (match fs[i]? with
     | some f => noNegZeroSlot S f v
     | Option.none => true) && noNegZeroSlots S fs (i + 1) vs
def noNegZeroSlot (S : Schema) (f : FieldD) : Val → Bool
  | .f32 b => f.group.isSome || f.optional || f.wraps.isSome || b != 0x80000000
  | .f64 b => f.group.isSome || f.optional || f.wraps.isSome || b != 0x8000000000000000
  | .msg c sl _ _ _ => noNegZeroSlots S (fieldsOf S c) 0 sl
  | .list xs => noNegZeroList S xs
  | .dict _ vs => noNegZeroList S vs
  | _ => true
def noNegZeroList (S : Schema) : List Val → Bool
  | [] => true
  | x :: xs =>
    (match x with
     | .msg c sl _ _ _ => noNegZeroSlots S (fieldsOf S c) 0 sl
     | _ => true) && noNegZeroList S xs
end

end Bp
