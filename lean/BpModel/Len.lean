import BpModel.Dump
/-
  Model of `Message.__len__`, `_len_single`, `_len_preprocessed_single`
  (src/betterproto/__init__.py:434-522, 1043-1136) written separately from Dump.lean,
  branch for branch as in the code: that duplication is what C09 verifies.
-/
namespace Bp
open Gen

/-- `_len_preprocessed_single` for every type except `message` -/
def sizePlain (t : PType) (v : Val) : R Nat :=
  if t == .enum || t == .bool || t == .int32 || t == .int64 || t == .uint32 || t == .uint64 then
    (asInt v).bind sizeVarint
  else if t == .sint32 || t == .sint64 then
    (asInt v).bind fun i => sizeVarint (zig i)
  else if isFixed t then (packFixed t v).bind fun b => .ok b.length
  else if t == .string then
    match v with
    | .str s => .ok s.length
    | _ => .error .attr
  else
    match v with
    | .byt s => .ok s.length
    | _ => .error .type

/-- `_len_preprocessed_single` on non-message values: for `message` the code computes
    `len(bytes(value))` of the Timestamp / Duration / wrapper object -/
def sizeScalar (S : Schema) (t : PType) (wraps : Option PType) (v : Val) : R Nat :=
  if t == .message then
    match v with
    | .ts us => (tsBytes us).bind fun b => .ok b.length
    | .dur us => (durBytes us).bind fun b => .ok b.length
    | v =>
      match wraps with
      | some w =>
        (match v with
         | .none => .ok 0
         | v => (wrapperBytes S w v).bind fun b => .ok b.length)
      | Option.none => .error .type
  else sizePlain t v

/-- the framing half of `_len_single` -/
def lenFrame (num : Nat) (t : PType) (size : Nat) (serializeEmpty : Bool) (wraps : Bool) : R Nat :=
  if wireVarintTypes.contains t then (sizeVarint ((num * 8 : Nat) : Int)).bind fun k => .ok (size + k)
  else if wireFixed32Types.contains t then (sizeVarint ((num * 8 + 5 : Nat) : Int)).bind fun k => .ok (size + k)
  else if wireFixed64Types.contains t then (sizeVarint ((num * 8 + 1 : Nat) : Int)).bind fun k => .ok (size + k)
  else if wireLenDelimTypes.contains t then
    if size != 0 || serializeEmpty || wraps then
      (sizeVarint ((num * 8 + 2 : Nat) : Int)).bind fun k =>
      (sizeVarint (size : Int)).bind fun l => .ok (size + (k + l))
    else .ok size
  else .error .notImpl

def lenScalar (S : Schema) (num : Nat) (t : PType) (v : Val) (serializeEmpty : Bool)
    (wraps : Option PType) : R Nat :=
  (sizeScalar S t wraps v).bind fun size => lenFrame num t size serializeEmpty wraps.isSome

def lenDefault (S : Schema) (f : FieldD) (sel : Bool) : R Nat :=
  let selG := f.group.isSome || f.optional
  match f.defKind with
  | .none => .ok 0
  | k =>
    if !(selG || sel) then .ok 0
    else
      match k with
      | .list => if isPacked f.ty then lenFrame f.num .bytes 0 false false else .ok 0
      | .dict => .ok 0
      | .msg _ => if f.ty == .message then lenFrame f.num f.ty 0 selG f.wraps.isSome else .error .type
      | k => lenScalar S f.num f.ty (defaultOfKind S k) ((match k with | .str => sel | _ => false) || selG) f.wraps

/-- non-packed repeated field: `_len_single(..., serialize_empty=True) or 2` per item -/
def lenItems (S : Schema) (f : FieldD) : List Val → R Nat
  | [] => .ok 0
  | x :: xs =>
    (match x with
     | .msg c slots ow unknown cur =>
       (dumpVal S (.msg c slots ow unknown cur)).bind fun body =>
       if f.ty == PType.message && f.wraps.isNone then lenFrame f.num f.ty body.length true false else .error .type
     | x => lenScalar S f.num f.ty x true f.wraps).bind fun a =>
    let a := if a == 0 then 2 else a
    (lenItems S f xs).bind fun b => .ok (a + b)

/-- map field: `sk`, `sv` are really serialised, then `_len_single(number, map, sk + sv)` -/
def lenEntries (S : Schema) (f : FieldD) : List Val → List Val → R Nat
  | k :: ks, v :: vs =>
    (serializeScalar S 1 f.mapK k false Option.none).bind fun sk =>
    (match v with
     | .msg c slots ow unknown cur =>
       (dumpVal S (.msg c slots ow unknown cur)).bind fun body =>
       if f.mapV == PType.message then frame 2 f.mapV body false false else .error .type
     | v => serializeScalar S 2 f.mapV v false Option.none).bind fun sv =>
    (lenFrame f.num f.ty (sk ++ sv).length true false).bind fun e =>
    (lenEntries S f ks vs).bind fun rest => .ok (e + rest)
  | _, _ => .ok 0

/-- one iteration of the loop of `__len__` -/
def lenSlot (S : Schema) (f : FieldD) (hid sel : Bool) : Val → R Nat
  | .ph => if hid then .ok 0 else lenDefault S f sel
  | .none => .ok 0
  | .list xs =>
    if hid then .ok 0
    else
      let selG := f.group.isSome || f.optional
      if eqDefault S f.defKind (.list xs) && !(selG || sel) then .ok 0
      else if isPacked f.ty then (prepPacked S f.ty xs).bind fun buf => lenFrame f.num .bytes buf.length false false
      else lenItems S f xs
  | .dict ks vs =>
    if hid then .ok 0
    else
      let selG := f.group.isSome || f.optional
      if eqDefault S f.defKind (.dict ks vs) && !(selG || sel) then .ok 0
      else lenEntries S f ks vs
  | .msg c slots ow unknown cur =>
    if hid then .ok 0
    else
      let selG := f.group.isSome || f.optional
      if eqDefault S f.defKind (.msg c slots ow unknown cur) && !(selG || ow || sel) then .ok 0
      else
        (dumpVal S (.msg c slots ow unknown cur)).bind fun body =>
        if f.ty == PType.message && f.wraps.isNone then lenFrame f.num f.ty body.length (ow || selG) false
        else .error .type
  | v =>
    if hid then .ok 0
    else
      let selG := f.group.isSome || f.optional
      if eqDefault S f.defKind v && !(selG || sel) then .ok 0
      else lenScalar S f.num f.ty v ((match v with | .str [] => sel | _ => false) || selG) f.wraps

def lenSlots (S : Schema) (fs : List FieldD) (cur : List (Option Nat)) : Nat → List Val → R Nat
  | _, [] => .ok 0
  | idx, v :: vs =>
    match fs[idx]? with
    | Option.none => .ok 0
    | some f =>
      (lenSlot S f (hidden f idx cur) (selectedInGroup f idx cur) v).bind fun a =>
      (lenSlots S fs cur (idx + 1) vs).bind fun b => .ok (a + b)

/-- `len(m)` -/
def lenVal (S : Schema) : Val → R Nat
  | .msg c slots _ unknown cur =>
    (lenSlots S (fieldsOf S c) cur 0 slots).bind fun n => .ok (n + unknown.length)
  | _ => .error .type

/-- `m.dump(stream, SIZE_DELIMITED)`: `dump_varint(len(self))` then the fields -/
def dumpDelimited (S : Schema) (v : Val) : R Bytes :=
  (lenVal S v).bind fun n => (dumpVal S v).bind fun body => dumpDelimitedWith n body

end Bp
