import BpModel.Fields
import BpModel.Value
import BpModel.Time
import BpModel.Utf8
import BpModel.Dump
/-
  Model of the decoder: `_postprocess_single`, `Message.load` / `parse`
  (src/betterproto/__init__.py, after the D09-D12 repairs) and of `__setattr__` /
  `__getattribute__` as far as the decoder uses them.
-/
namespace Bp
open Gen

structure MState where
  slots : List Val
  onWire : Bool
  unknown : Bytes
  cur : List (Option Nat)
  deriving Repr, Inhabited

def freshState (d : MsgD) : MState :=
  { slots := d.fields.map fun f => if f.optional then Val.none else Val.ph
    onWire := false, unknown := [], cur := List.replicate d.nGroups Option.none }

def MState.toVal (c : Nat) (st : MState) : Val := .msg c st.slots st.onWire st.unknown st.cur

/-- `field_name_by_number.get(number)`: a dict filled in declaration order, so the last
    field declaring the number wins -/
def findField (fs : List FieldD) (num : Nat) : Option Nat :=
  let rec go : List FieldD → Nat → Option Nat → Option Nat
    | [], _, acc => acc
    | f :: fs, i, acc => go fs (i + 1) (if f.num == num then some i else acc)
  go fs 0 Option.none

/-- the wire-type check added to `Message.load` -/
def wireFits (f : FieldD) (wt : Nat) : Bool :=
  match wireTypeByProtoType.find? (·.1 == f.ty) with
  | Option.none => false
  | some (_, w) => wt == w || (wt == wireLenDelim && isPacked f.ty && f.repeated)

/-- `_postprocess_single` for WIRE_VARINT -/
def postVarint (t : PType) (n : Nat) : Val :=
  if t == .int32 then .int (signRecover 32 n)
  else if t == .int64 then .int (signRecover 64 n)
  else if t == .sint32 || t == .sint64 then .int (unzig n)
  else if t == .bool then .bool (n > 0)
  else if t == .enum then .int (signRecover 32 n)
  else .int n

/-- float32 → Python float → float32 pattern: a signalling NaN comes back quiet -/
def quiet32 (b : Nat) : Nat := if isNaN32 b && (b / 0x400000) % 2 == 0 then b + 0x400000 else b

/-- `struct.unpack(_pack_fmt(t), value)[0]` -/
def postFixed (t : PType) (p : Bytes) : R Val :=
  match fmtOf t with
  | Option.none => .error .key
  | some (w, signed, flt) =>
    if p.length != w then .error .struct
    else if flt then (if w == 4 then .ok (.f32 (quiet32 (unpackLE p))) else .ok (.f64 (unpackLE p)))
    else if signed then .ok (.int (toSigned (8 * w) (unpackLE p)))
    else .ok (.int (unpackLE p))

/-- packed payload of a repeated scalar -/
def decodePackedFuel (t : PType) : Nat → Bytes → R (List Val)
  | 0, _ => .error .assertion
  | fuel + 1, p =>
    match p with
    | [] => .ok []
    | _ =>
      if t == .float || t == .fixed32 || t == .sfixed32 then
        (postFixed t (p.take 4)).bind fun v => (decodePackedFuel t fuel (p.drop 4)).bind fun vs => .ok (v :: vs)
      else if t == .double || t == .fixed64 || t == .sfixed64 then
        (postFixed t (p.take 8)).bind fun v => (decodePackedFuel t fuel (p.drop 8)).bind fun vs => .ok (v :: vs)
      else
        match loadVarint p with
        | .error e => .error e
        | .ok (n, k) => (decodePackedFuel t fuel (p.drop k)).bind fun vs => .ok (postVarint t n :: vs)

def decodePacked (t : PType) (p : Bytes) : R (List Val) := decodePackedFuel t (p.length + 1) p

/-- `getattr` on a slot that is not hidden: PLACEHOLDER materialises the default -/
def materialize (S : Schema) (f : FieldD) : Val → Val
  | .ph => defaultOf S f
  | v => v

def setAt (xs : List Val) (i : Nat) (v : Val) : List Val := xs.set i v

/-- the sibling reset of `__setattr__`: every member of group `g` other than `idx` goes
    back to PLACEHOLDER (`j` = index of the head of the lists) -/
def resetGroup (g idx : Nat) : List FieldD → List Val → Nat → List Val
  | fj :: fs', s :: ss, j => (if fj.group == some g && j != idx then Val.ph else s) :: resetGroup g idx fs' ss (j + 1)
  | _, ss, _ => ss

/-- `if isinstance(value, Message) and not value._betterproto.meta_by_field_name:
    value._serialized_on_wire = True`: assigning an instance of a field-less class marks it present -/
def markEmpty (S : Schema) : Val → Val
  | .msg c sl ow unk cur => if (fieldsOf S c).isEmpty then Val.msg c sl true unk cur else .msg c sl ow unk cur
  | v => v

/-- `Message.__setattr__(name, value)` after `__post_init__` -/
def setAttr (S : Schema) (fs : List FieldD) (st : MState) (idx : Nat) (v : Val) : MState :=
  let v := markEmpty S v
  match fs[idx]? with
  | Option.none => st
  | some f =>
    match f.group with
    | Option.none => { st with onWire := true, slots := setAt st.slots idx v }
    | some g =>
      { st with onWire := true, cur := st.cur.set g (some idx), slots := setAt (resetGroup g idx fs st.slots 0) idx v }

def keyEq : Val → Val → Bool
  | .int a, .int b => a == b
  | .bool a, .bool b => a == b
  | .str a, .str b => a == b
  | .int a, .bool b => a == (if b then 1 else 0)
  | .bool a, .int b => b == (if a then 1 else 0)
  | _, _ => false

/-- `d[k] = v` on an insertion-ordered dict -/
def dictInsert : List Val → List Val → Val → Val → List Val × List Val
  | k' :: ks, v' :: vs, k, v =>
    if keyEq k' k then (k' :: ks, v :: vs)
    else let (ks', vs') := dictInsert ks vs k v; (k' :: ks', v' :: vs')
  | _, _, k, v => ([k], [v])

abbrev Loader := MsgD → MState → Bytes → R MState

/-- `_postprocess_single` for WIRE_LEN_DELIM; `rec` parses a nested message -/
def postLen (S : Schema) (rec : Loader) (f : FieldD) (p : Bytes) : R Val :=
  if f.ty == .string then (if utf8Valid p then .ok (.str p) else .error .unicode)
  else if f.ty == .message then
    match f.kind, f.wraps with
    | .timestamp, _ =>
      (rec secNanosD (freshState secNanosD) p).bind fun st =>
        match materialize S secNanosD.fields[0]! (st.slots.getD 0 .ph), materialize S secNanosD.fields[1]! (st.slots.getD 1 .ph) with
        | .int s, .int n =>
          let us := tsJoin s n
          if tsMinUs ≤ us ∧ us ≤ tsMaxUs then .ok (.ts us) else .error .overflow
        | _, _ => .error .type
    | .duration, _ =>
      (rec secNanosD (freshState secNanosD) p).bind fun st =>
        match materialize S secNanosD.fields[0]! (st.slots.getD 0 .ph), materialize S secNanosD.fields[1]! (st.slots.getD 1 .ph) with
        | .int s, .int n =>
          let us := durJoin s n
          if durMinUs ≤ us ∧ us ≤ durMaxUs then .ok (.dur us) else .error .overflow
        | _, _ => .error .type
    | .user c, some w =>
      let _ := c
      (rec (wrapperD w) (freshState (wrapperD w)) p).bind fun st =>
        .ok (materialize S (wrapperD w).fields[0]! (st.slots.getD 0 .ph))
    | .user c, Option.none =>
      match S[c]? with
      | Option.none => .error .key
      | some d => (rec d (freshState d) p).bind fun st => .ok (.msg c st.slots true st.unknown st.cur)
  else .ok (.byt p)

/-- the value a known, fitting field decodes to (packed chunk, scalar, map entry, …) -/
def decodeValue (S : Schema) (rec : Loader) (f : FieldD) (pf : PField) : R Val :=
  if pf.wt == wireLenDelim && isPacked f.ty then (decodePacked f.ty pf.payload).bind fun vs => .ok (Val.list vs)
  else if pf.wt == wireVarint then .ok (postVarint f.ty pf.vint)
  else if pf.wt == wireFixed32 || pf.wt == wireFixed64 then postFixed f.ty pf.payload
  else if f.ty == .map then
    (rec (entryD f) (freshState (entryD f)) pf.payload).bind fun est =>
      .ok (Val.dict [materialize S (entryD f).fields[0]! (est.slots.getD 0 .ph)]
                    [materialize S (entryD f).fields[1]! (est.slots.getD 1 .ph)])
  else postLen S rec f pf.payload

/-- `current = getattr(self, name)`, or the default (assigned with `setattr`) if that
    raised AttributeError; a PLACEHOLDER slot is materialised -/
def prepCurrent (S : Schema) (d : MsgD) (st : MState) (idx : Nat) (f : FieldD) : MState :=
  if hidden f idx st.cur then setAttr S d.fields st idx (defaultOf S f)
  else { st with slots := setAt st.slots idx (materialize S f (st.slots.getD idx .ph)) }

/-- map entry insert / list append or extend / `setattr(self, name, value)` -/
def storeValue (S : Schema) (d : MsgD) (st1 : MState) (idx : Nat) (f : FieldD) (value : Val) : R MState :=
  let current := st1.slots.getD idx .ph
  if f.ty == .map then
    match current, value with
    | .dict ks vs, .dict [k] [v] =>
      .ok { st1 with slots := setAt st1.slots idx (.dict (dictInsert ks vs k v).1 (dictInsert ks vs k v).2) }
    | _, _ => .error .type
  else
    match current with
    | .list xs =>
      (match value with
       | .list ys => .ok { st1 with slots := setAt st1.slots idx (.list (xs ++ ys)) }
       | y => .ok { st1 with slots := setAt st1.slots idx (.list (xs ++ [y])) })
    | _ => .ok (setAttr S d.fields st1 idx value)

/-- one iteration of the loop of `Message.load` -/
def applyField (S : Schema) (rec : Loader) (d : MsgD) (st : MState) (pf : PField) : R MState :=
  match findField d.fields pf.num with
  | Option.none => .ok { st with unknown := st.unknown ++ pf.raw }
  | some idx =>
    match d.fields[idx]? with
    | Option.none => .error .key
    | some f =>
      if !wireFits f pf.wt then .ok { st with unknown := st.unknown ++ pf.raw }
      else
        (decodeValue S rec f pf).bind fun value =>
          storeValue S d (prepCurrent S d st idx f) idx f value

def foldFields (S : Schema) (rec : Loader) (d : MsgD) : MState → List PField → R MState
  | st, [] => .ok st
  | st, pf :: pfs => (applyField S rec d st pf).bind fun st' => foldFields S rec d st' pfs

/-- `Message.load(stream)` reading to the end of `bs`; `fuel` bounds the nesting depth -/
def loadInto (S : Schema) : Nat → Loader
  | 0, _, _, _ => .error .assertion
  | fuel + 1, d, st, bs =>
    (loadFields bs).bind fun pfs =>
      foldFields S (loadInto S fuel) d { st with onWire := true } pfs

/-- `m.parse(data)` for a message instance `m` -/
def parseInto (S : Schema) (m : Val) (bs : Bytes) : R Val :=
  match m with
  | .msg c slots ow unk cur =>
    match S[c]? with
    | Option.none => .error .key
    | some d =>
      (loadInto S (bs.length + 1) d { slots := slots, onWire := ow, unknown := unk, cur := cur } bs).bind fun st =>
        .ok (st.toVal c)
  | _ => .error .type

/-- `Cls().parse(data)` / `Cls.FromString(data)` -/
def parse (S : Schema) (c : Nat) (bs : Bytes) : R Val := parseInto S (fresh S c) bs

/-- `m.load(stream, SIZE_DELIMITED)`: the result and the unread rest of the stream -/
def loadDelimited (S : Schema) (m : Val) (bs : Bytes) : R (Val × Bytes) :=
  match loadVarint bs with
  | .error e => .error e
  | .ok (size, k) =>
    let rest := bs.drop k
    if rest.length < size then .error .value
    else (parseInto S m (rest.take size)).bind fun v => .ok (v, rest.drop size)

end Bp
