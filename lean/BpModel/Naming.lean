import BpModel.Casing
/-
  Model of src/betterproto/compile/naming.py: the four `pythonize_*` functions.
-/
namespace Bp.Naming
open Bp.Casing

/-- `pythonize_class_name` -/
def pythonizeClassName (s : List Char) : List Char := pascal s

/-- `pythonize_field_name` -/
def pythonizeFieldName (s : List Char) : List Char := safeSnake s

/-- `pythonize_method_name` -/
def pythonizeMethodName (s : List Char) : List Char := safeSnake s

/-- `word.upper()` -/
def upperW (w : List Char) : List Char := w.map upperC

/-- `hay[hay.find(needle) + len(needle):]` if `needle` occurs in `hay` (first occurrence) -/
def afterFirst (needle : List Char) : List Char → Option (List Char)
  | [] => if needle.isEmpty then some [] else none
  | c :: t =>
    if needle.isPrefixOf (c :: t) then some ((c :: t).drop needle.length) else afterFirst needle t

/-- `str.strip("_")` -/
def stripU (s : List Char) : List Char := rstripU (lstripU s)

/-- `pythonize_enum_member_name(name, enum_name)` -/
def pythonizeEnumMemberName (name enumName : List Char) : List Char :=
  let e := upperW (snake enumName)
  match afterFirst e name with
  | some rest => sanitize (stripU rest)
  | none => sanitize name

end Bp.Naming
