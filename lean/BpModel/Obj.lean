import BpModel.Load
/-
  Object-level operations on message instances: construction (`__post_init__`),
  attribute reads (`__getattribute__`), `is_set`, `which_one_of`.
-/
namespace Bp

def isSentinel (f : FieldD) : Val → Bool
  | .ph => true
  | .none => f.optional
  | _ => false

def lookupKw : List (Nat × Val) → Nat → Option Val
  | [], _ => Option.none
  | (j, v) :: rest, i => if j == i then some v else lookupKw rest i

def initSlots (fs : List FieldD) (kw : List (Nat × Val)) : Nat → List FieldD → List Val
  | _, [] => []
  | i, f :: rest =>
    (match lookupKw kw i with
     | some v => v
     | Option.none => if f.optional then Val.none else Val.ph) :: initSlots fs kw (i + 1) rest

/-- `group_current[group] = field_name` for every non-sentinel member, in field order
    (so the last one wins) -/
def initCur : List FieldD → List Val → Nat → List (Option Nat) → List (Option Nat)
  | f :: fs, v :: vs, i, cur =>
    initCur fs vs (i + 1)
      (match f.group with
       | some g => if !isSentinel f v then cur.set g (some i) else cur
       | Option.none => cur)
  | _, _, _, cur => cur

def anyNonSentinel : List FieldD → List Val → Bool
  | f :: fs, v :: vs => !isSentinel f v || anyNonSentinel fs vs
  | _, _ => false

/-- `Cls(**kwargs)`: dataclass `__init__` followed by `__post_init__` -/
def construct (S : Schema) (c : Nat) (kw : List (Nat × Val)) : Val :=
  let fs := fieldsOf S c
  -- the dataclass `__init__` assigns every argument through `Message.__setattr__`, which marks an
  -- instance of a field-less class as present
  let kw := kw.map fun (p : Nat × Val) => (p.1, markEmpty S p.2)
  let slots := initSlots fs kw 0 fs
  .msg c slots (anyNonSentinel fs slots) []
    (initCur fs slots 0 (List.replicate (groupsOf S c) Option.none))

/-- `m.is_set(name)`: the raw slot is not the dataclass default -/
def isSet (f : FieldD) (v : Val) : Bool :=
  if f.optional then (match v with | .none => false | _ => true)
  else (match v with | .ph => false | _ => true)

end Bp
