import BpModel.WellTyped
/-
  A Bool-valued, kernel-evaluable checker for the domain of the round-trip theorem C01:
  `msgOkB S m = true` implies `MsgOk S m` (BpProofs/NestedDefs.lean; soundness is
  `msgOkB_sound` in BpProofs/OkSound.lean).  Every function here is total and structurally
  recursive (or not recursive at all), so `decide` / `rfl` evaluate closed terms.

  The field-kind predicates (`FlatField`, `SubField`, `TimeField`, `TimesField`, `WrapField`, `WrapsField`,
  `MapFieldS`, `MapFieldM`, `MapFieldT`), `flatSlotOk`, `timeValOk`, `NumsDistinct`, `WfGroups`, `KeysDistinct`, `UnkOk` and
  `isUnknownField` live in BpProofs and cannot be imported from the model: the functions
  below re-define what they say as Bool functions.
-/
namespace Bp
open Gen

/-! ### field kinds -/

/-- `f.repeated → ¬ f.optional ∧ f.group = none` -/
def repPlainB (f : FieldD) : Bool := !f.repeated || (!f.optional && f.group.isNone)

/-- `FlatField f` -/
def flatFieldB (f : FieldD) : Bool :=
  isScalarType f.ty && f.wraps.isNone && numOk f.num && repPlainB f

/-- `SubField f c` -/
def subFieldB (f : FieldD) (c : Nat) : Bool :=
  f.ty == PType.message && f.wraps.isNone && f.kind == MsgKind.user c && numOk f.num && repPlainB f

/-- `TimeField f isDur` -/
def timeFieldB (f : FieldD) (isDur : Bool) : Bool :=
  f.ty == PType.message && f.wraps.isNone
  && f.kind == (if isDur then MsgKind.duration else MsgKind.timestamp)
  && numOk f.num && !f.repeated

def isUserKind : MsgKind → Bool
  | .user _ => true
  | _ => false

/-- `WrapField f w` -/
def wrapFieldB (f : FieldD) (w : PType) : Bool :=
  f.ty == PType.message && f.wraps == some w && isScalarType w && numOk f.num && !f.repeated
  && isUserKind f.kind

/-- `WrapsField f w` -/
def wrapsFieldB (f : FieldD) (w : PType) : Bool :=
  f.ty == PType.message && f.wraps == some w && isScalarType w && numOk f.num && f.repeated
  && !f.optional && f.group.isNone && isUserKind f.kind

/-- `isMapKeyType` -/
def mapKeyTypeB (t : PType) : Bool :=
  t == .int32 || t == .int64 || t == .uint32 || t == .uint64 || t == .sint32 || t == .sint64
  || t == .fixed32 || t == .fixed64 || t == .sfixed32 || t == .sfixed64 || t == .bool || t == .string

/-- `MapFieldS f` -/
def mapFieldSB (f : FieldD) : Bool :=
  f.ty == PType.map && mapKeyTypeB f.mapK && isScalarType f.mapV && numOk f.num
  && !f.repeated && !f.optional && f.group.isNone && f.wraps.isNone

/-- `MapFieldM f c` -/
def mapFieldMB (f : FieldD) (c : Nat) : Bool :=
  f.ty == PType.map && mapKeyTypeB f.mapK && f.mapV == PType.message && f.mapVKind == MsgKind.user c
  && numOk f.num && !f.repeated && !f.optional && f.group.isNone && f.wraps.isNone

/-- `TimesField f isDur` -/
def timesFieldB (f : FieldD) (isDur : Bool) : Bool :=
  f.ty == PType.message && f.wraps.isNone
  && f.kind == (if isDur then MsgKind.duration else MsgKind.timestamp)
  && numOk f.num && f.repeated && !f.optional && f.group.isNone

/-- `MapFieldT f isDur` -/
def mapFieldTB (f : FieldD) (isDur : Bool) : Bool :=
  f.ty == PType.map && mapKeyTypeB f.mapK && f.mapV == PType.message
  && f.mapVKind == (if isDur then MsgKind.duration else MsgKind.timestamp)
  && numOk f.num && !f.repeated && !f.optional && f.group.isNone && f.wraps.isNone

/-- `timeValOk isDur v` -/
def timeValOkB (isDur : Bool) : Val → Bool
  | .ts us => !isDur && tsOk us
  | .dur us => isDur && durOk us
  | _ => false

/-- `∃ c, SubField f c` -/
def subFieldAnyB (f : FieldD) : Bool :=
  match f.kind with
  | .user c => subFieldB f c
  | _ => false

/-- `∃ isDur, TimeField f isDur` -/
def timeFieldAnyB (f : FieldD) : Bool := timeFieldB f false || timeFieldB f true

/-- `∃ w, WrapField f w` -/
def wrapFieldAnyB (f : FieldD) : Bool :=
  match f.wraps with
  | some w => wrapFieldB f w
  | Option.none => false

/-- `∃ c, MapFieldM f c` -/
def mapFieldMAnyB (f : FieldD) : Bool :=
  match f.mapVKind with
  | .user c => mapFieldMB f c
  | _ => false

/-! ### slot values of flat fields, dict keys -/

/-- `flatSlotOk f v` -/
def flatSlotOkB (f : FieldD) : Val → Bool
  | .ph => !f.optional
  | .none => f.optional
  | .list xs => f.repeated && xs.all (scalarOk f.ty)
  | v => !f.repeated && scalarOk f.ty v

/-- `KeysDistinct ks` -/
def keysDistinctB : List Val → Bool
  | [] => true
  | k :: ks => ks.all (fun k' => !keyEq k k') && keysDistinctB ks

/-! ### class-level conditions -/

/-- `NumsDistinct fs` -/
def numsDistinctB : List FieldD → Bool
  | [] => true
  | f :: fs => fs.all (fun g => g.num != f.num) && numsDistinctB fs

/-- `WfGroups fs n` -/
def wfGroupsB (fs : List FieldD) (n : Nat) : Bool :=
  fs.all fun f =>
    match f.group with
    | some g => decide (g < n)
    | Option.none => true

/-- oneof members are not `optional` -/
def grpOptB (fs : List FieldD) : Bool := fs.all fun f => !f.group.isSome || !f.optional

/-! ### unknown fields -/

/-- `isUnknownField d pf` -/
def isUnknownFieldB (d : MsgD) (pf : PField) : Bool :=
  match findField d.fields pf.num with
  | Option.none => true
  | some idx =>
    match d.fields[idx]? with
    | Option.none => false
    | some f => !wireFits f pf.wt

/-- `UnkOk d unk`: the bytes split into records, none of which the class knows -/
def unkOkB (d : MsgD) (unk : Bytes) : Bool :=
  match loadFields unk with
  | .ok pfs => pfs.all (isUnknownFieldB d)
  | .error _ => false

/-! ### the oneof invariant of one instance -/

def isPh : Val → Bool
  | .ph => true
  | _ => false

/-- a selection points at a member of its group -/
def curOkB (fs : List FieldD) (cur : List (Option Nat)) : Bool :=
  (List.range cur.length).all fun g =>
    match cur.getD g Option.none with
    | some i =>
      (match fs[i]? with
       | some f => f.group == some g
       | Option.none => false)
    | Option.none => true

/-- every member of a group other than the selected one holds PLACEHOLDER -/
def invB (fs : List FieldD) (sl : List Val) (cur : List (Option Nat)) : Bool :=
  (List.range fs.length).all fun i =>
    match fs[i]? with
    | some f =>
      (match f.group with
       | some g => cur.getD g Option.none == some i || isPh (sl.getD i .ph)
       | Option.none => true)
    | Option.none => true

/-- a selected member is set -/
def selSetB (sl : List Val) (cur : List (Option Nat)) : Bool :=
  (List.range cur.length).all fun g =>
    match cur.getD g Option.none with
    | some i => !isPh (sl.getD i .ph)
    | Option.none => true

/-- every premise of `MsgOk.mk` except the slot-wise one -/
def msgShapeB (d : MsgD) (sl : List Val) (unk : Bytes) (cur : List (Option Nat)) : Bool :=
  numsDistinctB d.fields && wfGroupsB d.fields d.nGroups && grpOptB d.fields
  && cur.length == d.nGroups && curOkB d.fields cur && invB d.fields sl cur && selSetB sl cur
  && unkOkB d unk

/-! ### the checker -/

mutual
/-- `MsgOk S m` -/
def msgOkB (S : Schema) : Val → Bool
  | .msg c sl _ unk cur =>
    match S[c]? with
    | some d => msgShapeB d sl unk cur && slotsOkB S d.fields sl
    | Option.none => false
  | _ => false

/-- `SlotsOk S fs vs` -/
def slotsOkB (S : Schema) : List FieldD → List Val → Bool
  | [], [] => true
  | f :: fs, v :: vs => slotOkB S f v && slotsOkB S fs vs
  | _, _ => false

/-- `SlotOk S f v`: true if some constructor of `SlotOk` applies -/
def slotOkB (S : Schema) (f : FieldD) : Val → Bool
  | .ph =>
    (flatFieldB f && !f.optional) || (subFieldAnyB f && !f.optional) || (timeFieldAnyB f && !f.optional)
    || (wrapFieldAnyB f && !f.optional) || mapFieldSB f || mapFieldMAnyB f || !f.optional
  | .none =>
    (flatFieldB f && f.optional) || (subFieldAnyB f && f.optional) || (timeFieldAnyB f && f.optional)
    || (wrapFieldAnyB f && f.group.isNone) || f.optional
  | .msg c sl _ unk cur =>
    subFieldB f c && !f.repeated &&
    (match S[c]? with
     | some d => msgShapeB d sl unk cur && slotsOkB S d.fields sl
     | Option.none => false)
  | .list xs =>
    (flatFieldB f && f.repeated && xs.all (scalarOk f.ty))
    || (match f.kind with
        | .user c => subFieldB f c && f.repeated && msgsOkB S c xs
        | _ => false)
    || (timesFieldB f false && xs.all (timeValOkB false))
    || (timesFieldB f true && xs.all (timeValOkB true))
    || (match f.wraps with
        | some w => wrapsFieldB f w && xs.all (scalarOk w)
        | Option.none => false)
  | .ts us => timeFieldB f false && tsOk us
  | .dur us => timeFieldB f true && durOk us
  | .dict ks vs =>
    (mapFieldSB f && ks.length == vs.length && ks.all (scalarOk f.mapK) && vs.all (scalarOk f.mapV)
      && keysDistinctB ks)
    || (match f.mapVKind with
        | .user c => mapFieldMB f c && ks.length == vs.length && ks.all (scalarOk f.mapK)
                      && msgsOkB S c vs && keysDistinctB ks
        | _ => false)
    || (mapFieldTB f false && ks.length == vs.length && ks.all (scalarOk f.mapK)
          && vs.all (timeValOkB false) && keysDistinctB ks)
    || (mapFieldTB f true && ks.length == vs.length && ks.all (scalarOk f.mapK)
          && vs.all (timeValOkB true) && keysDistinctB ks)
  | v =>
    (flatFieldB f && !f.repeated && scalarOk f.ty v)
    || (match f.wraps with
        | some w => wrapFieldB f w && scalarOk w v
        | Option.none => false)

/-- `MsgsOk S c xs` -/
def msgsOkB (S : Schema) (c : Nat) : List Val → Bool
  | [] => true
  | x :: xs =>
    (match x with
     | .msg c' sl _ unk cur =>
       c' == c &&
       (match S[c']? with
        | some d => msgShapeB d sl unk cur && slotsOkB S d.fields sl
        | Option.none => false)
     | _ => false) && msgsOkB S c xs
end

end Bp
