import BpModel.Obj
/-
  Operation-level model of a message instance: the state machine behind C06 C07 C14.
  State = one `Val.msg`; operations = what user code can do to it.
-/
namespace Bp

def stateOf : Val → Option (Nat × MState)
  | .msg c sl ow unk cur => some (c, { slots := sl, onWire := ow, unknown := unk, cur := cur })
  | _ => Option.none

/-- `getattr(m, name)`: AttributeError for an unselected oneof member, otherwise the
    value, with a PLACEHOLDER slot materialised (stored back with object.__setattr__,
    no flag touched) -/
def getAttr (S : Schema) (fs : List FieldD) (st : MState) (idx : Nat) : R (Val × MState) :=
  match fs[idx]? with
  | Option.none => .error .attr
  | some f =>
    if hidden f idx st.cur then .error .attr
    else
      let v := materialize S f (st.slots.getD idx .ph)
      .ok (v, { st with slots := setAt st.slots idx v })

/-- every attribute read an encoder / dict observer performs: all non-hidden slots
    materialised -/
def materializeAll (S : Schema) (fs : List FieldD) (cur : List (Option Nat)) : Nat → List Val → List Val
  | _, [] => []
  | i, v :: vs =>
    (match fs[i]? with
     | some f => if hidden f i cur then v else materialize S f v
     | Option.none => v) :: materializeAll S fs cur (i + 1) vs

mutual
/-- `copy.deepcopy(v)` (after the D13 / D45 repairs): a fresh instance receives the
    non-PLACEHOLDER fields (deep-copied) directly, and the original's
    `_serialized_on_wire`, `_unknown_fields` and a copy of `_group_current` -/
def deepCopy (S : Schema) : Val → Val
  | .list xs => .list (deepCopyList S xs)
  | .dict ks vs => .dict ks (deepCopyList S vs)
  | .msg c sl ow unk cur => .msg c (deepCopySlots S (fieldsOf S c) sl) ow unk cur
  | v => v
def deepCopyList (S : Schema) : List Val → List Val
  | [] => []
  | x :: xs => deepCopy S x :: deepCopyList S xs
/-- the slots of the copy: PLACEHOLDER slots are left out, so they keep the dataclass
    default of the fresh instance (None for optional fields) -/
def deepCopySlots (S : Schema) : List FieldD → List Val → List Val
  | f :: fs, v :: vs =>
    (match v with
     | .ph => if f.optional then Val.none else Val.ph
     | v => deepCopy S v) :: deepCopySlots S fs vs
  | _, _ => []
end

/-- `copy.copy(m)`: same, but field values are shared, not copied -/
def shallowCopy (S : Schema) : Val → Val
  | .msg c sl ow unk cur =>
    let fs := fieldsOf S c
    let sl' := (sl.zip fs).map fun (v, f) => match v with
      | .ph => if f.optional then Val.none else Val.ph
      | v => v
    .msg c sl' ow unk cur
  | v => v

inductive Op
  | setattr (idx : Nat) (v : Val)
  | getattr (idx : Nat)
  | parse (bs : Bytes)
  | fromDict (kw : List (Nat × Val))     -- instance form: one setattr per key, in order
  | copy
  | deepcopy
  | pickle
  | readAll                              -- bytes / len / dump / to_dict / to_json: reads every field
  | rawObs                               -- == / bool / repr: raw reads only
  deriving Inhabited

def applyKw (S : Schema) (fs : List FieldD) : MState → List (Nat × Val) → MState
  | st, [] => st
  | st, (i, v) :: rest => applyKw S fs (setAttr S fs st i v) rest

/-- one operation on a message instance; `.error` = the operation raised and left the
    instance as it was (the harness then keeps the old state) -/
def stepOp (S : Schema) (m : Val) (op : Op) : R Val :=
  match stateOf m with
  | Option.none => .error .type
  | some (c, st) =>
    let fs := fieldsOf S c
    match op with
    | .setattr idx v => if idx < fs.length then .ok ((setAttr S fs st idx v).toVal c) else .error .attr
    | .getattr idx => (getAttr S fs st idx).bind fun (_, st') => .ok (st'.toVal c)
    | .parse bs => parseInto S m bs
    | .fromDict kw => .ok ((applyKw S fs { st with onWire := true } kw).toVal c)
    | .copy => .ok (shallowCopy S m)
    | .deepcopy => .ok (deepCopy S m)
    | .pickle => (dumpVal S m).bind fun bs => parse S c bs
    | .readAll => .ok ({ st with slots := materializeAll S fs st.cur 0 st.slots }.toVal c)
    | .rawObs => .ok m

/-- `Cls.from_dict(d)` (class form): constructor call, then `_serialized_on_wire = True` -/
def fromDictCls (S : Schema) (c : Nat) (kw : List (Nat × Val)) : Val :=
  match construct S c kw with
  | .msg c sl _ unk cur => .msg c sl true unk cur
  | v => v

end Bp
