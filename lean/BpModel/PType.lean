/-
  The 18 proto type tags of betterproto (TYPE_* constants).  The string each tag
  stands for is regenerated in Gen/WireTables.lean (`typeName`).
-/
namespace Bp

inductive PType
  | enum | bool | int32 | int64 | uint32 | uint64 | sint32 | sint64 | float | double
  | fixed32 | sfixed32 | fixed64 | sfixed64 | string | bytes | message | map
  deriving DecidableEq, Repr, Inhabited

def PType.all : List PType :=
  [.enum, .bool, .int32, .int64, .uint32, .uint64, .sint32, .sint64, .float, .double,
   .fixed32, .sfixed32, .fixed64, .sfixed64, .string, .bytes, .message, .map]

end Bp
