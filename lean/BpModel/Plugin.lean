import BpModel.PType
import BpModel.Gen.PluginTables
import BpModel.Gen.Descriptors
/-
  Model of the protoc plugin's translation of a descriptor tree into classes
  (src/betterproto/plugin/parser.py: traverse, read_protobuf_type;
   src/betterproto/plugin/models.py: get_map_entry / is_map, is_oneof, FieldCompiler,
   OneOfFieldCompiler, MapEntryCompiler, EnumDefinitionCompiler;
   src/betterproto/compile/importing.py: the unwrap part of get_type_reference;
   src/betterproto/__init__.py: the `*_field` constructors that the generated line calls).

  Names are ASCII identifiers: `List Char`.  The three casing functions of
  compile/naming.py (class name, field name, enum member name) are *parameters* of the
  model (they are the subject of C19); every theorem holds for all of them, the
  correspondence run instantiates them with the real functions, tabulated.

  The model is of the tree *with* fixes/D08-map-entry-exact-name.patch and
  fixes/D24-wrapper-table.patch applied; the code before the fixes is kept below in
  `namespace Legacy` so that the two defects stay visible as `decide`d witnesses.
-/
namespace Bp.Plugin
open Bp Bp.Gen.Plugin

abbrev Name := List Char

/-! ## the descriptor tree (FileDescriptorProto as the plugin reads it) -/

inductive Label
  | optional | required | repeated
  deriving DecidableEq, Repr, Inhabited

/-- FieldDescriptorProto: `type` is the number of FieldDescriptorProto.Type (1..18);
    `oneofIndex = some i` iff `which_one_of(f, "oneof_index")` reports it as set -/
structure FieldP where
  name : Name
  number : Nat
  label : Label
  type : Nat
  typeName : Name := []
  oneofIndex : Option Nat := none
  proto3Optional : Bool := false
  deriving DecidableEq, Repr, Inhabited

structure EnumP where
  name : Name
  values : List (Name × Int)
  deriving DecidableEq, Repr, Inhabited

/-- DescriptorProto: name, field, nested_type, enum_type, oneof_decl (names), options.map_entry -/
inductive MsgP where
  | mk (name : Name) (fields : List FieldP) (nested : List MsgP) (enums : List EnumP)
       (oneofs : List Name) (mapEntry : Bool)
  deriving Repr, Inhabited

namespace MsgP
def name : MsgP → Name | .mk n _ _ _ _ _ => n
def fields : MsgP → List FieldP | .mk _ f _ _ _ _ => f
def nested : MsgP → List MsgP | .mk _ _ n _ _ _ => n
def enums : MsgP → List EnumP | .mk _ _ _ e _ _ => e
def oneofs : MsgP → List Name | .mk _ _ _ _ o _ => o
def mapEntry : MsgP → Bool | .mk _ _ _ _ _ b => b
end MsgP

structure FileP where
  package : Name
  messages : List MsgP
  enums : List EnumP
  deriving Repr, Inhabited

/-! ## what the plugin emits -/

/-- `FieldCompiler.py_type`: the inner Python type of an annotation -/
inductive PyT
  | prim (n : Name)        -- float / int / bool / str / bytes
  | optPrim (n : Name)     -- `Optional[bool]`: an unwrapped wrapper type
  | datetime
  | timedelta
  | ref (typeName : Name)  -- reference to the class generated (or bundled) for a proto type (C13)
  deriving DecidableEq, Repr, Inhabited

/-- `FieldCompiler.annotation` -/
inductive Ann
  | plain (t : PyT) | list (t : PyT) | optional (t : PyT) | dict (k v : PyT)
  deriving DecidableEq, Repr, Inhabited

/-- one rendered field line:
    `<pyName>: <ann> = betterproto.<ctor>_field(<number>[, betterproto.<k>, betterproto.<v>][, wraps=betterproto.<wraps>][, optional=True][, group="<group>"])` -/
structure CField where
  pyName : Name
  ctor : Name
  number : Nat
  mapTypes : Option (Name × Name) := none
  wraps : Option Name := none
  optional : Bool := false
  group : Option Name := none
  ann : Ann
  deriving DecidableEq, Repr, Inhabited

inductive Class
  | message (pyName : Name) (fields : List CField)
  | enum (pyName : Name) (entries : List (Name × Int))
  deriving DecidableEq, Repr, Inhabited

def Class.pyName : Class → Name
  | .message n _ => n
  | .enum n _ => n

/-- the three functions of compile/naming.py -/
structure Naming where
  cls : Name → Name            -- pythonize_class_name
  fld : Name → Name            -- pythonize_field_name
  mem : Name → Name → Name     -- pythonize_enum_member_name member enum

/-! ## field classification and compilation -/

def lookup? {β} (k : Name) : List (Name × β) → Option β
  | [] => none
  | (a, b) :: r => if a = k then some b else lookup? k r

def lookupN? {β} (k : Nat) : List (Nat × β) → Option β
  | [] => none
  | (a, b) :: r => if a = k then some b else lookupN? k r

/-- number of a member of FieldDescriptorProtoType, by name (regenerated table) -/
def typeNo (nm : Name) : Nat :=
  match descTypeName.find? (fun p => p.2 = nm) with
  | some p => p.1
  | none => 0

def typeMessage : Nat := typeNo "TYPE_MESSAGE".toList

/-- `type_name.split(".").pop()` -/
def lastSeg (s : Name) : Name := (s.reverse.takeWhile (· ≠ '.')).reverse

/-- `get_map_entry` (after the D08 fix): the nested map-entry message a field refers to,
    matched by its exact name -/
def getMapEntry (f : FieldP) (m : MsgP) : Option MsgP :=
  if f.type = typeMessage ∧ f.label = .repeated then
    m.nested.find? (fun n => n.mapEntry && decide (n.name = lastSeg f.typeName))
  else none

def isMap (f : FieldP) (m : MsgP) : Bool := (getMapEntry f m).isSome

/-- `is_oneof`: not proto3_optional and the oneof_index is set -/
def isOneof (f : FieldP) : Bool := !f.proto3Optional && f.oneofIndex.isSome

/-- the unwrap part of `get_type_reference` (regenerated by evaluation on every well-known name) -/
def typeRef (tn : Name) : PyT :=
  match lookup? tn unwrapTable with
  | some (0, py) => .optPrim py
  | some (1, _) => .timedelta
  | some (2, _) => .datetime
  | _ => .ref tn

/-- `FieldCompiler.py_type`; `none` = NotImplementedError -/
def pyTypeOf (f : FieldP) : Option PyT :=
  match lookupN? f.type scalarPyType with
  | some n => some (.prim n)
  | none => if messageTypes.contains f.type then some (typeRef f.typeName) else none

/-- `FieldCompiler.field_wraps` (after the D24 fix: membership in WRAPPER_TYPES) -/
def wrapsOf (tn : Name) : Option Name := (lookup? tn fieldWraps).map (·.1)

/-- `group="<name>"` of OneOfFieldCompiler; outer `none` = IndexError -/
def groupOf (m : MsgP) (f : FieldP) : Option (Option Name) :=
  if isOneof f then
    match f.oneofIndex with
    | some i => (m.oneofs[i]?).map some
    | none => some none
  else some none

def annOf (f : FieldP) (py : PyT) : Ann :=
  if f.label = .repeated then .list py else if f.proto3Optional then .optional py else .plain py

/-- `read_protobuf_type`'s three-way split + `get_field_string`; `none` = the plugin raises -/
def compileField (nm : Naming) (m : MsgP) (f : FieldP) : Option CField :=
  match getMapEntry f m with
  | some e =>
    match e.fields with
    | k :: v :: _ =>
      match pyTypeOf k, pyTypeOf v, lookupN? k.type descTypeName, lookupN? v.type descTypeName with
      | some pk, some pv, some tk, some tv =>
        some { pyName := nm.fld f.name, ctor := "map".toList, number := f.number,
               mapTypes := some (tk, tv), ann := .dict pk pv }
      | _, _, _, _ => none
    | _ => none
  | none =>
    match lookupN? f.type fieldTypeStr, pyTypeOf f, groupOf m f with
    | some ctor, some py, some g =>
      some { pyName := nm.fld f.name, ctor := ctor, number := f.number, wraps := wrapsOf f.typeName,
             optional := f.proto3Optional, group := g, ann := annOf f py }
    | _, _, _ => none

def compileFields (nm : Naming) (m : MsgP) : List FieldP → Option (List CField)
  | [] => some []
  | f :: fs =>
    match compileField nm m f, compileFields nm m fs with
    | some c, some cs => some (c :: cs)
    | _, _ => none

/-- `EnumDefinitionCompiler`: member names re-cased, numbers copied -/
def compileEnum (nm : Naming) (flat : Name) (e : EnumP) : Class :=
  .enum (nm.cls flat) (e.values.map fun (n, v) => (nm.mem n flat, v))

/-! ## traversal: flattening with name prefixing -/

/-- item yielded by `traverse`, carrying its flattened (mutated) name `_A_B` -/
inductive Item
  | enum (flat : Name) (e : EnumP)
  | msg (flat : Name) (m : MsgP)
  deriving Repr, Inhabited

def travEnums (pre : Name) : List EnumP → List Item
  | [] => []
  | e :: es => .enum (pre ++ '_' :: e.name) e :: travEnums pre es

mutual
/-- `_traverse(path, items, prefix)` over messages: the item, then its enums, then its nested messages -/
def travMsgs (pre : Name) : List MsgP → List Item
  | [] => []
  | m :: ms => travMsg pre m ++ travMsgs pre ms
def travMsg (pre : Name) : MsgP → List Item
  | .mk n fs ns es os me =>
    .msg (pre ++ '_' :: n) (.mk n fs ns es os me)
      :: (travEnums (pre ++ '_' :: n) es ++ travMsgs (pre ++ '_' :: n) ns)
end

/-- `traverse(proto_file)`: enums first, then messages -/
def traverse (fl : FileP) : List Item := travEnums [] fl.enums ++ travMsgs [] fl.messages

/-- `read_protobuf_type` on one item; outer `none` = raises, inner `none` = skipped (map entry) -/
def readItem (nm : Naming) : Item → Option (Option Class)
  | .enum flat e => some (some (compileEnum nm flat e))
  | .msg flat m =>
    if m.mapEntry then some none
    else (compileFields nm m m.fields).map fun cs => some (.message (nm.cls flat) cs)

def readItems (nm : Naming) : List Item → Option (List Class)
  | [] => some []
  | it :: r =>
    match readItem nm it, readItems nm r with
    | some (some c), some cs => some (c :: cs)
    | some none, some cs => some cs
    | _, _ => none

def compileFile (nm : Naming) (fl : FileP) : Option (List Class) := readItems nm (traverse fl)

/-- all input files of one output package -/
def compilePackage (nm : Naming) : List FileP → Option (List Class)
  | [] => some []
  | f :: fs =>
    match compileFile nm f, compilePackage nm fs with
    | some a, some b => some (a ++ b)
    | _, _ => none

/-! ## reading the generated line back: what `dataclasses.fields` + `FieldMetadata` + the hint show -/

structure Meta where
  number : Nat
  protoType : PType
  mapTypes : Option (PType × PType)
  group : Option Name
  wraps : Option PType
  optional : Bool
  hint : Ann
  deriving DecidableEq, Repr, Inhabited

/-- the value of a `wraps=betterproto.TYPE_X` argument; outer `none` = AttributeError -/
def wrapsBack : Option Name → Option (Option PType)
  | none => some none
  | some n => (lookup? n typeConsts).map some

/-- evaluate `betterproto.<ctor>_field(number, …)`; `none` = AttributeError / TypeError at import -/
def readBack (c : CField) : Option Meta :=
  match lookup? c.ctor fieldCtors with
  | none => none
  | some pt =>
    if c.wraps.isSome && !ctorsWithWraps.contains c.ctor then none
    else if c.optional && !ctorsWithOptional.contains c.ctor then none
    else if c.group.isSome && !ctorsWithGroup.contains c.ctor then none
    else
      let mt : Option (Option (PType × PType)) :=
        match c.mapTypes with
        | none => if pt = .map then none else some none
        | some (k, v) =>
          if pt = .map then
            match lookup? k typeConsts, lookup? v typeConsts with
            | some a, some b => some (some (a, b))
            | _, _ => none
          else none
      match mt, wrapsBack c.wraps with
      | some mt, some w => some { number := c.number, protoType := pt, mapTypes := mt, group := c.group,
                                  wraps := w, optional := c.optional, hint := c.ann }
      | _, _ => none

/-! ## the specification: what the schema says about a field -/

/-- how the element of a field (the value of a map) is represented in Python -/
inductive Elem
  | scalar (py : Name)       -- float / int / bool / str / bytes
  | unwrapped (py : Name)    -- a wrapper message handled as `Optional[<scalar>]`
  | timestamp                -- `datetime`
  | duration                 -- `timedelta`
  | ref (typeName : Name)    -- the class of a message / enum type
  deriving DecidableEq, Repr, Inhabited

inductive Card
  | singular | optional | repeated
  | map (k v : PType)
  deriving DecidableEq, Repr, Inhabited

structure FieldSpec where
  number : Nat
  ty : PType
  card : Card
  group : Option Name
  wraps : Option PType
  elem : Elem
  /-- Python type of a map's key -/
  keyPy : Option Name
  deriving DecidableEq, Repr, Inhabited

def elemOf : PyT → Elem
  | .prim n => .scalar n
  | .optPrim n => .unwrapped n
  | .datetime => .timestamp
  | .timedelta => .duration
  | .ref t => .ref t

/-- the property-level content of a generated field -/
def observe (mt : Meta) : FieldSpec :=
  { number := mt.number, ty := mt.protoType,
    card := match mt.mapTypes with
      | some (k, v) => .map k v
      | none => match mt.hint with
        | .list _ => .repeated
        | _ => if mt.optional then .optional else .singular
    group := mt.group, wraps := mt.wraps,
    elem := match mt.hint with
      | .plain t | .list t | .optional t => elemOf t
      | .dict _ v => elemOf v
    keyPy := match mt.hint with
      | .dict (.prim k) _ => some k
      | _ => none }

/-- descriptor.proto, `FieldDescriptorProto.Type` → betterproto's type tag (hand-written from
    descriptor.proto; TYPE_GROUP = 10 has no proto3 meaning) -/
def specTypeTable : List (Nat × PType) :=
  [(1, .double), (2, .float), (3, .int64), (4, .uint64), (5, .int32), (6, .fixed64), (7, .fixed32),
   (8, .bool), (9, .string), (11, .message), (12, .bytes), (13, .uint32), (14, .enum),
   (15, .sfixed32), (16, .sfixed64), (17, .sint32), (18, .sint64)]

def specType (t : Nat) : Option PType := lookupN? t specTypeTable

/-- Python type of a scalar proto type (protobuf's Python mapping) -/
def specPy : PType → Option Name
  | .double | .float => some "float".toList
  | .int32 | .int64 | .uint32 | .uint64 | .sint32 | .sint64
  | .fixed32 | .fixed64 | .sfixed32 | .sfixed64 => some "int".toList
  | .bool => some "bool".toList
  | .string => some "str".toList
  | .bytes => some "bytes".toList
  | _ => none

/-- wrappers.proto: the nine wrapper messages and the scalar type of their field `value = 1` -/
def specWrappers : List (Name × PType) :=
  [(".google.protobuf.DoubleValue".toList, .double), (".google.protobuf.FloatValue".toList, .float),
   (".google.protobuf.Int64Value".toList, .int64), (".google.protobuf.UInt64Value".toList, .uint64),
   (".google.protobuf.Int32Value".toList, .int32), (".google.protobuf.UInt32Value".toList, .uint32),
   (".google.protobuf.BoolValue".toList, .bool), (".google.protobuf.StringValue".toList, .string),
   (".google.protobuf.BytesValue".toList, .bytes)]

def tsName : Name := ".google.protobuf.Timestamp".toList
def durName : Name := ".google.protobuf.Duration".toList

/-- element representation demanded for a message / enum reference outside a map -/
def specElemRef (tn : Name) : Option Elem :=
  match lookup? tn specWrappers with
  | some t => (specPy t).map .unwrapped
  | none => if tn = tsName then some .timestamp else if tn = durName then some .duration else some (.ref tn)

/-- … and for the value of a map: there is no `wraps` for map values, so a wrapper value has to
    be its message class -/
def specElemMapValue (tn : Name) : Elem :=
  if tn = tsName then .timestamp else if tn = durName then .duration else .ref tn

def specElem (f : FieldP) (inMap : Bool) : Option Elem :=
  match specType f.type with
  | some .message => if inMap then some (specElemMapValue f.typeName) else specElemRef f.typeName
  | some .enum => some (.ref f.typeName)
  | some t => (specPy t).map .scalar
  | none => none

/-- the map-entry message of a map field according to the schema: a `map_entry` message nested
    in the field's own message `full` whose full name is the field's type (protoc's
    ValidateMapEntry guarantees that a map-entry type is referenced by nothing else) -/
def specMapEntry (full : Name) (m : MsgP) (f : FieldP) : Option MsgP :=
  if specType f.type = some .message then
    m.nested.find? (fun n => n.mapEntry && decide (f.typeName = full ++ '.' :: n.name))
  else none

/-- the oneof a field belongs to: its `oneof_index`, unless that oneof is the synthetic one of
    a proto3 `optional` field; outer `none` = dangling index -/
def specGroup (m : MsgP) (f : FieldP) : Option (Option Name) :=
  match f.oneofIndex with
  | some i => if f.proto3Optional then some none else (m.oneofs[i]?).map some
  | none => some none

def fieldNo (n : Nat) (e : MsgP) : Option FieldP := e.fields.find? (fun f => f.number = n)

/-- what the schema says about field `f` of the message `m` whose full name is `full`
    (`.pkg.Outer.Inner`); `none` = not a proto3 field (group, unknown type, dangling oneof index) -/
def specOf (full : Name) (m : MsgP) (f : FieldP) : Option FieldSpec :=
  match specMapEntry full m f with
  | some e =>
    match fieldNo 1 e, fieldNo 2 e with
    | some k, some v =>
      match specType k.type, specType v.type with
      | some tk, some tv =>
        match specPy tk, specElem v true with
        | some pk, some ev =>
          some { number := f.number, ty := .map, card := .map tk tv, group := none, wraps := none,
                 elem := ev, keyPy := some pk }
        | _, _ => none
      | _, _ => none
    | _, _ => none
  | none =>
    match specType f.type, specElem f false with
    | some t, some el =>
      match specGroup m f with
      | some g =>
        some { number := f.number, ty := t,
               card := if f.label = .repeated then .repeated else if f.proto3Optional then .optional else .singular,
               group := g,
               wraps := if t = .message then lookup? f.typeName specWrappers else none,
               elem := el, keyPy := none }
      | none => none
    | _, _ => none

/-! ## guards (decidable predicates on the descriptor) -/

def validType (t : Nat) : Bool := (specType t).isSome

/-- what protoc guarantees of a map-entry message: exactly `key = 1` and `value = 2`, in that
    order, the key a scalar that is not float/double/bytes -/
def validEntry (e : MsgP) : Bool :=
  match e.fields with
  | [k, v] => k.number = 1 && v.number = 2 && validType k.type && validType v.type
              && (specType k.type).any (fun t => (specPy t).isSome)
              && (specType v.type == some .message
                  || ((lookup? v.typeName specWrappers).isNone && v.typeName != tsName && v.typeName != durName))
  | _ => false

/-- what protoc guarantees of one field of message `m` (full name `full`) -/
def validField (full : Name) (m : MsgP) (f : FieldP) : Bool :=
  validType f.type
  -- the names of the wrappers, Timestamp and Duration denote messages
  && (specType f.type == some .message
      || ((lookup? f.typeName specWrappers).isNone && f.typeName != tsName && f.typeName != durName))
  && (match f.oneofIndex with | some i => decide (i < m.oneofs.length) | none => true)
  && (!f.proto3Optional || f.label != .repeated)
  && (match specMapEntry full m f with | some _ => f.label == .repeated | none => true)

/-- what protoc guarantees of message `m`: nested names are distinct and dot-free, map entries
    are well formed, fields are valid -/
def validMsg (full : Name) (m : MsgP) : Bool :=
  (m.nested.map MsgP.name).Nodup
  && m.nested.all (fun n => !n.name.contains '.' && (!n.mapEntry || validEntry n))
  && m.fields.all (validField full m)

/-- residual guard after the D08 fix: a field whose type's simple name is the name of a map
    entry nested in its own message really refers to that entry -/
def mapRefsLocal (full : Name) (m : MsgP) : Bool :=
  m.fields.all fun f => m.nested.all fun n =>
    !(n.mapEntry && f.type = typeMessage && decide (n.name = lastSeg f.typeName))
      || decide (f.typeName = full ++ '.' :: n.name)

/-- guard for the map-value finding: no map of this message has a wrapper message as its value -/
def noWrapperMapValue (m : MsgP) : Bool :=
  m.nested.all fun n => !n.mapEntry || n.fields.all fun v =>
    !(v.number = 2 && specType v.type = some .message && (lookup? v.typeName specWrappers).isSome)

/-! ## all types of a schema, by nesting path (specification side of the flattening) -/

inductive TypeKind | message | enum
  deriving DecidableEq, Repr

mutual
def msgsTypes (path : List Name) : List MsgP → List (List Name × TypeKind)
  | [] => []
  | m :: ms => msgTypes path m ++ msgsTypes path ms
/-- every message (map entries excepted) and enum at or below `m`, with the names from the root -/
def msgTypes (path : List Name) : MsgP → List (List Name × TypeKind)
  | .mk n _ ns es _ me =>
    (if me then [] else [(path ++ [n], TypeKind.message)])
      ++ (es.map fun e => (path ++ [n, e.name], TypeKind.enum))
      ++ msgsTypes (path ++ [n]) ns
end

def allTypes (fl : FileP) : List (List Name × TypeKind) :=
  (fl.enums.map fun e => ([e.name], TypeKind.enum)) ++ msgsTypes [] fl.messages

/-- the flattened name of a type: `_Outer_Inner` -/
def flatName : List Name → Name
  | [] => []
  | n :: r => '_' :: n ++ flatName r

/-- no two types of the file get the same class name -/
def noFlattenCollision (nm : Naming) (fl : FileP) : Bool :=
  ((allTypes fl).map fun t => nm.cls (flatName t.1)).Nodup

/-! ## the code before the fixes (kept for the witnesses of D08 and D24) -/
namespace Legacy

def lower (s : Name) : Name := s.map Char.toLower
def upper (s : Name) : Name := s.map Char.toUpper
def stripLower (s : Name) : Name := lower (s.filter (· ≠ '_'))

/-- `f"{name.replace('_', '').lower()}entry"` -/
def entryKey (f : FieldP) : Name := stripLower f.name ++ "entry".toList

/-- `is_map` before D08: lossy comparison of lower-cased, underscore-stripped names -/
def isMap (f : FieldP) (m : MsgP) : Bool :=
  f.type = typeMessage && lower (lastSeg f.typeName) = entryKey f
    && m.nested.any (fun n => stripLower n.name = entryKey f && n.mapEntry)

/-- the entry MapEntryCompiler.__post_init__ ends up with: the *last* nested type that matches -/
def mapEntry (f : FieldP) (m : MsgP) : Option MsgP :=
  (m.nested.reverse.find? (fun n => stripLower n.name = entryKey f && n.mapEntry))

/-- `re.match(r"\.google\.protobuf\.(.+)Value$", type_name)` + `hasattr(betterproto, "TYPE_" + group(1).upper())` -/
def wrapsOf (tn : Name) : Option Name :=
  let pre := ".google.protobuf.".toList
  let suf := "Value".toList
  if pre.isPrefixOf tn ∧ suf.isSuffixOf tn ∧ pre.length + suf.length < tn.length then
    let mid := (tn.drop pre.length).take (tn.length - pre.length - suf.length)
    let c := "TYPE_".toList ++ upper mid
    if (lookup? c typeConsts).isSome then some c else none
  else none

end Legacy

/-! ## bundled descriptor classes vs the reference DESCRIPTORs -/
open Bp.Gen.Desc in
/-- a bundled class agrees with the reference message on every field number they share
    (same field name, same proto type, same repeated-ness) and on every field name they share
    (same number) -/
def rowsAgree (ref : List FRow) (rows : List FRow) : Bool :=
  rows.all fun r => ref.all fun q =>
    (!(q.num = r.num) || (q.name = r.name && q.ty = r.ty && q.rep = r.rep))
    && (!(q.name = r.name) || q.num = r.num)

open Bp.Gen.Desc in
def libAgrees (lib : List (Nat × List FRow)) : Bool :=
  lib.all fun (mid, rows) => rowsAgree (reference.getD mid []) rows

open Bp.Gen.Desc in
/-- a bundled enum agrees with the reference enum on every member they share: a bundled member
    whose name is a reference member's name or a suffix of one (the plugin strips the enum-name
    prefix) carries the number of one of those reference members -/
def enumAgrees (ref : List ERow) (rows : List ERow) : Bool :=
  rows.all fun r =>
    !(ref.any fun q => q.name % 256 ^ r.len = r.name)
      || (ref.any fun q => q.name % 256 ^ r.len = r.name && q.num = r.num)

open Bp.Gen.Desc in
def libEnumsAgree (lib : List (Nat × List ERow)) : Bool :=
  lib.all fun (eid, rows) => enumAgrees (referenceEnums.getD eid []) rows

open Bp.Gen.Desc in
/-- number of (class, field) pairs of a library that have a counterpart in the reference -/
def sharedCount (lib : List (Nat × List FRow)) : Nat :=
  (lib.map fun (mid, rows) => (rows.filter fun r => (reference.getD mid []).any fun q => q.num = r.num).length).sum

end Bp.Plugin
