import BpModel.Plugin
import BpModel.Schema
/-
  The link between the two halves of the development: what the RUNTIME derives from the
  dataclasses the PLUGIN writes.

  `Bp.Plugin.Class` / `CField` (BpModel/Plugin.lean) is one generated class / field line;
  `Bp.FieldD` / `MsgD` / `Schema` (BpModel/Schema.lean) is what every codec theorem
  quantifies over.  `toSchema` is `ProtoClassMetadata.__init__` on every message class of a
  package (src/betterproto/__init__.py:716-800, 1227-1275):

    * `meta_by_field_name[name]`   → num, ty (the `*_field` constructor), wraps, optional, group, map_types
    * `default_gen[name] is list`  → repeated      (`_get_field_default_gen`: the hint is `List[...]`)
    * `cls_by_field[name]`         → kind          (`_cls_for`: the hint's first argument / the hint)
    * `cls_by_field[name + ".value"]` → mapVKind   (`_cls_for(field, index=1)`)
    * the enum class in the hint   → enumRef
    * `oneof_group_by_field`       → group, as an index into the group names of the class in
                                     first-occurrence order (what harness/bpgen.py uses)

  A `PyT.ref typeName` annotation denotes "the class generated for the proto type `typeName`"
  (that the annotation *text* resolves to that class is the subject of C13); `envOf` resolves it
  inside one output package: strip the package, flatten `A.B` to `_A_B`, apply the class-naming
  function, look the name up among the classes.  Message classes and enum classes are indexed
  separately (the runtime model has `Schema` for messages and `Enums` for enums).
-/
namespace Bp.Plugin
open Bp

/-- what a type name in an annotation resolves to -/
structure Env where
  /-- index of the message class generated for a proto type -/
  msg : Name → Option Nat
  /-- index of the enum class generated for a proto type -/
  enm : Name → Option Nat

def idxOf (g : Name) : List Name → Option Nat
  | [] => none
  | a :: r => if a = g then some 0 else (idxOf g r).map (· + 1)

/-- the `group=` names of a class, each once, in order of first occurrence -/
def groupNames : List (Option Name) → List Name
  | [] => []
  | none :: r => groupNames r
  | some g :: r => g :: (groupNames r).filter (fun x => x ≠ g)

/-- `_cls_for`: `List[X]` / `Optional[X]` → `X` (`__args__[0]`); `Dict[K, V]` → `V` (index 1: the
    key class is never a message) -/
def hintElem : Ann → PyT
  | .plain t | .list t | .optional t => t
  | .dict _ v => v

def hintIsList : Ann → Bool
  | .list _ => true
  | _ => false

/-- `_get_field_default_gen` returns `type(None)`: the hint is a Union (`Optional[X]`, which an
    unwrapped wrapper type is too) -/
def hintIsNone : Ann → Bool
  | .optional _ => true
  | .plain (.optPrim _) => true
  | _ => false

def hintIsDict : Ann → Bool
  | .dict _ _ => true
  | _ => false

/-- the class a message-typed element is: `datetime` / `timedelta` / a generated class;
    `none` = the hint names no message class of this package -/
def kindOfElem (env : Env) : Elem → Option MsgKind
  | .timestamp => some .timestamp
  | .duration => some .duration
  | .ref tn => (env.msg tn).map .user
  | _ => none

def enumOfElem (env : Env) : Elem → Option Nat
  | .ref tn => env.enm tn
  | _ => none

def groupIdx (gs : List Name) : Option Name → Option (Option Nat)
  | none => some none
  | some g => (idxOf g gs).map some

/-- one `FieldD` from the metadata + hint of one dataclass field; `gs` = the group names of the class -/
def metaFieldD (env : Env) (gs : List Name) (name : Name) (mt : Meta) : Option FieldD :=
  let el := elemOf (hintElem mt.hint)
  let kv := mt.mapTypes.getD (.int32, .int32)
  match groupIdx gs mt.group,
        (if mt.protoType = .message ∧ mt.wraps = none then kindOfElem env el else some (.user 0)),
        (if mt.protoType = .map ∧ kv.2 = .message then kindOfElem env el else some (.user 0)),
        (if mt.protoType = .enum ∨ (mt.protoType = .map ∧ kv.2 = .enum) then (enumOfElem env el).map some else some none) with
  | some g, some k, some vk, some er =>
    some { name := String.ofList name, num := mt.number, ty := mt.protoType, repeated := hintIsList mt.hint,
           optional := mt.optional, group := g, wraps := mt.wraps, kind := k,
           mapK := kv.1, mapV := kv.2, mapVKind := vk, enumRef := er }
  | _, _, _, _ => none

/-- … from one generated line -/
def cfieldD (env : Env) (gs : List Name) (c : CField) : Option FieldD :=
  (readBack c).bind (metaFieldD env gs c.pyName)

def mapMOpt {α β} (f : α → Option β) : List α → Option (List β)
  | [] => some []
  | a :: r =>
    match f a, mapMOpt f r with
    | some b, some bs => some (b :: bs)
    | _, _ => none

/-- `ProtoClassMetadata(cls)` for one message class -/
def classD (env : Env) (cs : List CField) : Option MsgD :=
  let gs := groupNames (cs.map (·.group))
  (mapMOpt (cfieldD env gs) cs).map fun fs => { fields := fs, nGroups := gs.length }

/-! ### resolution of type names inside one output package -/

def msgClasses : List Class → List (Name × List CField)
  | [] => []
  | .message n fs :: r => (n, fs) :: msgClasses r
  | .enum _ _ :: r => msgClasses r

def enumClasses : List Class → List (Name × List (Name × Int))
  | [] => []
  | .message _ _ :: r => enumClasses r
  | .enum n es :: r => (n, es) :: enumClasses r

def dotsToUnderscores (s : Name) : Name := s.map fun c => if c = '.' then '_' else c

/-- `.pkg.Outer.Inner` → `_Outer_Inner` (the name `traverse` gives the type); `none` = a type of
    another package -/
def flatOfTypeName (pkg tn : Name) : Option Name :=
  let pre := if pkg.isEmpty then ['.'] else '.' :: pkg ++ ['.']
  if pre.isPrefixOf tn then some ('_' :: dotsToUnderscores (tn.drop pre.length)) else none

def envOf (nm : Naming) (pkg : Name) (cs : List Class) : Env :=
  { msg := fun tn => (flatOfTypeName pkg tn).bind fun fl => idxOf (nm.cls fl) ((msgClasses cs).map (·.1)),
    enm := fun tn => (flatOfTypeName pkg tn).bind fun fl => idxOf (nm.cls fl) ((enumClasses cs).map (·.1)) }

/-- the runtime schema of the message classes of one output package, in class order -/
def toSchema (nm : Naming) (pkg : Name) (cs : List Class) : Option Schema :=
  mapMOpt (fun p => classD (envOf nm pkg cs) p.2) (msgClasses cs)

/-! ### the SPEC's reading of a descriptor field, as a `FieldD` -/

/-- the `FieldD` the schema demands for a field with specification `s` -/
def specFieldD (env : Env) (gs : List Name) (name : Name) (s : FieldSpec) : Option FieldD :=
  let kv : PType × PType := match s.card with | .map k v => (k, v) | _ => (.int32, .int32)
  match groupIdx gs s.group,
        (if s.ty = .message ∧ s.wraps = none then kindOfElem env s.elem else some (.user 0)),
        (if s.ty = .map ∧ kv.2 = .message then kindOfElem env s.elem else some (.user 0)),
        (if s.ty = .enum ∨ (s.ty = .map ∧ kv.2 = .enum) then (enumOfElem env s.elem).map some else some none) with
  | some g, some k, some vk, some er =>
    some { name := String.ofList name, num := s.number, ty := s.ty, repeated := decide (s.card = .repeated),
           optional := decide (s.card = .optional), group := g, wraps := s.wraps, kind := k,
           mapK := kv.1, mapV := kv.2, mapVKind := vk, enumRef := er }
  | _, _, _, _ => none

/-- the oneofs of a message that have a member, in order of their first member -/
def specGroupNames (full : Name) (m : MsgP) : List Name :=
  groupNames (m.fields.map fun f => (specOf full m f).bind (·.group))

/-- the `MsgD` the schema demands for message `m` (full name `full`) -/
def specMsgD (nm : Naming) (env : Env) (full : Name) (m : MsgP) : Option MsgD :=
  let gs := specGroupNames full m
  (mapMOpt (fun f => (specOf full m f).bind (specFieldD env gs (nm.fld f.name))) m.fields).map
    fun fs => { fields := fs, nGroups := gs.length }

/-! ### the messages of a file with their full names (specification side of the traversal) -/

mutual
def fullMsgsL (pre : Name) : List MsgP → List (Name × MsgP)
  | [] => []
  | m :: ms => fullMsgs1 pre m ++ fullMsgsL pre ms
/-- `m` and every message nested in it, each with its full name `.pkg.Outer.Inner`, in declaration order -/
def fullMsgs1 (pre : Name) : MsgP → List (Name × MsgP)
  | .mk n fs ns es os me => (pre ++ '.' :: n, .mk n fs ns es os me) :: fullMsgsL (pre ++ '.' :: n) ns
end

def pkgPrefix (pkg : Name) : Name := if pkg.isEmpty then [] else '.' :: pkg

/-- the messages of a file that get a class (synthetic map entries excepted) -/
def liveMsgs (l : List (Name × MsgP)) : List (Name × MsgP) := l.filter fun p => !p.2.mapEntry

def fileMsgs (fl : FileP) : List (Name × MsgP) := liveMsgs (fullMsgsL (pkgPrefix fl.package) fl.messages)

def packageMsgs (files : List FileP) : List (Name × MsgP) := files.flatMap fileMsgs

/-- the three per-message guards of `Props/C03.lean`: what protoc guarantees, outside D30 / D31 -/
def inDomain (full : Name) (m : MsgP) : Bool := validMsg full m && mapRefsLocal full m && noWrapperMapValue m

/-- every message of every file (at every depth) is in the domain -/
def validPackage (files : List FileP) : Bool := (packageMsgs files).all fun p => inDomain p.1 p.2

/-- the runtime schema the descriptors demand of the package -/
def specSchema (nm : Naming) (env : Env) (files : List FileP) : Option Schema :=
  mapMOpt (fun p => specMsgD nm env p.1 p.2) (packageMsgs files)

/-! ### the pydantic variant (`PydanticOneOfFieldCompiler`): a oneof member additionally gets
    `optional=True` and an `Optional[...]` annotation -/

def pydanticField (c : CField) : CField :=
  if c.group.isSome then
    { c with optional := true, ann := match c.ann with | .plain t => .optional t | a => a }
  else c

def pydanticClass : Class → Class
  | .message n fs => .message n (fs.map pydanticField)
  | c => c

/-- the field description the pydantic variant yields for a oneof member -/
def markOptionalMember (f : FieldD) : FieldD := if f.group.isSome then { f with optional := true } else f

end Bp.Plugin
