import BpModel.Json
/-
  Model of `Message.to_pydict` / `Message.from_pydict` (src/betterproto/__init__.py) -- the code
  as it is, quirks included -- and of the attribute reads `to_pydict` performs (`pyReads`: the one
  way a read-only observer writes to the object, C14).

  REPRESENTATION.  The dict `to_pydict` returns holds Python objects AS THEY ARE (ints, bools,
  floats, str, bytes, enum members, aware datetimes, timedeltas, lists of these) next to the
  dicts / lists of dicts it builds for sub-messages.  `PVal` is the type of such an object: it IS
  `JVal` (BpModel/Json.lean) used with the convention of its `rawJ` embedding -- `None` is
  `null`, an int (an enum member is an int) is `num i`, a float `fnum32 b` / `fnum b`, a str
  `str s`, a list `arr`, a dict `obj`, and everything JSON has no type for (bytes, datetime,
  timedelta) is the leaf `raw v` holding the Python value itself.  The text leaves of the JSON
  mapping (`decStr`, `b64`, `tsStr`, `durStr`, `fstr`) never occur in a `PVal` that `toPyDict`
  builds.  (Sharing the type lets the driver, the canonical text of the harness and the semantic
  prelude of the source translator -- ordered dict writes, `{**value}`, iteration -- be the ones
  of `to_dict`.)

  What `to_pydict` does NOT do, unlike `to_dict` (all modelled as written):
    * no `or meta.optional` in the emission test of a datetime / timedelta: a proto3-optional
      Timestamp / Duration set to the epoch / zero is left out (D27 was repaired in `to_dict` only);
    * a repeated Timestamp / Duration field is treated as a list of messages:
      `[i.to_pydict(...) for i in value]` raises AttributeError on the first item.
  `from_pydict` works on the INSTANCE: for a message-typed field it first reads the attribute
  (`getattr`: AttributeError for a oneof member that is not the selected one -- on a fresh
  instance: for every message-typed oneof member; `None` for a proto3-optional member, whose
  `.from_pydict` then raises), mutates what it got in place, and stores it with `setattr`.
-/
namespace Bp

/-- a Python object inside the dict `to_pydict` returns: see the header -/
abbrev PVal := JVal

/-! ### to_pydict -/

/-- `to_pydict` on one attribute value that is a scalar, a datetime / timedelta, or None.
    `.error`: the source raises (or iterates over something that is not a list: not modelled). -/
def toPyDictPlain (S : Schema) (f : FieldD) (sel incl : Bool) (v : Val) : R (Option PVal) :=
  if f.ty == .message then
    match v with
    | .ts us => .ok (if us != 0 || incl || sel then some (.raw (.ts us)) else Option.none)
    | .dur us => .ok (if us != 0 || incl || sel then some (.raw (.dur us)) else Option.none)
    | v =>
      if f.wraps.isSome then
        (match v with
         | .none => .ok (if incl then some .null else Option.none)
         | v => .ok (some (rawJ v)))
      else if f.repeated then .error .type               -- `for i in <leaf>`
      else (match v with
            | .none => .ok (if incl then some .null else Option.none)
            | _ => .error .attr)                          -- `<leaf>._serialized_on_wire`
  else if f.ty == .map then .error .type                  -- `{**<leaf>}`
  else .ok (if !eqDefault S f.defKind v || incl || sel then some (rawJ v) else Option.none)

/-- `to_pydict` on an attribute that reads as the field's default (`getattr` raised
    AttributeError for an unselected oneof member, or the slot is still PLACEHOLDER) -/
def toPyDictDefault (S : Schema) (f : FieldD) (sel incl : Bool) : R (Option PVal) :=
  match f.defKind with
  | .list =>
    if f.ty == .message then
      if f.wraps.isSome then .ok (some (.arr []))       -- `value is not None`: the empty list is written
      else .ok (if incl then some (.arr []) else Option.none)
    else if f.ty == .map then .error .type
    else .ok (if incl || sel then some (.arr []) else Option.none)
  | .dict => if f.ty == .map then .ok (if incl then some (.obj [] []) else Option.none) else .error .type
  | .msg _ =>
    -- a fresh sub-message: not on the wire, equal to the default.  With include_default_values its
    -- own defaults are expanded recursively (not modelled: `raw ph`, as in `toDictDefault`)
    if f.ty == .message then
      .ok (if incl then some (.raw .ph) else if sel then some (.obj [] []) else Option.none)
    else .error .type
  | k => toPyDictPlain S f sel incl (defaultOfKind S k)

mutual
/-- `m.to_pydict(casing, include_default_values)`; on anything that is not a message: AttributeError -/
def toPyDict (S : Schema) (cs : KeyCase) (incl : Bool) : Val → R PVal
  | .msg c slots _ _ cur =>
    (toPyDictKVs S cs incl (fieldsOf S c) cur 0 slots).bind fun kvs => .ok (mkObj kvs)
  | _ => .error .attr

/-- the items of the output dict, in `meta_by_field_name` order -/
def toPyDictKVs (S : Schema) (cs : KeyCase) (incl : Bool) (fs : List FieldD) (cur : List (Option Nat)) :
    Nat → List Val → R (List (JKey × PVal))
  | _, [] => .ok []
  | idx, v :: vs =>
    match fs[idx]? with
    | Option.none => .ok []
    | some f =>
      (toPyDictSlot S cs incl f (hidden f idx cur) (selectedInGroup f idx cur) v).bind fun r =>
      (toPyDictKVs S cs incl fs cur (idx + 1) vs).bind fun rest =>
        .ok (match r with
             | some j => (jsonKey cs f.name, j) :: rest
             | Option.none => rest)

/-- one iteration of the field loop of `to_pydict` on the raw slot `v`; `.ok none` = the field is
    left out, `.error` = the iteration raises -/
def toPyDictSlot (S : Schema) (cs : KeyCase) (incl : Bool) (f : FieldD) (hid sel : Bool) : Val → R (Option PVal)
  | .ph => toPyDictDefault S f sel incl
  | .list xs =>
    if hid then toPyDictDefault S f sel incl
    else if f.ty == .message then
      if f.wraps.isSome then .ok (some (rawJ (.list xs)))
      else if f.repeated then
        (toPyDictList S cs incl xs).bind fun items =>
          .ok (if !items.isEmpty || incl then some (.arr items) else Option.none)
      else .error .attr                                   -- `<list>._serialized_on_wire`
    else if f.ty == .map then .error .type                -- `{**<list>}`
    else .ok (if !eqDefault S f.defKind (.list xs) || incl || sel then some (rawJ (.list xs)) else Option.none)
  | .dict ks vs =>
    if hid then toPyDictDefault S f sel incl
    else if f.ty == .map then
      (toPyDictMapVals S cs incl vs).bind fun pvs =>
        .ok (if !ks.isEmpty || incl then some (.obj (ks.map keyJ) pvs) else Option.none)
    else .error .notImpl                                  -- a dict outside a map field: not modelled
  | .msg c slots ow unk cur =>
    if hid then toPyDictDefault S f sel incl
    else if f.ty == .message && f.wraps.isNone && !f.repeated then
      -- (no `or meta.optional` here: for an optional member the default is None, so the last test holds)
      if ow || incl || sel || !eqDefault S f.defKind (.msg c slots ow unk cur) then
        (toPyDictKVs S cs incl (fieldsOf S c) cur 0 slots).bind fun kvs => .ok (some (mkObj kvs))
      else .ok Option.none
    else .error .notImpl                                  -- a Message where the descriptor has none: not modelled
  | v => if hid then toPyDictDefault S f sel incl else toPyDictPlain S f sel incl v

/-- `[i.to_pydict(casing, include_default_values) for i in value]` -/
def toPyDictList (S : Schema) (cs : KeyCase) (incl : Bool) : List Val → R (List PVal)
  | [] => .ok []
  | x :: xs =>
    (match x with
     | .msg c slots _ _ cur =>
       (toPyDictKVs S cs incl (fieldsOf S c) cur 0 slots).bind fun kvs => .ok (mkObj kvs)
     | _ => .error .attr).bind fun j =>
    (toPyDictList S cs incl xs).bind fun js => .ok (j :: js)

/-- map values: those with a `to_pydict` method are converted, all others stay as they are -/
def toPyDictMapVals (S : Schema) (cs : KeyCase) (incl : Bool) : List Val → R (List PVal)
  | [] => .ok []
  | x :: xs =>
    (match x with
     | .msg c slots _ _ cur =>
       (toPyDictKVs S cs incl (fieldsOf S c) cur 0 slots).bind fun kvs => .ok (mkObj kvs)
     | x => .ok (rawJ x)).bind fun j =>
    (toPyDictMapVals S cs incl xs).bind fun js => .ok (j :: js)
end

/-! ### from_pydict -/

/-- `d[k] = v` for each pair, in order -/
def dictInsertAll : List Val → List Val → List Val → List Val → List Val × List Val
  | ks0, vs0, k :: ks, v :: vs =>
    let r := dictInsert ks0 vs0 k v
    dictInsertAll r.1 r.2 ks vs
  | ks0, vs0, _, _ => (ks0, vs0)

/-- `v.from_pydict(d)` where `v` is not an instance that takes it: AttributeError (None, a scalar, a
    container); a Message given something that is not a dict: `for key in <d>` — not modelled -/
def notMsgErr : Val → PyErr
  | .msg _ _ _ _ _ => .notImpl
  | _ => .attr

/-- `for x in <p>` on an object that is not a list / dict: TypeError; a str iterates over its
    characters (not modelled) -/
def iterErr : PVal → PyErr
  | .str _ => .notImpl
  | _ => .type

/-- `if v is not None: setattr(self, field_name, v)` -/
def setAttrNN (S : Schema) (fs : List FieldD) (st : MState) (i : Nat) : Val → MState
  | .none => st
  | w => setAttr S fs st i w

mutual
/-- the loop of `m.from_pydict(d)` over the keys of `d`, on the state of an instance of class `c` -/
def fromPyKeys (S : Schema) (c : Nat) : MState → List JKey → List PVal → R MState
  | st, k :: ks, p :: ps =>
    match fieldOfJKey (fieldsOf S c) k with
    | .error e => .error e
    | .ok Option.none => fromPyKeys S c st ks ps
    | .ok (some (i, f)) =>
      (fromPyField S (fieldsOf S c) st i f p).bind fun st' => fromPyKeys S c st' ks ps
  | st, _, _ => .ok st

/-- one iteration: the field `f` (index `i`) receives the object `p` -/
def fromPyField (S : Schema) (fs : List FieldD) (st : MState) (i : Nat) (f : FieldD) : PVal → R MState
  | .null => .ok st                                        -- `if value[key] is not None`
  | .arr items =>
    if f.ty == .message then
      (getAttr S fs st i).bind fun (v, st1) =>
      match v with
      | .list xs =>
        -- `cls = cls_by_field[field_name]`: `Optional[...]` for a wrapper field, `datetime` / `timedelta`:
        -- `cls()` is a TypeError, reached with the first item
        if f.wraps.isSome then (if items.isEmpty then .ok (setAttr S fs st1 i (.list xs)) else .error .type)
        else (match f.kind with
         | .user c' => (fromPyItems S c' items).bind fun ys => .ok (setAttr S fs st1 i (.list (xs ++ ys)))
         | _ => if items.isEmpty then .ok (setAttr S fs st1 i (.list xs)) else .error .type)
      | .ts _ => (unRaw (.arr items)).bind fun w => .ok (setAttrNN S fs st1 i w)
      | .dur _ => (unRaw (.arr items)).bind fun w => .ok (setAttrNN S fs st1 i w)
      | v =>
        if f.wraps.isSome then (unRaw (.arr items)).bind fun w => .ok (setAttrNN S fs st1 i w)
        else .error (notMsgErr v)                          -- `None.from_pydict`; a Message: `for key in <list>` not modelled
    else if f.ty == .map && f.mapV == .message then
      -- `for k in <list>: … value[key][k]`: a list subscripted by one of its items (TypeError), unless it is empty
      (getAttr S fs st i).bind fun (v, st1) =>
        if items.isEmpty then .ok (setAttrNN S fs st1 i v) else .error .type
    else (unRaw (.arr items)).bind fun w => .ok (setAttrNN S fs st i w)
  | .obj ks ps =>
    if f.ty == .message then
      (getAttr S fs st i).bind fun (v, st1) =>
      match v with
      | .list _ => .error .notImpl                         -- `for item in <dict>`: the keys; not modelled
      | .ts _ => (unRaw (.obj ks ps)).bind fun w => .ok (setAttrNN S fs st1 i w)
      | .dur _ => (unRaw (.obj ks ps)).bind fun w => .ok (setAttrNN S fs st1 i w)
      | .msg c' sl _ unk cur =>
        if f.wraps.isSome then (unRaw (.obj ks ps)).bind fun w => .ok (setAttrNN S fs st1 i w)
        else
          -- `v.from_pydict(value[key])`: in place, on the very object `getattr` returned
          (fromPyKeys S c' { slots := sl, onWire := true, unknown := unk, cur := cur } ks ps).bind fun st' =>
            .ok (setAttr S fs st1 i (st'.toVal c'))
      | _ =>
        if f.wraps.isSome then (unRaw (.obj ks ps)).bind fun w => .ok (setAttrNN S fs st1 i w)
        else .error .attr                                  -- `None.from_pydict`
    else if f.ty == .map && f.mapV == .message then
      (getAttr S fs st i).bind fun (v, st1) =>
      match v with
      | .dict ks0 vs0 =>
        (match f.mapVKind with
         | .user c' =>
           (fromPyItems S c' ps).bind fun ys =>
             .ok (setAttr S fs st1 i (.dict (dictInsertAll ks0 vs0 (ks.map keyV) ys).1 (dictInsertAll ks0 vs0 (ks.map keyV) ys).2))
         | _ => if ps.isEmpty then .ok (setAttr S fs st1 i (.dict ks0 vs0)) else .error .type)   -- `datetime()`
      | _ => .error .type
    else (unRaw (.obj ks ps)).bind fun w => .ok (setAttrNN S fs st i w)
  | p =>
    if f.ty == .message then
      (getAttr S fs st i).bind fun (v, st1) =>
      match v with
      | .list _ => .error (iterErr p)                      -- `for item in <leaf>`
      | .ts _ => (unRaw p).bind fun w => .ok (setAttrNN S fs st1 i w)
      | .dur _ => (unRaw p).bind fun w => .ok (setAttrNN S fs st1 i w)
      | v =>
        if f.wraps.isSome then (unRaw p).bind fun w => .ok (setAttrNN S fs st1 i w)
        else .error (notMsgErr v)                          -- `None.from_pydict`; `for key in <leaf>`
    else if f.ty == .map && f.mapV == .message then
      (getAttr S fs st i).bind fun _ => .error (iterErr p) -- `for k in <leaf>`
    else (unRaw p).bind fun w => .ok (setAttrNN S fs st i w)

/-- `cls().from_pydict(item)` for each item: a fresh instance of class `c` each -/
def fromPyItems (S : Schema) (c : Nat) : List PVal → R (List Val)
  | [] => .ok []
  | p :: ps =>
    (match p with
     | .obj ks vs =>
       (fromPyKeys S c { slots := (fieldsOf S c).map (fun (f : FieldD) => if f.optional then Val.none else Val.ph),
                         onWire := true, unknown := [], cur := List.replicate (groupsOf S c) Option.none } ks vs).bind
         fun st' => .ok (st'.toVal c)
     | _ => .error .notImpl).bind fun v =>               -- `for key in <not a dict>`: not modelled
    (fromPyItems S c ps).bind fun vs => .ok (v :: vs)
end

/-- `m.from_pydict(d)`: `_serialized_on_wire = True`, then the key loop; returns the instance -/
def fromPyDictI (S : Schema) (m : Val) (p : PVal) : R Val :=
  match m, p with
  | .msg c sl _ unk cur, .obj ks ps =>
    (fromPyKeys S c { slots := sl, onWire := true, unknown := unk, cur := cur } ks ps).bind fun st => .ok (st.toVal c)
  | _, _ => .error .notImpl

/-- `Cls().from_pydict(d)` -/
def fromPyDict (S : Schema) (c : Nat) (p : PVal) : R Val := fromPyDictI S (fresh S c) p

/-! ### to_json / from_json -/

/-- `json.loads(m.to_json(indent, include_default_values, casing))`: a JSON text is identified with what
    `json.loads` makes of it (`jsonText`, BpModel/Json.lean: `json.loads(json.dumps(·))`; `indent` only
    changes the layout); `none` = `json.dumps` raises TypeError (an object that is not JSON serialisable) -/
def toJson (S : Schema) (E : Enums) (cs : KeyCase) (incl : Bool) (m : Val) : Option JVal :=
  jsonText (toDict S E cs incl m)

/-- `m.from_json(text)` for the text whose `json.loads` is `j`: the instance form of `from_dict` -/
def fromJson (S : Schema) (E : Enums) (m : Val) (j : JVal) : R Val := fromDictI S E m j

/-! ### decidable guards of the round-trip theorem (evaluated by the driver on harness inputs) -/

def isUserK : MsgKind → Bool
  | .user _ => true
  | _ => false

/-- the field kinds on which `from_pydict(to_pydict(m))` is right: those of `fieldJsonOk` (D15 / D17
    exclusions of the dict mapper) WITHOUT, for a message-typed field (sub-message, Timestamp,
    Duration, wrapper):
      * membership in a oneof group -- `from_pydict` reads the attribute first, which raises
        AttributeError for a member that is not the selected one (`pydict_oneof_message_witness`);
      * proto3 `optional` on a sub-message / Timestamp / Duration -- the attribute reads as None,
        `None.from_pydict(...)` raises (`pydict_optional_message_witness`); and an optional
        Timestamp / Duration at the epoch / zero is not even written by `to_pydict`;
      * `repeated` on a Timestamp / Duration -- `to_pydict` treats the items as messages and raises
        (`pydict_repeated_timestamp_witness`). -/
def fieldPyOk (f : FieldD) : Bool :=
  fieldJsonOk f &&
  (if f.ty == .message then
     f.group.isNone && (f.wraps.isSome || (!f.optional && !(f.repeated && !isUserK f.kind)))
   else true)

/-- the schema guard of the pydict round trip (no enum table: enum members stay numbers) -/
def pyDictOk (S : Schema) (cs : KeyCase) : Bool :=
  jsonOk S [] cs && S.all (fun d => d.fields.all fieldPyOk)

/-! ### the attribute reads of `to_pydict` -/

/-- a fresh instance of class `c` after its own `to_pydict()` has run: every visible slot holds its
    default (the members of oneof groups are all hidden -- nothing is selected --, proto3-optional
    fields hold None from the start); the default sub-messages inside are not written, hence not read -/
def freshRead (S : Schema) (c : Nat) : Val :=
  .msg c ((fieldsOf S c).map fun f =>
      if f.optional then Val.none else if f.group.isSome then Val.ph else defaultOf S f)
    false [] (List.replicate (groupsOf S c) Option.none)

mutual
/-- The instance after `m.to_pydict(casing, include_default_values=False)` has run (to the end or
    to the point where it raised is not distinguished: every read the completed call performs is
    performed).  `getattr` stores the default of every PLACEHOLDER slot that is not a hidden oneof
    member (`object.__setattr__`, no flag touched); the recursive calls do the same inside every
    sub-message that is written (`value.to_pydict(...)` is only called for those), inside every
    item of a repeated message field and every message value of a map field. -/
def pyReads (S : Schema) : Val → Val
  | .msg c sl ow unk cur => .msg c (pyReadsSlots S (fieldsOf S c) cur 0 sl) ow unk cur
  | v => v

def pyReadsSlots (S : Schema) (fs : List FieldD) (cur : List (Option Nat)) : Nat → List Val → List Val
  | _, [] => []
  | i, v :: vs =>
    (match fs[i]? with
     | some f => if hidden f i cur then v else pyReadsSlot S f (selectedInGroup f i cur) v
     | Option.none => v) :: pyReadsSlots S fs cur (i + 1) vs

/-- one visible slot: PLACEHOLDER is replaced by the default (for the default sub-message of the
    selected oneof member, which IS written, with its own visible slots read too: `freshRead`);
    a list / the values of a dict are read item by item; a sub-message that is written is read -/
def pyReadsSlot (S : Schema) (f : FieldD) (sel : Bool) : Val → Val
  | .ph =>
    (match f.defKind with
     | .msg c => if sel && f.ty == .message then freshRead S c else fresh S c
     | k => defaultOfKind S k)
  | .list xs => .list (pyReadsList S xs)
  | .dict ks vs => .dict ks (pyReadsList S vs)
  | .msg c sl ow unk cur =>
    if f.ty == .message && f.wraps.isNone && !f.repeated &&
        (ow || sel || !eqDefault S f.defKind (.msg c sl ow unk cur)) then
      .msg c (pyReadsSlots S (fieldsOf S c) cur 0 sl) ow unk cur
    else .msg c sl ow unk cur
  | v => v

def pyReadsList (S : Schema) : List Val → List Val
  | [] => []
  | x :: xs =>
    (match x with
     | .msg c sl ow unk cur => Val.msg c (pyReadsSlots S (fieldsOf S c) cur 0 sl) ow unk cur
     | x => x) :: pyReadsList S xs
end

end Bp
