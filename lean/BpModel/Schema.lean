import BpModel.Bytes
import BpModel.Gen.WireTables
/-
  Schema side of the model: what `FieldMetadata` + the resolved type hint of a
  dataclass field say (src/betterproto/__init__.py:189-229, 660-738, 1187-1213).
-/
namespace Bp

open Gen

/-- wire type a proto type is encoded with: `WIRE_TYPE_BY_PROTO_TYPE`, derived from the
    regenerated tables exactly as the code derives it. `none` = NotImplementedError. -/
def wireOf (t : PType) : Option Nat :=
  if wireVarintTypes.contains t then some wireVarint
  else if wireFixed32Types.contains t then some wireFixed32
  else if wireFixed64Types.contains t then some wireFixed64
  else if wireLenDelimTypes.contains t then some wireLenDelim
  else none

def isPacked (t : PType) : Bool := packedTypes.contains t
def isFixed (t : PType) : Bool := fixedTypes.contains t
def isInt64 (t : PType) : Bool := int64Types.contains t

/-- class found in the type hint of a `message` field (`cls_by_field`) -/
inductive MsgKind
  | user (cls : Nat)     -- a generated message class, by index into the schema
  | timestamp            -- `datetime`
  | duration             -- `timedelta`
  deriving DecidableEq, Repr, Inhabited

structure FieldD where
  name : String := ""
  num : Nat
  ty : PType
  /-- `default_gen[field] is list` -/
  repeated : Bool := false
  /-- `meta.optional` (dataclass default is None instead of PLACEHOLDER) -/
  optional : Bool := false
  /-- `meta.group` as an index into the message's groups -/
  group : Option Nat := none
  wraps : Option PType := none
  kind : MsgKind := .user 0
  mapK : PType := .int32
  mapV : PType := .int32
  mapVKind : MsgKind := .user 0
  /-- enum class of an enum field / enum map value (JSON only) -/
  enumRef : Option Nat := none
  deriving Repr, Inhabited

structure MsgD where
  fields : List FieldD      -- declaration order = `meta_by_field_name` order
  nGroups : Nat := 0
  deriving Repr, Inhabited

abbrev Schema := List MsgD

def fieldsOf (S : Schema) (c : Nat) : List FieldD :=
  match S[c]? with
  | some d => d.fields
  | none => []

def groupsOf (S : Schema) (c : Nat) : Nat :=
  match S[c]? with
  | some d => d.nGroups
  | none => 0

/-- the synthetic `Entry` dataclass of a map field (`_get_cls_by_field`) -/
def entryD (f : FieldD) : MsgD :=
  { fields := [ { name := "key", num := 1, ty := f.mapK },
                { name := "value", num := 2, ty := f.mapV, kind := f.mapVKind, enumRef := f.enumRef } ] }

/-- the bundled `Timestamp` / `Duration` classes: seconds = int64 #1, nanos = int32 #2 -/
def secNanosD : MsgD :=
  { fields := [ { name := "seconds", num := 1, ty := .int64 }, { name := "nanos", num := 2, ty := .int32 } ] }

/-- the bundled wrapper class for a wrapped scalar type: one field `value` #1 -/
def wrapperD (t : PType) : MsgD := { fields := [ { name := "value", num := 1, ty := t } ] }

end Bp
