import BpModel.Bytes
import BpModel.Varint
import BpModel.PType
import BpModel.Schema
import BpModel.Value
import BpModel.Time
import BpModel.Utf8
/-
  SPEC-LEVEL wire decoder, written from the protobuf encoding document
  (https://protobuf.dev/programming-guides/encoding/), NOT from betterproto's code:
  it shares no definition with `Fields.lean` / `Load.lean` / `Dump.lean`.  It uses only
  the data types (`Bytes`, `PType`, `FieldD`/`MsgD`/`Schema`, `Val`), the spec-level
  varint value `Spec.varintValue`, generic two's-complement / little-endian helpers of
  `Bytes.lean`, the UTF-8 validator, and the Timestamp/Duration seconds+nanos → µs
  arithmetic (`tsJoin`, `durJoin`: how a Python `datetime` / `timedelta` is denoted).

  Semantics (the simplest the document allows):
    * a varint is 1..10 bytes, every byte but the last with the continuation bit; padded
      (non-minimal) encodings are accepted; only the low 64 bits count;
    * a record is a tag (field number ≠ 0, wire type 0/1/2/5) and its payload;
    * singular scalar: the last occurrence wins;
    * oneof: the last member wins and clears its siblings;
    * repeated: every occurrence appends; a packed chunk appends all its elements;
      packed and unpacked occurrences may be mixed freely;
    * map: every entry inserts, a later entry for the same key replaces the value;
    * unknown field numbers and records whose wire type does not fit the declared type
      are ignored;
    * nested messages are decoded recursively.
  DELIBERATE LIMIT ("Legal" in DESIGN §7): repeated occurrences of a singular MESSAGE field
  are *merged* by the protobuf specification; this decoder — like betterproto — lets the last
  one win.  `Spec.legal` excludes such inputs; the property does not claim them.
  A record that cannot be interpreted at all (invalid UTF-8, malformed nested payload,
  malformed packed payload) is ignored here; real decoders reject the input (C17's topic).
-/
namespace Bp.Spec

structure WireRec where
  num : Nat
  /-- 0 = VARINT, 1 = I64, 2 = LEN, 5 = I32 -/
  wt : Nat
  /-- value of a VARINT record -/
  vint : Nat
  /-- payload of an I64 / LEN / I32 record -/
  payload : Bytes
  deriving Repr, DecidableEq, Inhabited

/-! ### framing -/

/-- the bytes of the varint at the head of the input (up to and including the first
    byte without continuation bit; at most `n` bytes) and the rest -/
def takeVarint : Nat → Bytes → Option (Bytes × Bytes)
  | 0, _ => none
  | _, [] => none
  | n + 1, b :: bs =>
    if b < 128 then some ([b], bs)
    else match takeVarint n bs with
      | some (v, r) => some (b :: v, r)
      | none => none

/-- a varint of at most 10 bytes, minimal or padded: its value (low 64 bits) and the rest -/
def readVarint (bs : Bytes) : Option (Nat × Bytes) :=
  match takeVarint 10 bs with
  | some (v, r) => some (varintValue v % 2 ^ 64, r)
  | none => none

def readRec (bs : Bytes) : Option (WireRec × Bytes) :=
  match readVarint bs with
  | none => none
  | some (tag, r) =>
    if tag / 8 = 0 then none
    else if tag % 8 = 0 then
      match readVarint r with
      | some (v, r') => some ({ num := tag / 8, wt := 0, vint := v, payload := [] }, r')
      | none => none
    else if tag % 8 = 1 then
      if r.length < 8 then none
      else some ({ num := tag / 8, wt := 1, vint := 0, payload := r.take 8 }, r.drop 8)
    else if tag % 8 = 2 then
      match readVarint r with
      | some (n, r') =>
        if r'.length < n then none
        else some ({ num := tag / 8, wt := 2, vint := 0, payload := r'.take n }, r'.drop n)
      | none => none
    else if tag % 8 = 5 then
      if r.length < 4 then none
      else some ({ num := tag / 8, wt := 5, vint := 0, payload := r.take 4 }, r.drop 4)
    else none

def parseFuel : Nat → Bytes → Option (List WireRec)
  | 0, _ => none
  | fuel + 1, bs =>
    match bs with
    | [] => some []
    | _ =>
      match readRec bs with
      | none => none
      | some (r, rest) =>
        match parseFuel fuel rest with
        | none => none
        | some rs => some (r :: rs)

/-- split a byte string into records (every record consumes at least one byte) -/
def parse (bs : Bytes) : Option (List WireRec) := parseFuel (bs.length + 1) bs

/-! ### scalar interpretation (the document's table of types) -/

def wireTypeOf : PType → Nat
  | .enum | .bool | .int32 | .int64 | .uint32 | .uint64 | .sint32 | .sint64 => 0
  | .double | .fixed64 | .sfixed64 => 1
  | .string | .bytes | .message | .map => 2
  | .float | .fixed32 | .sfixed32 => 5

def packable (t : PType) : Bool := wireTypeOf t != 2

/-- zig-zag: 0 → 0, 1 → -1, 2 → 1, 3 → -2, … -/
def zigzagDecode (n : Nat) : Int := if n % 2 = 0 then ((n / 2 : Nat) : Int) else -(((n + 1) / 2 : Nat) : Int)

/-- the value a VARINT denotes for a field of type `t` -/
def varintVal (t : PType) (n : Nat) : Val :=
  match t with
  | .int32 | .enum => .int (toSigned 32 (n % 2 ^ 32))
  | .int64 => .int (toSigned 64 (n % 2 ^ 64))
  | .uint32 => .int ((n % 2 ^ 32 : Nat) : Int)
  | .uint64 => .int ((n % 2 ^ 64 : Nat) : Int)
  | .sint32 => .int (zigzagDecode (n % 2 ^ 32))
  | .sint64 => .int (zigzagDecode (n % 2 ^ 64))
  | .bool => .bool (n != 0)
  | _ => .int n

/-- the value a little-endian I32 / I64 payload denotes (floats stay bit patterns) -/
def fixedVal (t : PType) (p : Bytes) : Option Val :=
  match t with
  | .fixed32 => if p.length = 4 then some (.int (unpackLE p)) else none
  | .sfixed32 => if p.length = 4 then some (.int (toSigned 32 (unpackLE p))) else none
  | .float => if p.length = 4 then some (.f32 (unpackLE p)) else none
  | .fixed64 => if p.length = 8 then some (.int (unpackLE p)) else none
  | .sfixed64 => if p.length = 8 then some (.int (toSigned 64 (unpackLE p))) else none
  | .double => if p.length = 8 then some (.f64 (unpackLE p)) else none
  | _ => none

/-- the elements of a packed payload -/
def unpackElems (t : PType) : Nat → Bytes → Option (List Val)
  | 0, _ => none
  | fuel + 1, p =>
    match p with
    | [] => some []
    | _ =>
      if wireTypeOf t = 0 then
        match readVarint p with
        | none => none
        | some (n, r) =>
          match unpackElems t fuel r with
          | some vs => some (varintVal t n :: vs)
          | none => none
      else
        let w := if wireTypeOf t = 1 then 8 else 4
        if p.length < w then none
        else match fixedVal t (p.take w), unpackElems t fuel (p.drop w) with
          | some v, some vs => some (v :: vs)
          | _, _ => none

/-! ### abstract messages -/

/-- what a decoded message *means*: for each declared field (declaration order) its
    value — `Val.ph` = no value on the wire, `Val.list` for repeated, `Val.dict` for maps,
    a nested `AbsMsg.toVal` for messages — and the selected member of each oneof group -/
structure AbsMsg where
  cls : Nat
  fields : List Val
  sel : List (Option Nat)
  deriving Repr, Inhabited

def AbsMsg.toVal (m : AbsMsg) : Val := .msg m.cls m.fields true [] m.sel

def emptyMsg (c : Nat) (d : MsgD) : AbsMsg :=
  { cls := c, fields := d.fields.map fun _ => Val.ph, sel := List.replicate d.nGroups none }

/-- the declared field with this number (numbers are distinct in a valid schema) -/
def lookupNum : List FieldD → Nat → Nat → Option (Nat × FieldD)
  | [], _, _ => none
  | f :: fs, i, num => if f.num = num then some (i, f) else lookupNum fs (i + 1) num

def orDefault (S : Schema) (k : DefKind) : Val → Val
  | .ph => defaultOfKind S k
  | v => v

def clearGroup (g : Nat) : List FieldD → List Val → List Val
  | f :: fs, v :: vs => (if f.group = some g then Val.ph else v) :: clearGroup g fs vs
  | _, vs => vs

/-- assign a singular field; a oneof member clears its siblings and becomes the selection -/
def put (m : AbsMsg) (fs : List FieldD) (idx : Nat) (f : FieldD) (v : Val) : AbsMsg :=
  match f.group with
  | none => { m with fields := m.fields.set idx v }
  | some g => { m with fields := (clearGroup g fs m.fields).set idx v, sel := m.sel.set g (some idx) }

def appendAll (m : AbsMsg) (idx : Nat) (vs : List Val) : AbsMsg :=
  match m.fields.getD idx .ph with
  | .list xs => { m with fields := m.fields.set idx (.list (xs ++ vs)) }
  | _ => { m with fields := m.fields.set idx (.list vs) }

def sameKey : Val → Val → Bool
  | .int a, .int b => a == b
  | .bool a, .bool b => a == b
  | .str a, .str b => a == b
  | _, _ => false

def mapInsert : List Val → List Val → Val → Val → List Val × List Val
  | k' :: ks, v' :: vs, k, v =>
    if sameKey k' k then (k' :: ks, v :: vs)
    else ((k' :: (mapInsert ks vs k v).1), (v' :: (mapInsert ks vs k v).2))
  | _, _, k, v => ([k], [v])

def insertEntry (m : AbsMsg) (idx : Nat) (k v : Val) : AbsMsg :=
  match m.fields.getD idx .ph with
  | .dict ks vs => { m with fields := m.fields.set idx (.dict (mapInsert ks vs k v).1 (mapInsert ks vs k v).2) }
  | _ => { m with fields := m.fields.set idx (.dict [k] [v]) }

/-- decoder of a nested payload: class number to report, descriptor, bytes -/
abbrev SubDecoder := Nat → MsgD → Bytes → Option AbsMsg

/-- the value of a LEN record for a singular (or one repeated element of a) field -/
def lenVal (S : Schema) (sub : SubDecoder) (f : FieldD) (p : Bytes) : Option Val :=
  match f.ty with
  | .string => if utf8Valid p then some (.str p) else none
  | .bytes => some (.byt p)
  | .message =>
    match f.wraps with
    | some w =>
      match sub 0 (wrapperD w) p with
      | some m => some (orDefault S (scalarDef w) (m.fields.getD 0 .ph))
      | none => none
    | none =>
      match f.kind with
      | .user c =>
        match S[c]? with
        | some d => (sub c d p).map AbsMsg.toVal
        | none => none
      | .timestamp =>
        match sub 0 secNanosD p with
        | some m =>
          match orDefault S .int (m.fields.getD 0 .ph), orDefault S .int (m.fields.getD 1 .ph) with
          | .int s, .int n => some (.ts (tsJoin s n))
          | _, _ => none
        | none => none
      | .duration =>
        match sub 0 secNanosD p with
        | some m =>
          match orDefault S .int (m.fields.getD 0 .ph), orDefault S .int (m.fields.getD 1 .ph) with
          | .int s, .int n => some (.dur (durJoin s n))
          | _, _ => none
        | none => none
  | _ => none

/-- the value of one record whose wire type is the declared type's own -/
def valueOf (S : Schema) (sub : SubDecoder) (f : FieldD) (r : WireRec) : Option Val :=
  if r.wt = 0 then some (varintVal f.ty r.vint)
  else if r.wt = 2 then lenVal S sub f r.payload
  else fixedVal f.ty r.payload

def entryKind (f : FieldD) : DefKind :=
  if f.mapV == .message then msgKindDef f.mapVKind else scalarDef f.mapV

/-- the effect of one record on the abstract message -/
def stepRec (S : Schema) (sub : SubDecoder) (d : MsgD) (m : AbsMsg) (r : WireRec) : AbsMsg :=
  match lookupNum d.fields 0 r.num with
  | none => m
  | some (idx, f) =>
    if f.ty == .map then
      if r.wt = 2 then
        match sub 0 (entryD f) r.payload with
        | some e =>
          insertEntry m idx (orDefault S (scalarDef f.mapK) (e.fields.getD 0 .ph))
            (orDefault S (entryKind f) (e.fields.getD 1 .ph))
        | none => m
      else m
    else if f.repeated then
      if r.wt = wireTypeOf f.ty then
        match valueOf S sub f r with
        | some v => appendAll m idx [v]
        | none => m
      else if r.wt = 2 && packable f.ty then
        match unpackElems f.ty (r.payload.length + 1) r.payload with
        | some vs => appendAll m idx vs
        | none => m
      else m
    else if r.wt = wireTypeOf f.ty then
      match valueOf S sub f r with
      | some v => put m d.fields idx f v
      | none => m
    else m

def decodeRecs (S : Schema) (sub : SubDecoder) (c : Nat) (d : MsgD) (rs : List WireRec) : AbsMsg :=
  rs.foldl (stepRec S sub d) (emptyMsg c d)

/-- nested payloads: split and decode, `fuel` bounds the nesting depth -/
def subDecoder (S : Schema) : Nat → SubDecoder
  | 0, _, _, _ => none
  | fuel + 1, c, d, p =>
    match parse p with
    | some rs => some (decodeRecs S (subDecoder S fuel) c d rs)
    | none => none

/-- total payload size of the records: an upper bound of the nesting depth -/
def recsSize : List WireRec → Nat
  | [] => 0
  | r :: rs => r.payload.length + 1 + recsSize rs

/-- **the meaning of a record sequence for message class `c` of schema `S`** -/
def decode (S : Schema) (c : Nat) (rs : List WireRec) : AbsMsg :=
  match S[c]? with
  | some d => decodeRecs S (subDecoder S (recsSize rs)) c d rs
  | none => { cls := c, fields := [], sel := [] }

/-- parse + decode -/
def decodeBytes (S : Schema) (c : Nat) (bs : Bytes) : Option AbsMsg := (parse bs).map (decode S c)

/-- the inputs the property speaks about (top level): no singular message-typed field
    (a oneof member of message type included) occurs more than once, since the protobuf
    specification merges such occurrences while betterproto (and this decoder) replace -/
def legal (S : Schema) (c : Nat) (rs : List WireRec) : Bool :=
  match S[c]? with
  | none => true
  | some d =>
    d.fields.all fun f =>
      !(f.ty == .message && !f.repeated) || (rs.filter fun r => r.num == f.num && r.wt == 2).length ≤ 1

end Bp.Spec
