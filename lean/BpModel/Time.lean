import BpModel.Bytes
/-
  Integer arithmetic of the Timestamp / Duration conversions
  (src/betterproto/__init__.py `_Timestamp.from_datetime/to_datetime`,
  `_Duration.from_timedelta/to_timedelta`).  A `datetime` is an `Int` number of
  microseconds since 1970-01-01T00:00:00Z, a `timedelta` an `Int` number of microseconds.
-/
namespace Bp

/-- `_Timestamp.from_datetime`: `seconds, us = divmod(offset_us, 10**6)`; nanos = us*1000 -/
def tsSplit (us : Int) : Int × Int := (us / 1000000, (us % 1000000) * 1000)

/-- `_Timestamp.to_datetime`: `timedelta(seconds=s, microseconds=nanos // 1000)` past the epoch -/
def tsJoin (s n : Int) : Int := s * 1000000 + n / 1000

/-- `_Duration.from_timedelta` (after the fix: magnitude split, common sign) -/
def durSplit (us : Int) : Int × Int :=
  let a := us.natAbs
  let s : Int := (a / 1000000 : Nat)
  let u : Int := (a % 1000000 : Nat)
  if us < 0 then (-s, -u * 1000) else (s, u * 1000)

/-- Python `round()` of the rational n/1000 (half to even), as `timedelta` does for a
    float `microseconds` argument -/
def roundHalfEven1000 (n : Int) : Int :=
  let q := n / 1000
  let r := n % 1000        -- 0 ≤ r < 1000 (floor division)
  if r < 500 then q else if r > 500 then q + 1 else (if q % 2 = 0 then q else q + 1)

/-- `_Duration.to_timedelta`: `timedelta(seconds=s, microseconds=nanos / 1e3)` -/
def durJoin (s n : Int) : Int := s * 1000000 + roundHalfEven1000 n

/-- microseconds of 0001-01-01T00:00:00Z and of 9999-12-31T23:59:59.999999Z relative to the epoch -/
def tsMinUs : Int := -62135596800000000
def tsMaxUs : Int := 253402300799999999
/-- `timedelta.min` / `timedelta.max` in microseconds (±999999999 days) -/
def durMinUs : Int := -86399999913600000000
def durMaxUs : Int := 86399999999999999999

end Bp

namespace Bp

/-- number of fractional digits and their value in `timestamp_to_json`, from the
    microsecond-of-second `u` (0 ≤ u < 10^6): none / 3 digits / 6 digits -/
def tsFrac (u : Nat) : Option (Nat × Nat) :=
  if u = 0 then none else if u % 1000 = 0 then some (3, u / 1000) else some (6, u)

/-- `_Duration.delta_to_json` (after the D03 repair): (negative?, whole seconds of the
    magnitude, number of fractional digits, their value) — 3 digits when the
    microseconds are a multiple of 1000 (whole seconds included), otherwise 6 -/
def durJson (us : Int) : Bool × Nat × Nat × Nat :=
  let a := us.natAbs
  let s := a / 1000000
  let u := a % 1000000
  if u % 1000 = 0 then (decide (us < 0), s, 3, u / 1000) else (decide (us < 0), s, 6, u)

/-- `_Duration.delta_from_json`: `int(Decimal(text[:-1]) * 10**6)` on the decimal
    (negative?, whole seconds, digit count, digits) -/
def durFromJson (neg : Bool) (s nd d : Nat) : Int :=
  let mag : Nat := s * 1000000 + (d * 1000000) / 10 ^ nd     -- digits below a microsecond are dropped
  if neg then -(mag : Int) else (mag : Int)

end Bp
