import BpModel.Load
/-
  Python-level typing of decoded values (property C17, sentence "returns a message in
  which every field holds a value of its declared Python type and which can be encoded
  again").  Everything here is a Bool-valued, kernel-evaluable function.

  The first argument `s` ("strict") selects between two readings:
  * `s = false`: the *Python type* only — an `int` for every integer / enum type
    (whatever its magnitude: the decoder masks varints to 64 bits, so a `uint32` field may
    hold 34 bits), a `bool`, a `float`, a `str` (valid UTF-8), `bytes`, a `datetime`, a
    `timedelta`, a wrapped scalar, an instance of the declared class, a `list` / `dict`
    of these;
  * `s = true`: additionally every leaf lies in the domain of the encoder
    (`prepPlain` / `packFixed` / `dumpVarint` / `tsBytes` accept it).
-/
namespace Bp
open Gen

/-- proto types whose Python type is `int` (enum members are ints) -/
def isIntTy : PType → Bool
  | .enum | .int32 | .int64 | .uint32 | .uint64 | .sint32 | .sint64
  | .fixed32 | .sfixed32 | .fixed64 | .sfixed64 => true
  | _ => false

/-- the integers `_preprocess_single` / `struct.pack` / `dump_varint` accept for type `t` -/
def intEncB (t : PType) (i : Int) : Bool :=
  match t with
  | .sint32 | .sint64 => true
  | .fixed32 => decide (0 ≤ i) && decide (i < 4294967296)
  | .sfixed32 => decide (-2147483648 ≤ i) && decide (i < 2147483648)
  | .fixed64 => decide (0 ≤ i) && decide (i < 18446744073709551616)
  | .sfixed64 => decide (-9223372036854775808 ≤ i) && decide (i < 9223372036854775808)
  | _ => decide (-9223372036854775808 ≤ i)

/-- a value of the Python type of the scalar proto type `t` -/
def scalarTypedB (s : Bool) (t : PType) : Val → Bool
  | .int i => isIntTy t && (!s || intEncB t i)
  | .bool _ => t == .bool
  | .f32 b => t == .float && (!s || decide (b < 4294967296))
  | .f64 b => t == .double && (!s || decide (b < 18446744073709551616))
  | .str u => t == .string && utf8Valid u
  | .byt _ => t == .bytes
  | _ => false

/-- the scalar type the elements of field `f` have: the field's own type, or the wrapped
    type of a wrapper field; `none` for Timestamp / Duration / nested messages -/
def elemTy (f : FieldD) : Option PType :=
  if f.ty == .message then
    match f.kind, f.wraps with
    | .user _, some w => some w
    | _, _ => Option.none
  else some f.ty

/-- every `datetime` lies in 0001-01-01 .. 9999-12-31, every `timedelta` within ±999999999 days -/
def tsRangeB (us : Int) : Bool := decide (tsMinUs ≤ us) && decide (us ≤ tsMaxUs)
def durRangeB (us : Int) : Bool := decide (durMinUs ≤ us) && decide (us ≤ durMaxUs)

/-- a non-message element (singular value / list item / dict key / dict value) of field `f` -/
def leafTypedB (s : Bool) (f : FieldD) : Val → Bool
  | .ts us => f.ty == .message && f.kind == .timestamp && (!s || tsRangeB us)
  | .dur us => f.ty == .message && f.kind == .duration && (!s || durRangeB us)
  | .ph | .none | .list _ | .dict _ _ | .msg _ _ _ _ _ => false
  | v =>
    match elemTy f with
    | some t => scalarTypedB s t v
    | Option.none => false

/-- `f` is a message field of the generated class `c` -/
def msgFieldB (f : FieldD) (c : Nat) : Bool :=
  f.ty == .message && f.kind == .user c && f.wraps.isNone

/-- the dataclass default of the field is `None` -/
def noneOkB (f : FieldD) : Bool := f.optional || f.defKind == .none

/-- the two fields of the synthetic `Entry` class of a map field -/
def keyFieldOf (f : FieldD) : FieldD := { name := "key", num := 1, ty := f.mapK }
def valFieldOf (f : FieldD) : FieldD :=
  { name := "value", num := 2, ty := f.mapV, kind := f.mapVKind, enumRef := f.enumRef }

def singularB (f : FieldD) : Bool := !f.repeated && f.ty != .map

mutual
/-- the raw slot value `v` of field `f` has the Python type the field declares -/
def slotTypedB (s : Bool) (S : Schema) (f : FieldD) : Val → Bool
  | .ph => true
  | .none => noneOkB f
  | .list xs => f.repeated && itemsTypedB s S f xs
  | .dict ks vs =>
    f.ty == .map && !f.repeated && ks.length == vs.length
      && itemsTypedB s S (keyFieldOf f) ks && itemsTypedB s S (valFieldOf f) vs
  | .msg c sl _ _ cur =>
    singularB f && msgFieldB f c &&
    (match S[c]? with
     | some d => cur.length == d.nGroups && slotsTypedB s S d.fields sl
     | Option.none => false)
  | v => singularB f && leafTypedB s f v

/-- every element of the list is a typed element of field `f` -/
def itemsTypedB (s : Bool) (S : Schema) (f : FieldD) : List Val → Bool
  | [] => true
  | x :: xs =>
    (match x with
     | .msg c sl _ _ cur =>
       msgFieldB f c &&
       (match S[c]? with
        | some d => cur.length == d.nGroups && slotsTypedB s S d.fields sl
        | Option.none => false)
     | v => leafTypedB s f v) && itemsTypedB s S f xs

/-- slot list against field list, pointwise; the lengths agree -/
def slotsTypedB (s : Bool) (S : Schema) : List FieldD → List Val → Bool
  | [], [] => true
  | f :: fs, v :: vs => slotTypedB s S f v && slotsTypedB s S fs vs
  | _, _ => false
end

/-- a whole message instance: the class exists, one slot per field, every slot typed,
    one selection cell per oneof group; recursively for every message it contains -/
def msgTypedB (s : Bool) (S : Schema) : Val → Bool
  | .msg c sl _ _ cur =>
    match S[c]? with
    | some d => cur.length == d.nGroups && slotsTypedB s S d.fields sl
    | Option.none => false
  | _ => false

/-! ### well-formedness of the schema (what the typing proof needs, nothing more) -/

def isScalarTy (t : PType) : Bool := t != .message && t != .map

/-- `n` = number of classes of the schema.
    * a repeated field is not `optional` (proto3 `optional` is not allowed on repeated fields)
    * a plain message field names an existing class
    * a wrapper field wraps a scalar type
    * a map has a scalar key type, its value type is not a map, and a message value names
      an existing class -/
def wfFieldB (n : Nat) (f : FieldD) : Bool :=
  (!f.repeated || !f.optional)
  && (!(f.ty == .message) ||
      (match f.kind, f.wraps with
       | .user c, Option.none => decide (c < n)
       | .user _, some w => isScalarTy w
       | _, _ => true))
  && (!(f.ty == .map) ||
      (isScalarTy f.mapK && f.mapV != .map &&
       (!(f.mapV == .message) ||
        (match f.mapVKind with
         | .user c => decide (c < n)
         | _ => true))))

def wfMsgDB (n : Nat) (d : MsgD) : Bool := d.fields.all (wfFieldB n)

/-- the schema-only side condition of `ok_welltyped` / `ok_reencodes` -/
def wfSchemaTB (S : Schema) : Bool := S.all (wfMsgDB S.length)

end Bp
