/-
  C18 — model of the typing compilers and of the places where the templates put their
  output into generated source.

  * `optional/list/dict/union/iterable/asyncIterable/asyncIterator`: the methods of
    DirectImportTypingCompiler / TypingImportTypingCompiler / NoTyping310TypingCompiler
    (src/betterproto/plugin/typing_compiler.py:64-173) as functions on strings
    (`List Char`), defined for **every** argument string, `_fmt` included.
  * `Site` / `siteText`: every annotation position of templates/template.py.j2 (stub
    signature, base signature, `__rpc_*`, `__mapping__`) — which compiler call is made
    and whether the template wraps the result in quotes (`.strip('"')` where the
    template strips).  `siteTextPre` is the same before the D07 fix.
  * `FieldDesc`, `annotation`, `fieldArgs`, `fieldCall`: FieldCompiler.annotation /
    betterproto_field_args / get_field_string (plugin/models.py:431-563, 565-637).
  * `denote`: a tiny grammar of annotation expressions and what type they denote
    (`Shape`); `wellQuoted`: the lexical condition that makes a piece of annotation text
    a sequence of complete, non-adjacent string literals and quote-free code.
  No imports: core Lean only (linked into the driver).
-/
namespace Bp.Typing

abbrev Str := List Char

inductive Compiler
  | direct   -- DirectImportTypingCompiler   (typing.direct, the default)
  | root     -- TypingImportTypingCompiler   (typing.root)
  | c310     -- NoTyping310TypingCompiler    (typing.310)
  deriving DecidableEq, Repr

def Compiler.all : List Compiler := [.direct, .root, .c310]

def dq : Char := '"'

/-- `NoTyping310TypingCompiler._fmt`: `type[1:-1] if type.startswith('"') else type` -/
def fmt : Str → Str
  | '"' :: rest => rest.dropLast
  | t => t

/-- the module prefix a compiler writes before a `typing` name -/
def pre : Compiler → Str
  | .root => "typing.".toList
  | _ => []

/-- `sep.join(xs)` -/
def joinSep (sep : Str) : List Str → Str
  | [] => []
  | [x] => x
  | x :: y :: r => x ++ sep ++ joinSep sep (y :: r)

def quoted (s : Str) : Str := dq :: (s ++ [dq])

def optional : Compiler → Str → Str
  | .c310, t => quoted (fmt t ++ " | None".toList)
  | c, t => pre c ++ "Optional[".toList ++ t ++ "]".toList

def list : Compiler → Str → Str
  | .c310, t => quoted ("list[".toList ++ fmt t ++ "]".toList)
  | c, t => pre c ++ "List[".toList ++ t ++ "]".toList

def dict : Compiler → Str → Str → Str
  | .c310, k, v => quoted ("dict[".toList ++ k ++ ", ".toList ++ fmt v ++ "]".toList)
  | c, k, v => pre c ++ "Dict[".toList ++ k ++ ", ".toList ++ v ++ "]".toList

def union : Compiler → List Str → Str
  | .c310, ts => quoted (joinSep " | ".toList (ts.map fmt))
  | c, ts => pre c ++ "Union[".toList ++ joinSep ", ".toList ts ++ "]".toList

def iterable : Compiler → Str → Str
  | .c310, t => quoted ("Iterable[".toList ++ t ++ "]".toList)
  | c, t => pre c ++ "Iterable[".toList ++ t ++ "]".toList

def asyncIterable : Compiler → Str → Str
  | .c310, t => quoted ("AsyncIterable[".toList ++ t ++ "]".toList)
  | c, t => pre c ++ "AsyncIterable[".toList ++ t ++ "]".toList

def asyncIterator : Compiler → Str → Str
  | .c310, t => quoted ("AsyncIterator[".toList ++ t ++ "]".toList)
  | c, t => pre c ++ "AsyncIterator[".toList ++ t ++ "]".toList

/-! ### template sites -/

/-- Python `s.strip('"')` -/
def stripQ (s : Str) : Str :=
  ((s.dropWhile (· == dq)).reverse.dropWhile (· == dq)).reverse

/-- the annotation positions of template.py.j2 that involve a message type or a typing
    compiler call -/
inductive Site
  | stubUnaryParam      -- `req: "{{ In }}"`
  | stubIterParam       -- `req_iterator: "{{ union(async_iterable(In), iterable(In)).strip('"') }}"`
  | stubTimeout         -- `timeout: {{ optional("float") }}`
  | stubDeadline        -- `deadline: {{ optional('"Deadline"') }}`
  | stubMetadata        -- `metadata: {{ optional('"MetadataLike"') }}`
  | stubReturnUnary     -- `-> "{{ Out }}"`
  | stubReturnStream    -- `-> "{{ async_iterator(Out).strip('"') }}"`
  | baseUnaryParam      -- `req: "{{ In }}"`
  | baseIterParam       -- `req_iterator: {{ async_iterator(In) }}`
  | baseReturnUnary     -- `-> "{{ Out }}"`
  | baseReturnStream    -- `-> {{ async_iterator(Out) }}`
  | rpcStream           -- `stream: "grpclib.server.Stream[{{ In }}, {{ Out }}]"`
  | mappingReturn       -- `-> {{ dict("str", "grpclib.const.Handler") }}`
  deriving DecidableEq, Repr

def Site.all : List Site :=
  [.stubUnaryParam, .stubIterParam, .stubTimeout, .stubDeadline, .stubMetadata, .stubReturnUnary,
   .stubReturnStream, .baseUnaryParam, .baseIterParam, .baseReturnUnary, .baseReturnStream, .rpcStream,
   .mappingReturn]

/-- the text the (repaired) template writes at a site; `tin`/`tout` are
    `py_input_message_type` / `py_output_message_type` (already stripped of quotes by
    ServiceMethodCompiler) -/
def siteText (c : Compiler) (tin tout : Str) : Site → Str
  | .stubUnaryParam => quoted tin
  | .stubIterParam => quoted (stripQ (union c [asyncIterable c tin, iterable c tin]))
  | .stubTimeout => optional c "float".toList
  | .stubDeadline => optional c "\"Deadline\"".toList
  | .stubMetadata => optional c "\"MetadataLike\"".toList
  | .stubReturnUnary => quoted tout
  | .stubReturnStream => quoted (stripQ (asyncIterator c tout))
  | .baseUnaryParam => quoted tin
  | .baseIterParam => asyncIterator c tin
  | .baseReturnUnary => quoted tout
  | .baseReturnStream => asyncIterator c tout
  | .rpcStream => quoted ("grpclib.server.Stream[".toList ++ tin ++ ", ".toList ++ tout ++ "]".toList)
  | .mappingReturn => dict c "str".toList "grpclib.const.Handler".toList

/-- the same before the D07 repair: the two stub sites wrapped the compiler output in
    quotes without stripping -/
def siteTextPre (c : Compiler) (tin tout : Str) : Site → Str
  | .stubIterParam => quoted (union c [asyncIterable c tin, iterable c tin])
  | .stubReturnStream => quoted (asyncIterator c tout)
  | s => siteText c tin tout s

/-! ### lexical well-formedness -/

def isNameChar (ch : Char) : Bool := ch.isAlphanum || ch == '_' || ch == '.'

/-- scanner state: outside any literal at the start / after code; just after a closing
    quote; inside a literal having seen `n` characters -/
inductive QState
  | code (afterLiteral : Bool)
  | lit (empty : Bool)

/-- a text is well quoted when its `"` characters delimit complete string literals, no
    literal is empty, and a literal neither directly follows another literal or a name
    nor is directly followed by a name character or an opening quote
    (`""X""`, `"A""B"`, `x"A"` are what Python rejects or mis-reads) -/
def wqScan : QState → Bool → Str → Bool
  | .code _, _, [] => true
  | .lit _, _, [] => false
  | .code after, prevName, ch :: r =>
    if ch == dq then (!after && !prevName) && wqScan (.lit true) false r
    else (!(after && isNameChar ch)) && wqScan (.code false) (isNameChar ch) r
  | .lit empty, _, ch :: r =>
    if ch == dq then !empty && wqScan (.code true) false r
    else wqScan (.lit false) false r

def wellQuoted (s : Str) : Bool := !s.isEmpty && wqScan (.code false) false s

/-! ### what an annotation denotes -/

inductive Shape
  | nm (n : Str)                       -- a named type (`int`, `Foo`, `pkg.Foo`, `None`)
  | app1 (h : Str) (a : Shape)         -- `h[a]`
  | app2 (h : Str) (a b : Shape)       -- `h[a, b]`
  | or (a b : Shape)                   -- union, right nested and flattened
  deriving DecidableEq, Repr

/-- union of two shapes, flattening a union on the left (`(A | B) | C = A | (B | C)`) -/
def mkOr : Shape → Shape → Shape
  | .or x y, b => .or x (mkOr y b)
  | a, b => .or a b

def noneShape : Shape := .nm "None".toList

/-- `typing.X` and `X` are the same head; `List`/`Dict` are `list`/`dict` -/
def normHead (h : Str) : Str :=
  let h := match h with
    | 't' :: 'y' :: 'p' :: 'i' :: 'n' :: 'g' :: '.' :: r => r
    | h => h
  if h == "List".toList then "list".toList
  else if h == "Dict".toList then "dict".toList
  else h

def mkApp1 (h : Str) (a : Shape) : Shape :=
  let h := normHead h
  if h == "Optional".toList then mkOr a noneShape else .app1 h a

def mkApp2 (h : Str) (a b : Shape) : Shape :=
  let h := normHead h
  if h == "Union".toList then mkOr a b else .app2 h a b

/-- longest prefix of name characters -/
def spanName : Str → Str × Str
  | [] => ([], [])
  | ch :: r => if isNameChar ch then let (n, r') := spanName r; (ch :: n, r') else ([], ch :: r)

def stripPrefix : Str → Str → Option Str
  | [], s => some s
  | _ :: _, [] => none
  | p :: ps, ch :: r => if p == ch then stripPrefix ps r else none

/- ann  := atom (" | " atom)*
    atom := '"' ann '"'  (only outside a literal)  |  name  |  name '[' ann ']'  |  name '[' ann ", " ann ']'
    `inLit` = we are inside a string literal (a forward reference). Fuel = nesting budget. -/
mutual
def pAnn : Nat → Bool → Str → Option (Shape × Str)
  | 0, _, _ => none
  | f + 1, inLit, s =>
    match pAtom f inLit s with
    | none => none
    | some (a, r) =>
      match stripPrefix " | ".toList r with
      | none => some (a, r)
      | some r' =>
        match pAnn f inLit r' with
        | none => none
        | some (b, r'') => some (mkOr a b, r'')
def pAtom : Nat → Bool → Str → Option (Shape × Str)
  | 0, _, _ => none
  | _ + 1, _, [] => none
  | f + 1, inLit, ch :: s =>
    if ch == dq then
      if inLit then none
      else match pAnn f true s with
        | some (a, ch' :: r) => if ch' == dq then some (a, r) else none
        | _ => none
    else
      match spanName (ch :: s) with
      | ([], _) => none
      | (n, []) => some (.nm n, [])
      | (n, ch' :: r) =>
        if ch' == '[' then
          match pAnn f inLit r with
          | some (a, ch2 :: r2) =>
            if ch2 == ']' then some (mkApp1 n a, r2)
            else match stripPrefix ", ".toList (ch2 :: r2) with
              | none => none
              | some r3 =>
                match pAnn f inLit r3 with
                | some (b, ch4 :: r4) => if ch4 == ']' then some (mkApp2 n a b, r4) else none
                | _ => none
          | _ => none
        else some (.nm n, ch' :: r)
end

def denoteWith (fuel : Nat) (s : Str) : Option Shape :=
  match pAnn fuel false s with
  | some (a, []) => some a
  | _ => none

/-- the type an annotation text denotes (`none`: not an annotation of the grammar) -/
def denote (s : Str) : Option Shape := denoteWith (2 * s.length + 2) s

/-! ### type expressions the plugin builds, and how each compiler renders them -/

/-- what the plugin asks a typing compiler to build.  `name` is a bare name (`int`,
    `builtins.int`, `datetime`, a stripped message type), `ref` the quoted forward
    reference `get_type_reference` returns.  The element type of the three iterable
    constructors and the key of `dict` are always bare in the plugin (template: stripped
    message types; map keys: scalars), and the 3.10 compiler does not `_fmt` them. -/
inductive Ty
  | name (n : Str)
  | ref (n : Str)
  | optional (t : Ty)
  | list (t : Ty)
  | dict (k : Str) (v : Ty)
  | union (a b : Ty)
  | iterable (n : Str)
  | asyncIterable (n : Str)
  | asyncIterator (n : Str)
  deriving Repr

def render (c : Compiler) : Ty → Str
  | .name n => n
  | .ref n => quoted n
  | .optional t => optional c (render c t)
  | .list t => list c (render c t)
  | .dict k v => dict c k (render c v)
  | .union a b => union c [render c a, render c b]
  | .iterable n => iterable c n
  | .asyncIterable n => asyncIterable c n
  | .asyncIterator n => asyncIterator c n

def hList : Str := "list".toList
def hDict : Str := "dict".toList
def hIterable : Str := "Iterable".toList
def hAsyncIterable : Str := "AsyncIterable".toList
def hAsyncIterator : Str := "AsyncIterator".toList

/-- the type a type expression stands for, independent of any compiler -/
def shapeOf : Ty → Shape
  | .name n => .nm n
  | .ref n => .nm n
  | .optional t => mkOr (shapeOf t) noneShape
  | .list t => .app1 hList (shapeOf t)
  | .dict k v => .app2 hDict (.nm k) (shapeOf v)
  | .union a b => mkOr (shapeOf a) (shapeOf b)
  | .iterable n => .app1 hIterable (.nm n)
  | .asyncIterable n => .app1 hAsyncIterable (.nm n)
  | .asyncIterator n => .app1 hAsyncIterator (.nm n)

/-- a name: non-empty, only letters, digits, `_` and `.` -/
def validName (n : Str) : Bool := !n.isEmpty && n.all isNameChar

def Ty.valid : Ty → Bool
  | .name n => validName n
  | .ref n => validName n
  | .optional t => t.valid
  | .list t => t.valid
  | .dict k v => validName k && v.valid
  | .union a b => a.valid && b.valid
  | .iterable n => validName n
  | .asyncIterable n => validName n
  | .asyncIterator n => validName n

/-! ### fields -/

/-- `FieldCompiler.py_type` -/
inductive PyT
  | scalar (n : Str)     -- int / float / bool / str / bytes / datetime / timedelta
  | ref (n : Str)        -- message or enum: the quoted reference of get_type_reference
  | wrapped (n : Str)    -- google.protobuf.*Value: `typing_compiler.optional(n)`
  deriving Repr

/-- what the descriptor says about a field (the part FieldCompiler looks at) -/
structure FieldDesc where
  pyName : Str
  number : Nat
  fieldType : Str                 -- `int32`, `message`, `enum`, `map`, …
  pyType : PyT
  useBuiltins : Bool := false
  repeated : Bool := false
  proto3Optional : Bool := false
  group : Option Str := none      -- oneof name (real oneofs only)
  wraps : Option Str := none      -- `betterproto.TYPE_INT32` …
  isMap : Bool := false
  mapK : Str := []                -- py type of the key
  mapV : PyT := .scalar []        -- py type of the value
  protoK : Str := []              -- `TYPE_STRING` …
  protoV : Str := []
  deriving Repr

def PyT.ty : PyT → Ty
  | .scalar n => .name n
  | .ref n => .ref n
  | .wrapped n => .optional (.name n)

/-- `PydanticOneOfFieldCompiler.optional` forces True; otherwise `proto3_optional` -/
def effOptional (pydantic : Bool) (fd : FieldDesc) : Bool :=
  fd.proto3Optional || (pydantic && fd.group.isSome)

def builtinsName (n : Str) : Str := "builtins.".toList ++ n
def argWraps (w : Str) : Str := "wraps=".toList ++ w
def argOptional : Str := "optional=True".toList
def argGroup (g : Str) : Str := "group=\"".toList ++ g ++ "\"".toList
def bpConst (x : Str) : Str := "betterproto.".toList ++ x

/-- the type expression `FieldCompiler.annotation` / `MapEntryCompiler.annotation` builds -/
def annotationTy (pydantic : Bool) (fd : FieldDesc) : Ty :=
  if fd.isMap then .dict fd.mapK fd.mapV.ty
  else
    let base : Ty := match fd.useBuiltins, fd.pyType with
      | true, .scalar n => .name (builtinsName n)
      | _, p => p.ty
    if fd.repeated then .list base
    else if effOptional pydantic fd then .optional base
    else base

def annotation (c : Compiler) (pydantic : Bool) (fd : FieldDesc) : Str :=
  render c (annotationTy pydantic fd)

def natStr (n : Nat) : Str := (toString n).toList

/-- `betterproto_field_args` (FieldCompiler, OneOfFieldCompiler, MapEntryCompiler) -/
def fieldArgs (pydantic : Bool) (fd : FieldDesc) : List Str :=
  if fd.isMap then [bpConst fd.protoK, bpConst fd.protoV]
  else
    (match fd.wraps with | some w => [argWraps w] | none => [])
    ++ (if effOptional pydantic fd then [argOptional] else [])
    ++ (match fd.group with | some g => [argGroup g] | none => [])

/-- `betterproto.<type>_field(<number>, <args>)` -/
def fieldCall (pydantic : Bool) (fd : FieldDesc) : Str :=
  "betterproto.".toList ++ (if fd.isMap then "map".toList else fd.fieldType) ++ "_field(".toList
    ++ joinSep ", ".toList (natStr fd.number :: fieldArgs pydantic fd) ++ ")".toList

/-- `FieldCompiler.get_field_string` -/
def fieldString (c : Compiler) (pydantic : Bool) (fd : FieldDesc) : Str :=
  fd.pyName ++ ": ".toList ++ annotation c pydantic fd ++ " = ".toList ++ fieldCall pydantic fd

end Bp.Typing
