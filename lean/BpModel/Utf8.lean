import BpModel.Bytes
/-
  Strict UTF-8 validity, as enforced by CPython's `str(b, "utf-8")`: no overlong
  forms, no surrogates, nothing above U+10FFFF (Unicode table 3-7).
-/
namespace Bp

def isCont (b : Nat) : Bool := 0x80 ≤ b && b ≤ 0xBF

/-- fuel-based (every step consumes at least one byte, so `bs.length + 1` suffices) so
    that the definition reduces in the kernel -/
def utf8ValidFuel : Nat → Bytes → Bool
  | 0, _ => false
  | _ + 1, [] => true
  | fuel + 1, b0 :: rest =>
    if b0 < 0x80 then utf8ValidFuel fuel rest
    else if 0xC2 ≤ b0 && b0 ≤ 0xDF then
      match rest with
      | b1 :: r => isCont b1 && utf8ValidFuel fuel r
      | _ => false
    else if 0xE0 ≤ b0 && b0 ≤ 0xEF then
      match rest with
      | b1 :: b2 :: r =>
        (if b0 == 0xE0 then 0xA0 ≤ b1 && b1 ≤ 0xBF
         else if b0 == 0xED then 0x80 ≤ b1 && b1 ≤ 0x9F
         else isCont b1) && isCont b2 && utf8ValidFuel fuel r
      | _ => false
    else if 0xF0 ≤ b0 && b0 ≤ 0xF4 then
      match rest with
      | b1 :: b2 :: b3 :: r =>
        (if b0 == 0xF0 then 0x90 ≤ b1 && b1 ≤ 0xBF
         else if b0 == 0xF4 then 0x80 ≤ b1 && b1 ≤ 0x8F
         else isCont b1) && isCont b2 && isCont b3 && utf8ValidFuel fuel r
      | _ => false
    else false

def utf8Valid (bs : Bytes) : Bool := utf8ValidFuel (bs.length + 1) bs

end Bp
