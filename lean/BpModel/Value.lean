import BpModel.Schema
/-
  Python-side values held in message fields, and message objects.

  * `ph`   = the PLACEHOLDER sentinel, `none` = Python `None`
  * floats are IEEE bit patterns (`f32`: the float32 pattern a `float` field round
    trips through, `f64`: the double pattern)
  * `str` is the UTF-8 encoding of a Python str; `byt` a bytes object
  * `ts us` = an aware `datetime`, microseconds since the epoch; `dur us` = `timedelta`
  * `msg cls slots onWire unknown cur` = a Message instance: raw slot values in
    declaration order, `_serialized_on_wire`, `_unknown_fields`, `_group_current`
    (selected member of each group as a field index)
  * enum members are ints (`Enum` subclasses `int`; `try_value` is open)
-/
namespace Bp

inductive Val
  | ph
  | none
  | int (v : Int)
  | bool (b : Bool)
  | f32 (bits : Nat)
  | f64 (bits : Nat)
  | str (utf8 : Bytes)
  | byt (b : Bytes)
  | ts (us : Int)
  | dur (us : Int)
  | list (xs : List Val)
  | dict (ks : List Val) (vs : List Val)
  | msg (cls : Nat) (slots : List Val) (onWire : Bool) (unknown : Bytes) (cur : List (Option Nat))
  deriving Repr, Inhabited

/-- `float == 0.0` on bit patterns (+0.0 and -0.0) -/
def f32IsZero (b : Nat) : Bool := b == 0 || b == 0x80000000
def f64IsZero (b : Nat) : Bool := b == 0 || b == 0x8000000000000000

def isNaN32 (b : Nat) : Bool := (b / 0x800000) % 256 == 255 && b % 0x800000 != 0
def isNaN64 (b : Nat) : Bool := (b / 0x10000000000000) % 2048 == 2047 && b % 0x10000000000000 != 0

/-- kind of default a field materialises to (`_get_field_default_gen`) -/
inductive DefKind | none | list | dict | int | bool | f32 | f64 | str | byt | ts | dur | msg (c : Nat)
  deriving DecidableEq, Repr

def msgKindDef : MsgKind → DefKind
  | .user c => .msg c
  | .timestamp => .ts
  | .duration => .dur

def scalarDef : PType → DefKind
  | .bool => .bool
  | .float => .f32
  | .double => .f64
  | .string => .str
  | .bytes => .byt
  | _ => .int      -- every integer type and enum

def FieldD.defKind (f : FieldD) : DefKind :=
  if f.repeated then .list
  else if f.ty == .map then .dict
  else if f.optional || f.wraps.isSome then .none
  else if f.ty == .message then msgKindDef f.kind
  else scalarDef f.ty

/-- a freshly constructed instance of class `c`: optional fields start as None, all
    others as PLACEHOLDER; `_serialized_on_wire = False`, no unknown fields, no selection -/
def fresh (S : Schema) (c : Nat) : Val :=
  .msg c ((fieldsOf S c).map fun f => if f.optional then Val.none else Val.ph)
    false [] (List.replicate (groupsOf S c) Option.none)

def defaultOfKind (S : Schema) : DefKind → Val
  | .none => .none
  | .list => .list []
  | .dict => .dict [] []
  | .int => .int 0
  | .bool => .bool false
  | .f32 => .f32 0
  | .f64 => .f64 0
  | .str => .str []
  | .byt => .byt []
  | .ts => .ts 0
  | .dur => .dur 0
  | .msg c => fresh S c

/-- `self._get_field_default(name)` -/
def defaultOf (S : Schema) (f : FieldD) : Val := defaultOfKind S f.defKind

mutual
/-- `value == default` for a default of kind `k`.  For a message default this is
    `Message.__eq__` against a fresh instance of the class. -/
def eqDefault (S : Schema) (k : DefKind) : Val → Bool
  | .ph => false
  | .none => k == .none
  | .int v => k == .int && v == 0
  | .bool b => k == .bool && !b
  | .f32 b => k == .f32 && f32IsZero b
  | .f64 b => k == .f64 && f64IsZero b
  | .str s => k == .str && s.isEmpty
  | .byt s => k == .byt && s.isEmpty
  | .ts us => k == .ts && us == 0
  | .dur us => k == .dur && us == 0
  | .list xs => k == .list && xs.isEmpty
  | .dict ks _ => k == .dict && ks.isEmpty
  | .msg c slots _ _ _ =>
    match k with
    | .msg c' => c == c' && slotsEqFresh S (fieldsOf S c) slots
    | _ => false
/-- field-by-field comparison of raw slots with those of a fresh instance -/
def slotsEqFresh (S : Schema) : List FieldD → List Val → Bool
  | f :: fs, v :: vs =>
    (match v with
     | .ph => true          -- PLACEHOLDER on both sides, or default vs None for optional
     | v => eqDefault S f.defKind v) && slotsEqFresh S fs vs
  | _, _ => true
end

/-- does `getattr(self, name)` raise AttributeError (unselected oneof member)? -/
def hidden (f : FieldD) (idx : Nat) (cur : List (Option Nat)) : Bool :=
  match f.group with
  | some g => cur.getD g Option.none != some idx
  | Option.none => false

/-- `_include_default_value_for_oneof` -/
def selectedInGroup (f : FieldD) (idx : Nat) (cur : List (Option Nat)) : Bool :=
  match f.group with
  | some g => cur.getD g Option.none == some idx
  | Option.none => false

end Bp
