import BpModel.Bytes
/-
  Model of dump_varint / encode_varint / size_varint / load_varint / decode_varint
  and the zig-zag / sign-recovery arithmetic of _preprocess_single /
  _postprocess_single  (src/betterproto/__init__.py:360-396, 569-596, 410-412, 1219-1230).
-/
namespace Bp

/-- the loop of `dump_varint` on a non-negative value:
    `bits = v & 0x7f; v >>= 7; while v: write(0x80|bits); bits = v & 0x7f; v >>= 7; write(bits)`.
    Recursion is on a fuel argument (the value itself always suffices) so that the
    definition reduces in the kernel. -/
def encNatAux : Nat → Nat → Bytes
  | 0, n => [n]
  | f + 1, n => if n < 128 then [n] else (128 + n % 128) :: encNatAux f (n / 128)

def encNat (n : Nat) : Bytes := encNatAux n n

def two63 : Int := 9223372036854775808
def two64 : Int := 18446744073709551616

/-- `dump_varint` / `encode_varint` -/
def dumpVarint (v : Int) : R Bytes :=
  if v < -two63 then .error .value
  else if v < 0 then .ok (encNat (v + two64).toNat)
  else .ok (encNat v.toNat)

/-- `int.bit_length()` (fuel-based for kernel reduction; `n` itself suffices) -/
def bitLenAux : Nat → Nat → Nat
  | 0, _ => 0
  | f + 1, n => if n = 0 then 0 else 1 + bitLenAux f (n / 2)

def bitLen (n : Nat) : Nat := bitLenAux n n

/-- `size_varint`; `math.ceil(bit_length / 7)` is modelled as `(bit_length + 6) / 7`
    (the float division is exact for every bit length a Python int of < 2^53 bits has) -/
def sizeVarint (v : Int) : R Nat :=
  if v < -two63 then .error .value
  else if v < 0 then .ok 10
  else if v = 0 then .ok 1
  else .ok ((bitLen v.toNat + 6) / 7)

/-- the loop of `load_varint`: `shift` counts 0,7,14,…; `shift ≥ 64` raises ValueError,
    an exhausted stream raises EOFError.  Returns (value, bytes consumed).
    `result |= (b & 0x7f) << shift` is written with `+` (the bits are disjoint). -/
def loadVarintAux (shift res k : Nat) : Bytes → R (Nat × Nat)
  | [] => if shift ≥ 64 then .error .value else .error .eof
  | b :: rest =>
    if shift ≥ 64 then .error .value
    else
      let res' := res + (b % 128) * 2 ^ shift
      if b < 128 then .ok (res', k + 1)
      else loadVarintAux (shift + 7) res' (k + 1) rest

/-- `load_varint(stream)`: value and number of bytes consumed (`len(raw)`); only the 64
    meaningful bits are returned (`result & 0xFFFFFFFFFFFFFFFF`) -/
def loadVarint (bs : Bytes) : R (Nat × Nat) :=
  match loadVarintAux 0 0 0 bs with
  | .ok (v, k) => .ok (v % 18446744073709551616, k)
  | .error e => .error e

/-- `decode_varint(buffer, pos)`: value and new position -/
def decodeVarint (buf : Bytes) (pos : Nat) : R (Nat × Nat) :=
  match loadVarint (buf.drop pos) with
  | .ok (v, k) => .ok (v, pos + k)
  | .error e => .error e

/-- zig-zag of `_preprocess_single`: `v << 1 if v >= 0 else (v << 1) ^ (~0)` -/
def zig (v : Int) : Int := if v ≥ 0 then 2 * v else -(2 * v) - 1

/-- inverse in `_postprocess_single`: `(n >> 1) ^ (-(n & 1))` on a non-negative n -/
def unzig (n : Nat) : Int := if n % 2 = 0 then (n / 2 : Nat) else -((n / 2 : Nat) : Int) - 1

/-- int32/int64 sign recovery: `v &= (1<<bits)-1; (v ^ signbit) - signbit` -/
def signRecover (bits : Nat) (n : Nat) : Int :=
  let m := n % 2 ^ bits
  if m < 2 ^ (bits - 1) then (m : Int) else (m : Int) - (2 ^ bits : Nat)

/-! ### spec-level varint (written from the protobuf encoding document, independent
    of the functions above): a varint is a sequence of 7-bit groups, least
    significant first, every byte but the last with the high bit set. -/
namespace Spec

/-- value denoted by a varint byte sequence: Σ (bᵢ mod 128) · 128ⁱ -/
def varintValue : Bytes → Nat
  | [] => 0
  | b :: bs => b % 128 + 128 * varintValue bs

/-- shape: all bytes but the last have the continuation bit, the last has not -/
def varintShape : Bytes → Bool
  | [] => false
  | [b] => b < 128
  | b :: bs => (128 ≤ b && b < 256) && varintShape bs

/-- canonical = well shaped and minimal (no redundant trailing zero group) -/
def varintCanonical (bs : Bytes) : Bool :=
  varintShape bs && (bs.length = 1 || bs.getLast? != some 0)

end Spec
end Bp
