import BpModel.Load
/-
  Decidable well-typedness of values w.r.t. a schema: the domain of the round-trip
  theorem C01 ("every in-range value").  Everything here is a Bool-valued function so
  that the driver can evaluate the guards on harness inputs.
-/
namespace Bp

def wfBytesB (bs : Bytes) : Bool := bs.all (· < 256)

/-- the range of an integer proto type -/
def intInRange (t : PType) (i : Int) : Bool :=
  match t with
  | .int32 | .sint32 | .sfixed32 | .enum => decide (-2147483648 ≤ i) && decide (i < 2147483648)
  | .int64 | .sint64 | .sfixed64 => decide (-9223372036854775808 ≤ i) && decide (i < 9223372036854775808)
  | .uint32 | .fixed32 => decide (0 ≤ i) && decide (i < 4294967296)
  | .uint64 | .fixed64 => decide (0 ≤ i) && decide (i < 18446744073709551616)
  | _ => false

/-- a well-typed, in-range value of the scalar proto type `t` (everything but message / map):
    ints in the declared range, float32 values given as patterns a Python float can hold
    (no signalling NaN), valid UTF-8 -/
def scalarOk (t : PType) : Val → Bool
  | .int i => intInRange t i
  | .bool _ => t == .bool
  | .f32 b => t == .float && decide (b < 4294967296) && quiet32 b == b
  | .f64 b => t == .double && decide (b < 18446744073709551616)
  | .str s => t == .string && utf8Valid s && wfBytesB s
  | .byt s => t == .bytes && wfBytesB s
  | _ => false

def isScalarType (t : PType) : Bool := t != .message && t != .map

/-- field numbers protoc accepts: 1 .. 2^29 - 1 -/
def numOk (n : Nat) : Bool := decide (0 < n) && decide (n < 536870912)

/-- a datetime / timedelta in the protobuf-valid range -/
def tsOk (us : Int) : Bool := decide (tsMinUs ≤ us) && decide (us ≤ tsMaxUs)
def durOk (us : Int) : Bool := decide (-315576000000000000 ≤ us) && decide (us ≤ 315576000000000000)

end Bp
