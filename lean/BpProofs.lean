import BpProofs.Varint
import BpProofs.Props.C16
