import BpModel.Casing
import BpProofs.CasingChar
/-
  Lemmas about the tokenizer `go` / `tokens` and the functions built on it.
  Property statements live in Props/C19.lean.
-/
namespace Bp.Casing

/-- all characters of the word are of class `k` -/
def AllC (k : Cls) (w : List Char) : Prop := ∀ c ∈ w, cls c = k

theorem AllC.nil {k} : AllC k [] := by intro c h; cases h
theorem AllC.cons {k c w} (h : cls c = k) (hw : AllC k w) : AllC k (c :: w) := by
  intro x hx
  cases hx with
  | head => exact h
  | tail _ hx => exact hw x hx
theorem AllC.head {k c w} (h : AllC k (c :: w)) : cls c = k := h c (List.mem_cons_self ..)
theorem AllC.tail {k c w} (h : AllC k (c :: w)) : AllC k w := fun x hx => h x (List.mem_cons_of_mem _ hx)
theorem AllC.append {k a b} (ha : AllC k a) (hb : AllC k b) : AllC k (a ++ b) := by
  intro x hx
  rcases List.mem_append.1 hx with h | h
  · exact ha x h
  · exact hb x h

/-- shape of every word the tokenizer emits: capitals, then lower-case letters, then digits -/
def Tok (w : List Char) : Prop :=
  w ≠ [] ∧ ∃ u l d, w = u ++ l ++ d ∧ AllC .up u ∧ AllC .lo l ∧ AllC .dg d

/-- shape of the words of `snake_case` output: `[a-z]*[0-9]*`, non-empty -/
def LDWord (w : List Char) : Prop :=
  w ≠ [] ∧ ∃ l d, w = l ++ d ∧ AllC .lo l ∧ AllC .dg d

/-- invariant of the tokenizer state -/
def Inv : St → Prop
  | .sym => True
  | .up pre l => AllC .up pre ∧ cls l = .up
  | .lo cur => cur ≠ [] ∧ ∃ u l, cur = u ++ l ∧ AllC .up u ∧ AllC .lo l
  | .dg cur => cur ≠ [] ∧ ∃ u l d, cur = u ++ l ++ d ∧ AllC .up u ∧ AllC .lo l ∧ AllC .dg d

theorem mem_emit {w x rest} (h : x ∈ emit w rest) : (x = w ∧ w ≠ []) ∨ x ∈ rest := by
  cases w with
  | nil => right; exact h
  | cons a t =>
    simp only [emit, List.mem_cons] at h
    rcases h with h | h
    · left; exact ⟨h, by simp⟩
    · right; exact h

theorem go_tok : ∀ (s : List Char) (st : St), Inv st → ∀ w ∈ go st s, Tok w := by
  intro s
  induction s with
  | nil =>
    intro st hinv w hw
    cases st with
    | sym => simp [go] at hw
    | up pre l =>
      simp only [go, List.mem_singleton] at hw
      subst hw
      exact ⟨by simp, pre ++ [l], [], [], by simp, hinv.1.append (AllC.cons hinv.2 AllC.nil), AllC.nil, AllC.nil⟩
    | lo cur =>
      simp only [go, List.mem_singleton] at hw
      subst hw
      obtain ⟨hne, u, l, rfl, hu, hl⟩ := hinv
      exact ⟨hne, u, l, [], by simp, hu, hl, AllC.nil⟩
    | dg cur =>
      simp only [go, List.mem_singleton] at hw
      subst hw
      exact hinv
  | cons c s ih =>
    intro st hinv w hw
    cases st with
    | sym =>
      simp only [go] at hw
      cases hc : cls c <;> rw [hc] at hw <;> simp only at hw
      · exact ih (.up [] c) ⟨AllC.nil, hc⟩ w hw
      · exact ih (.lo [c]) ⟨by simp, [], [c], by simp, AllC.nil, AllC.cons hc AllC.nil⟩ w hw
      · exact ih (.dg [c]) ⟨by simp, [], [], [c], by simp, AllC.nil, AllC.nil, AllC.cons hc AllC.nil⟩ w hw
      · exact ih .sym trivial w hw
    | up pre l =>
      simp only [go] at hw
      obtain ⟨hpre, hl⟩ := hinv
      cases hc : cls c <;> rw [hc] at hw <;> simp only at hw
      · exact ih (.up (pre ++ [l]) c) ⟨hpre.append (AllC.cons hl AllC.nil), hc⟩ w hw
      · rcases mem_emit hw with ⟨rfl, hne⟩ | h
        · exact ⟨hne, w, [], [], by simp, hpre, AllC.nil, AllC.nil⟩
        · exact ih (.lo [l, c]) ⟨by simp, [l], [c], by simp, AllC.cons hl AllC.nil, AllC.cons hc AllC.nil⟩ w h
      · exact ih (.dg (pre ++ [l, c])) ⟨by simp, pre ++ [l], [], [c], by simp,
          hpre.append (AllC.cons hl AllC.nil), AllC.nil, AllC.cons hc AllC.nil⟩ w hw
      · rcases List.mem_cons.1 hw with rfl | h
        · exact ⟨by simp, pre ++ [l], [], [], by simp, hpre.append (AllC.cons hl AllC.nil), AllC.nil, AllC.nil⟩
        · exact ih .sym trivial w h
    | lo cur =>
      simp only [go] at hw
      obtain ⟨hne, u, l, rfl, hu, hl⟩ := hinv
      have tokcur : Tok (u ++ l) := ⟨hne, u, l, [], by simp, hu, hl, AllC.nil⟩
      cases hc : cls c <;> rw [hc] at hw <;> simp only at hw
      · rcases List.mem_cons.1 hw with rfl | h
        · exact tokcur
        · exact ih (.up [] c) ⟨AllC.nil, hc⟩ w h
      · exact ih (.lo ((u ++ l) ++ [c])) ⟨by simp, u, l ++ [c], by simp, hu, hl.append (AllC.cons hc AllC.nil)⟩ w hw
      · exact ih (.dg ((u ++ l) ++ [c])) ⟨by simp, u, l, [c], by simp, hu, hl, AllC.cons hc AllC.nil⟩ w hw
      · rcases List.mem_cons.1 hw with rfl | h
        · exact tokcur
        · exact ih .sym trivial w h
    | dg cur =>
      simp only [go] at hw
      have tokcur : Tok cur := hinv
      obtain ⟨hne, u, l, d, rfl, hu, hl, hd⟩ := hinv
      cases hc : cls c <;> rw [hc] at hw <;> simp only at hw
      · rcases List.mem_cons.1 hw with rfl | h
        · exact tokcur
        · exact ih (.up [] c) ⟨AllC.nil, hc⟩ w h
      · rcases List.mem_cons.1 hw with rfl | h
        · exact tokcur
        · exact ih (.lo [c]) ⟨by simp, [], [c], by simp, AllC.nil, AllC.cons hc AllC.nil⟩ w h
      · exact ih (.dg ((u ++ l ++ d) ++ [c])) ⟨by simp, u, l, d ++ [c], by simp, hu, hl, hd.append (AllC.cons hc AllC.nil)⟩ w hw
      · rcases List.mem_cons.1 hw with rfl | h
        · exact tokcur
        · exact ih .sym trivial w h

theorem tokens_tok (s : List Char) : ∀ w ∈ tokens s, Tok w := go_tok s .sym trivial

/-! ### trailing / leading symbols do not change the words -/

theorem go_snoc_sym {c : Char} (hc : cls c = .sym) : ∀ (s : List Char) (st : St), go st (s ++ [c]) = go st s := by
  intro s
  induction s with
  | nil =>
    intro st
    cases st <;> simp [go, hc]
  | cons a s ih =>
    intro st
    cases st <;> simp only [List.cons_append, go] <;> cases cls a <;> simp only [ih]

theorem go_append_syms : ∀ (t s : List Char) (st : St), AllC .sym t → go st (s ++ t) = go st s := by
  intro t
  induction t with
  | nil => intro s st _; simp
  | cons c t ih =>
    intro s st h
    have : s ++ c :: t = (s ++ [c]) ++ t := by simp
    rw [this, ih (s ++ [c]) st h.tail, go_snoc_sym h.head]

theorem tokens_append_syms (s t : List Char) (h : AllC .sym t) : tokens (s ++ t) = tokens s :=
  go_append_syms t s .sym h

theorem tokens_cons_sym {c : Char} (s : List Char) (h : cls c = .sym) : tokens (c :: s) = tokens s := by
  simp [tokens, go, h]

theorem tokens_snoc_sym {c : Char} (s : List Char) (h : cls c = .sym) : tokens (s ++ [c]) = tokens s :=
  go_snoc_sym h s .sym

/-! ### runs of one class -/

theorem go_lo_run : ∀ (l cur s : List Char), AllC .lo l → go (.lo cur) (l ++ s) = go (.lo (cur ++ l)) s := by
  intro l
  induction l with
  | nil => intro cur s _; simp
  | cons c l ih =>
    intro cur s h
    simp only [List.cons_append, go, h.head]
    rw [ih _ _ h.tail]
    simp

theorem go_dg_run : ∀ (d cur s : List Char), AllC .dg d → go (.dg cur) (d ++ s) = go (.dg (cur ++ d)) s := by
  intro d
  induction d with
  | nil => intro cur s _; simp
  | cons c d ih =>
    intro cur s h
    simp only [List.cons_append, go, h.head]
    rw [ih _ _ h.tail]
    simp

/-- the rest of the input ends the current word without starting inside it:
    it is empty or begins with a symbol or a capital -/
def Boundary : List Char → Prop
  | [] => True
  | c :: _ => cls c = .sym ∨ cls c = .up

/-- from the lower-case state, a run of lower-case letters then digits followed by a
    boundary closes the word -/
theorem go_lo_close (cur l d s : List Char) (hl : AllC .lo l) (hd : AllC .dg d) (hs : Boundary s)
    : go (.lo cur) (l ++ d ++ s) = (cur ++ l ++ d) :: go .sym s := by
  rw [List.append_assoc, go_lo_run l cur _ hl]
  cases d with
  | nil =>
    cases s with
    | nil => simp [go]
    | cons c s =>
      rcases hs with h | h <;> simp [go, h]
  | cons x d =>
    simp only [List.cons_append, go, hd.head]
    rw [go_dg_run d _ _ hd.tail]
    cases s with
    | nil => simp [go]
    | cons c s =>
      rcases hs with h | h <;> simp [go, h]

theorem go_dg_close (cur d s : List Char) (hd : AllC .dg d) (hs : Boundary s) :
    go (.dg cur) (d ++ s) = (cur ++ d) :: go .sym s := by
  rw [go_dg_run d cur _ hd]
  cases s with
  | nil => simp [go]
  | cons c s =>
    rcases hs with h | h <;> simp [go, h]

/-- a lower-case/digit word followed by a boundary is one token -/
theorem tokens_ld_close (w s : List Char) (hw : LDWord w) (hs : Boundary s) :
    go .sym (w ++ s) = w :: go .sym s := by
  obtain ⟨hne, l, d, rfl, hl, hd⟩ := hw
  cases l with
  | nil =>
    cases d with
    | nil => simp at hne
    | cons x d =>
      simp only [List.nil_append, List.cons_append, go, hd.head]
      rw [go_dg_close [x] d s hd.tail hs]
      simp
  | cons x l =>
    simp only [List.cons_append, go, hl.head]
    have := go_lo_close [x] l d s hl.tail hd hs
    simpa using this

theorem boundary_cons_sym {c s} (h : cls c = .sym) : Boundary (c :: s) := Or.inl h

/-- `snake_case` words are recovered from their `_`-join -/
theorem tokens_joinU : ∀ ws : List (List Char), (∀ w ∈ ws, LDWord w) → tokens (joinU ws) = ws := by
  intro ws
  induction ws with
  | nil => intro _; rfl
  | cons w ws ih =>
    intro h
    have hw := h w (List.mem_cons_self ..)
    cases ws with
    | nil =>
      have := tokens_ld_close w [] hw trivial
      simpa [tokens, joinU, go] using this
    | cons w2 ws =>
      have ih' := ih (fun x hx => h x (List.mem_cons_of_mem _ hx))
      simp only [joinU, tokens]
      rw [tokens_ld_close w _ hw (boundary_cons_sym cls_underscore)]
      have : go .sym ('_' :: joinU (w2 :: ws)) = go .sym (joinU (w2 :: ws)) := by
        simp [go, cls_underscore]
      rw [this]
      simp only [tokens] at ih'
      rw [ih']

/-! ### lower-casing words -/

theorem lowerW_allLo_of_up {u : List Char} (h : AllC .up u) : AllC .lo (lowerW u) := by
  intro c hc
  simp only [lowerW, List.mem_map] at hc
  obtain ⟨a, ha, rfl⟩ := hc
  exact cls_lowerC_of_up (h a ha)

theorem lowerW_fix {k : Cls} (hk : k ≠ .up) {w : List Char} (h : AllC k w) : lowerW w = w := by
  induction w with
  | nil => rfl
  | cons c w ih =>
    simp only [lowerW, List.map_cons]
    have hc : lowerC c = c := lowerC_of_not_up (by rw [h.head]; exact hk)
    rw [hc]
    congr 1
    exact ih h.tail

theorem lowerW_append (a b : List Char) : lowerW (a ++ b) = lowerW a ++ lowerW b := by
  simp [lowerW]

theorem ldword_lowerW {w : List Char} (h : Tok w) : LDWord (lowerW w) := by
  obtain ⟨hne, u, l, d, rfl, hu, hl, hd⟩ := h
  refine ⟨?_, lowerW u ++ l, d, ?_, (lowerW_allLo_of_up hu).append hl, hd⟩
  · simpa [lowerW] using hne
  · rw [lowerW_append, lowerW_append, lowerW_fix (by decide) hl, lowerW_fix (by decide) hd]

theorem lowerW_ldword {w : List Char} (h : LDWord w) : lowerW w = w := by
  obtain ⟨_, l, d, rfl, hl, hd⟩ := h
  rw [lowerW_append, lowerW_fix (by decide) hl, lowerW_fix (by decide) hd]

theorem snake_words_ld (s : List Char) : ∀ w ∈ (tokens s).map lowerW, LDWord w := by
  intro w hw
  obtain ⟨a, ha, rfl⟩ := List.mem_map.1 hw
  exact ldword_lowerW (tokens_tok s a ha)

theorem map_lowerW_fix : ∀ ws : List (List Char), (∀ w ∈ ws, LDWord w) → ws.map lowerW = ws := by
  intro ws h
  induction ws with
  | nil => rfl
  | cons w ws ih =>
    simp only [List.map_cons]
    rw [lowerW_ldword (h w (List.mem_cons_self ..)), ih (fun x hx => h x (List.mem_cons_of_mem _ hx))]

/-- the words of `snake_case(s)` are the lower-cased words of `s` -/
theorem tokens_snake (s : List Char) : tokens (snake s) = (tokens s).map lowerW :=
  tokens_joinU _ (snake_words_ld s)

theorem snake_idem (s : List Char) : snake (snake s) = snake s := by
  unfold snake
  rw [show tokens (joinU ((tokens s).map lowerW)) = (tokens s).map lowerW from tokens_snake s]
  rw [map_lowerW_fix _ (snake_words_ld s)]

/-! ### `rstrip("_")` -/

theorem mem_takeWhile_pos {α} (p : α → Bool) : ∀ (l : List α) (x : α), x ∈ l.takeWhile p → p x = true := by
  intro l
  induction l with
  | nil => intro x h; simp at h
  | cons a l ih =>
    intro x h
    simp only [List.takeWhile_cons] at h
    split at h
    · rcases List.mem_cons.1 h with rfl | h
      · assumption
      · exact ih x h
    · simp at h

theorem rstripU_decomp (x : List Char) : ∃ t, x = rstripU x ++ t ∧ AllC .sym t := by
  refine ⟨(x.reverse.takeWhile (· = '_')).reverse, ?_, ?_⟩
  · unfold rstripU
    rw [← List.reverse_append, List.takeWhile_append_dropWhile, List.reverse_reverse]
  · intro c hc
    rw [List.mem_reverse] at hc
    have := mem_takeWhile_pos _ _ _ hc
    simp only [decide_eq_true_eq] at this
    subst this
    exact cls_underscore

theorem tokens_rstripU (x : List Char) : tokens (rstripU x) = tokens x := by
  obtain ⟨t, h, ht⟩ := rstripU_decomp x
  conv => rhs; rw [h]
  rw [tokens_append_syms _ _ ht]

theorem snake_rstripU (x : List Char) : snake (rstripU x) = snake x := by
  unfold snake; rw [tokens_rstripU]

/-! ### `sanitize_name` on `snake_case` output -/

theorem kw_no_leading_underscore : ∀ k ∈ kw, ∀ t, k ≠ '_' :: t := by
  have h : ∀ k ∈ kw, k.head? ≠ some '_' := by decide
  intro k hk t e
  subst e
  exact h _ hk rfl

theorem kw_snoc_not_kw : ∀ k ∈ kw, k ++ ['_'] ∉ kw := by decide
theorem kw_snoc_ident : ∀ k ∈ kw, pyIdent (k ++ ['_']) = true := by decide

theorem identChar_of_ne_sym {c : Char} (h : cls c ≠ .sym) : identChar c = true := by
  simp [identChar, h]

theorem identChar_underscore : identChar '_' = true := by decide

theorem ldword_identChars {w : List Char} (h : LDWord w) : ∀ c ∈ w, identChar c = true := by
  obtain ⟨_, l, d, rfl, hl, hd⟩ := h
  intro c hc
  rcases List.mem_append.1 hc with h | h
  · exact identChar_of_ne_sym (by rw [hl c h]; decide)
  · exact identChar_of_ne_sym (by rw [hd c h]; decide)

theorem joinU_identChars : ∀ ws : List (List Char), (∀ w ∈ ws, LDWord w) → ∀ c ∈ joinU ws, identChar c = true := by
  intro ws
  induction ws with
  | nil => intro _ c hc; simp [joinU] at hc
  | cons w ws ih =>
    intro h c hc
    have hw := h w (List.mem_cons_self ..)
    cases ws with
    | nil => exact ldword_identChars hw c (by simpa [joinU] using hc)
    | cons w2 ws =>
      simp only [joinU, List.mem_append, List.mem_cons] at hc
      rcases hc with hc | rfl | hc
      · exact ldword_identChars hw c hc
      · exact identChar_underscore
      · exact ih (fun x hx => h x (List.mem_cons_of_mem _ hx)) c hc

theorem snake_identChars (s : List Char) : ∀ c ∈ snake s, identChar c = true :=
  joinU_identChars _ (snake_words_ld s)

theorem pyIdent_underscore_cons {v : List Char} (h : ∀ c ∈ v, identChar c = true) : pyIdent ('_' :: v) = true := by
  simp only [pyIdent, Bool.and_eq_true, List.all_eq_true]
  exact ⟨by decide, h⟩

/-- the three possible results of `sanitize_name` on any string -/
theorem sanitize_cases (v : List Char) :
    (v ∈ kw ∧ sanitize v = v ++ ['_']) ∨ (v ∉ kw ∧ pyIdent v = true ∧ sanitize v = v)
      ∨ (v ∉ kw ∧ pyIdent v = false ∧ sanitize v = '_' :: v) := by
  unfold sanitize
  by_cases h1 : v ∈ kw
  · left; simp [h1]
  · right
    cases h2 : pyIdent v
    · right; simp [h1]
    · left; simp [h1]

/-- `sanitize_name` only adds symbols at either end, so the words are unchanged -/
theorem tokens_sanitize (v : List Char) : tokens (sanitize v) = tokens v := by
  rcases sanitize_cases v with ⟨_, h⟩ | ⟨_, _, h⟩ | ⟨_, _, h⟩ <;> rw [h]
  · exact tokens_snoc_sym v cls_underscore
  · exact tokens_cons_sym v cls_underscore

theorem snake_sanitize (v : List Char) : snake (sanitize v) = snake v := by
  unfold snake; rw [tokens_sanitize]

theorem snake_safeSnake (s : List Char) : snake (safeSnake s) = snake s := by
  unfold safeSnake; rw [snake_sanitize, snake_idem]

theorem safeSnake_idem (s : List Char) : safeSnake (safeSnake s) = safeSnake s := by
  show sanitize (snake (safeSnake s)) = safeSnake s
  rw [snake_safeSnake]; rfl

theorem sanitize_valid (v : List Char) (hv : ∀ c ∈ v, identChar c = true) :
    pyIdent (sanitize v) = true ∧ sanitize v ∉ kw := by
  rcases sanitize_cases v with ⟨hk, h⟩ | ⟨hk, hid, h⟩ | ⟨hk, hid, h⟩ <;> rw [h]
  · exact ⟨kw_snoc_ident v hk, kw_snoc_not_kw v hk⟩
  · exact ⟨hid, hk⟩
  · exact ⟨pyIdent_underscore_cons hv, fun hm => kw_no_leading_underscore _ hm v rfl⟩

theorem safeSnake_valid (s : List Char) : pyIdent (safeSnake s) = true ∧ safeSnake s ∉ kw :=
  sanitize_valid _ (snake_identChars s)

/-! ### capitalised words: `pascal_case` / `camel_case` output read back -/

/-- a capital, at least one lower-case letter, more lower-case letters, digits -/
def CapW (w : List Char) : Prop :=
  ∃ X l1 l d, w = X :: l1 :: (l ++ d) ∧ cls X = .up ∧ cls l1 = .lo ∧ AllC .lo l ∧ AllC .dg d

theorem boundary_flatten_capW : ∀ ws : List (List Char), (∀ w ∈ ws, CapW w) → Boundary ws.flatten := by
  intro ws h
  cases ws with
  | nil => trivial
  | cons w ws =>
    obtain ⟨X, l1, l, d, rfl, hX, _⟩ := h w (List.mem_cons_self ..)
    exact Or.inr hX

/-- a concatenation of such words tokenizes back into exactly these words -/
theorem go_sym_capW : ∀ ws : List (List Char), (∀ w ∈ ws, CapW w) → go .sym ws.flatten = ws := by
  intro ws
  induction ws with
  | nil => intro _; rfl
  | cons w ws ih =>
    intro h
    have hws : ∀ x ∈ ws, CapW x := fun x hx => h x (List.mem_cons_of_mem _ hx)
    obtain ⟨X, l1, l, d, rfl, hX, hl1, hl, hd⟩ := h _ (List.mem_cons_self ..)
    simp only [List.flatten_cons, List.cons_append, go, hX, hl1, emit]
    have := go_lo_close [X, l1] l d ws.flatten hl hd (boundary_flatten_capW ws hws)
    rw [List.append_assoc] at this ⊢
    rw [this, ih hws]
    simp

theorem isLetter_iff (c : Char) : isLetter c = true ↔ cls c = .up ∨ cls c = .lo := by
  simp [isLetter]

/-- a `snake_case` word that begins with two letters -/
theorem ldword_alpha2 {w : List Char} (h : LDWord w) (h2 : startsAlpha2 w = true) :
    ∃ a b l d, w = a :: b :: (l ++ d) ∧ cls a = .lo ∧ cls b = .lo ∧ AllC .lo l ∧ AllC .dg d := by
  obtain ⟨_, l, d, rfl, hl, hd⟩ := h
  match l, hl with
  | [], _ =>
    match d, hd with
    | [], _ => simp [startsAlpha2] at h2
    | [a], _ => simp [startsAlpha2] at h2
    | a :: b :: d, hd =>
      simp only [List.nil_append, startsAlpha2, Bool.and_eq_true, isLetter_iff] at h2
      have := hd.head
      rw [this] at h2
      simp at h2
  | [a], hl =>
    match d, hd with
    | [], _ => simp [startsAlpha2] at h2
    | b :: d, hd =>
      simp only [List.cons_append, List.nil_append, startsAlpha2, Bool.and_eq_true, isLetter_iff] at h2
      have := hd.head
      rw [this] at h2
      simp at h2
  | a :: b :: l, hl =>
    exact ⟨a, b, l, d, by simp, hl.head, hl.tail.head, hl.tail.tail, hd⟩

theorem capW_capitalize {w : List Char} (h : LDWord w) (h2 : startsAlpha2 w = true) :
    CapW (capitalize w) ∧ lowerW (capitalize w) = w := by
  obtain ⟨a, b, l, d, rfl, ha, hb, hl, hd⟩ := ldword_alpha2 h h2
  have hfix : lowerW (b :: (l ++ d)) = b :: (l ++ d) := by
    have : LDWord (b :: (l ++ d)) := ⟨by simp, b :: l, d, by simp, AllC.cons hb hl, hd⟩
    exact lowerW_ldword this
  constructor
  · refine ⟨upperC a, b, l, d, ?_, cls_upperC_of_lo ha, hb, hl, hd⟩
    simp only [capitalize, hfix]
  · simp only [capitalize, hfix]
    simp only [lowerW, List.map_cons] at hfix ⊢
    rw [lowerC_upperC_of_lo ha, hfix]

theorem capitalize_capW {w : List Char} (h : CapW w) : capitalize w = w := by
  obtain ⟨X, l1, l, d, rfl, hX, hl1, hl, hd⟩ := h
  have : LDWord (l1 :: (l ++ d)) := ⟨by simp, l1 :: l, d, by simp, AllC.cons hl1 hl, hd⟩
  simp only [capitalize, upperC_of_up hX, lowerW_ldword this]

theorem upperC_lowerC (c : Char) : upperC (lowerC c) = upperC c := by
  by_cases h : cls c = .up
  · have t : ∀ c ∈ uppers, upperC (lowerC c) = upperC c := by decide
    exact t c ((cls_up_iff c).1 h)
  · rw [lowerC_of_not_up h]

theorem lowerW_idem (w : List Char) : lowerW (lowerW w) = lowerW w := by
  simp [lowerW, lowerC_idem]

theorem capitalize_lowerW (w : List Char) : capitalize (lowerW w) = capitalize w := by
  cases w with
  | nil => rfl
  | cons c w =>
    show upperC (lowerC c) :: lowerW (lowerW w) = upperC c :: lowerW w
    rw [upperC_lowerC, lowerW_idem]

theorem pascal_eq_lowered (s : List Char) : pascal s = (((tokens s).map lowerW).map capitalize).flatten := by
  unfold pascal
  rw [List.map_map]
  congr 1
  apply List.map_congr_left
  intro w _
  exact (capitalize_lowerW w).symm

theorem startsAlpha2_lowerW {w : List Char} (h : startsAlpha2 w = true) : startsAlpha2 (lowerW w) = true := by
  match w, h with
  | a :: b :: r, h =>
    simp only [startsAlpha2, Bool.and_eq_true, isLetter_iff] at h
    simp only [lowerW, List.map_cons, startsAlpha2, Bool.and_eq_true, isLetter_iff, cls_lowerC]
    rcases h with ⟨ha | ha, hb | hb⟩ <;> simp [ha, hb]

/-- the lower-cased words of a name all of whose words begin with two letters -/
theorem alpha2_lowered {s : List Char} (h : allWordsAlpha2 s = true) :
    ∀ w ∈ (tokens s).map lowerW, startsAlpha2 w = true := by
  intro w hw
  obtain ⟨a, ha, rfl⟩ := List.mem_map.1 hw
  simp only [allWordsAlpha2, List.all_eq_true] at h
  exact startsAlpha2_lowerW (h a ha)

theorem capW_of_map {ws : List (List Char)} (hld : ∀ w ∈ ws, LDWord w) (h2 : ∀ w ∈ ws, startsAlpha2 w = true) :
    ∀ w ∈ ws.map capitalize, CapW w := by
  intro w hw
  obtain ⟨a, ha, rfl⟩ := List.mem_map.1 hw
  exact (capW_capitalize (hld a ha) (h2 a ha)).1

theorem map_lower_cap {ws : List (List Char)} (hld : ∀ w ∈ ws, LDWord w) (h2 : ∀ w ∈ ws, startsAlpha2 w = true) :
    (ws.map capitalize).map lowerW = ws := by
  induction ws with
  | nil => rfl
  | cons w ws ih =>
    simp only [List.map_cons]
    rw [(capW_capitalize (hld w (List.mem_cons_self ..)) (h2 w (List.mem_cons_self ..))).2,
      ih (fun x hx => hld x (List.mem_cons_of_mem _ hx)) (fun x hx => h2 x (List.mem_cons_of_mem _ hx))]

theorem map_cap_cap {ws : List (List Char)} (h : ∀ w ∈ ws, CapW w) : ws.map capitalize = ws := by
  induction ws with
  | nil => rfl
  | cons w ws ih =>
    simp only [List.map_cons]
    rw [capitalize_capW (h w (List.mem_cons_self ..)), ih (fun x hx => h x (List.mem_cons_of_mem _ hx))]

/-- `pascal_case` read back: under the two-letter guard the words survive -/
theorem tokens_pascal {s : List Char} (h : allWordsAlpha2 s = true) :
    tokens (pascal s) = ((tokens s).map lowerW).map capitalize := by
  rw [pascal_eq_lowered]
  exact go_sym_capW _ (capW_of_map (snake_words_ld s) (alpha2_lowered h))

theorem pascal_idem_of_alpha2 {s : List Char} (h : allWordsAlpha2 s = true) : pascal (pascal s) = pascal s := by
  have hc := capW_of_map (snake_words_ld s) (alpha2_lowered h)
  have e : pascal (pascal s) = ((tokens (pascal s)).map capitalize).flatten := rfl
  rw [e, tokens_pascal h, map_cap_cap hc, ← pascal_eq_lowered]

/-- `camel_case` read back: under the two-letter guard the lower-cased words survive -/
theorem tokens_camel {s : List Char} (h : allWordsAlpha2 s = true) :
    (tokens (camel s)).map lowerW = (tokens s).map lowerW := by
  have hld := snake_words_ld s
  have h2 := alpha2_lowered h
  unfold camel
  rw [pascal_eq_lowered]
  generalize (tokens s).map lowerW = ws at hld h2
  cases ws with
  | nil => rfl
  | cons w ws =>
    have hld' : ∀ x ∈ ws, LDWord x := fun x hx => hld x (List.mem_cons_of_mem _ hx)
    have h2' : ∀ x ∈ ws, startsAlpha2 x = true := fun x hx => h2 x (List.mem_cons_of_mem _ hx)
    have hw := hld w (List.mem_cons_self ..)
    obtain ⟨a, b, l, d, rfl, ha, hb, hl, hd⟩ := ldword_alpha2 hw (h2 _ (List.mem_cons_self ..))
    have hfix : lowerW (b :: (l ++ d)) = b :: (l ++ d) :=
      lowerW_ldword ⟨by simp, b :: l, d, by simp, AllC.cons hb hl, hd⟩
    have e : lowerFirst ((List.map capitalize ((a :: b :: (l ++ d)) :: ws)).flatten)
        = (a :: b :: (l ++ d)) ++ (ws.map capitalize).flatten := by
      simp only [List.map_cons, List.flatten_cons, capitalize, hfix, List.cons_append, lowerFirst,
        lowerC_upperC_of_lo ha]
    rw [e]
    show (go .sym _).map lowerW = _
    rw [tokens_ld_close _ _ hw (boundary_flatten_capW _ (capW_of_map hld' h2')),
      go_sym_capW _ (capW_of_map hld' h2')]
    simp only [List.map_cons]
    rw [lowerW_ldword hw, map_lower_cap hld' h2']

theorem snake_camel {s : List Char} (h : allWordsAlpha2 s = true) : snake (camel s) = snake s := by
  unfold snake; rw [tokens_camel h]

theorem allWordsAlpha2_safeSnake {s : List Char} (h : allWordsAlpha2 s = true) :
    allWordsAlpha2 (safeSnake s) = true := by
  have : tokens (safeSnake s) = (tokens s).map lowerW := by
    unfold safeSnake; rw [tokens_sanitize, tokens_snake]
  unfold allWordsAlpha2
  rw [this, List.all_eq_true]
  exact alpha2_lowered h

end Bp.Casing
