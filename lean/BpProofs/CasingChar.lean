import BpModel.Casing
/-
  Character-level facts of the casing model.  The classes are explicit tables, so each
  fact is a finite check (`decide` over 26 / 10 entries) lifted to all characters.
-/
namespace Bp.Casing

theorem lowers_not_uppers : ∀ c ∈ lowers, c ∉ uppers := by decide
theorem digits_not_uppers : ∀ c ∈ digits, c ∉ uppers := by decide
theorem digits_not_lowers : ∀ c ∈ digits, c ∉ lowers := by decide

theorem cls_up_iff (c : Char) : cls c = .up ↔ c ∈ uppers := by
  unfold cls
  constructor
  · intro h
    by_cases h1 : c ∈ uppers
    · exact h1
    · simp only [h1, if_false] at h
      repeat' split at h
      all_goals simp at h
  · intro h; simp [h]

theorem cls_lo_iff (c : Char) : cls c = .lo ↔ c ∈ lowers := by
  unfold cls
  constructor
  · intro h
    by_cases h1 : c ∈ uppers
    · simp [h1] at h
    · by_cases h2 : c ∈ lowers
      · exact h2
      · simp only [h1, h2, if_false] at h
        split at h <;> simp at h
  · intro h
    have := lowers_not_uppers c h
    simp [h, this]

theorem cls_dg_iff (c : Char) : cls c = .dg ↔ c ∈ digits := by
  unfold cls
  constructor
  · intro h
    by_cases h1 : c ∈ uppers
    · simp [h1] at h
    · by_cases h2 : c ∈ lowers
      · simp [h1, h2] at h
      · by_cases h3 : c ∈ digits
        · exact h3
        · simp [h1, h2, h3] at h
  · intro h
    have := digits_not_uppers c h
    have := digits_not_lowers c h
    simp [*]

theorem lookupC_not_key (c : Char) : ∀ tbl : List (Char × Char), c ∉ tbl.map Prod.fst → lookupC c tbl = c
  | [], _ => rfl
  | (a, b) :: t, h => by
    simp only [List.map_cons, List.mem_cons, not_or] at h
    simp only [lookupC, h.1, if_false]
    exact lookupC_not_key c t h.2

theorem lowerC_of_not_up {c : Char} (h : cls c ≠ .up) : lowerC c = c := by
  apply lookupC_not_key
  have : (uppers.zip lowers).map Prod.fst = uppers := by decide
  rw [this]
  intro hm
  exact h ((cls_up_iff c).2 hm)

theorem upperC_of_not_lo {c : Char} (h : cls c ≠ .lo) : upperC c = c := by
  apply lookupC_not_key
  have : (lowers.zip uppers).map Prod.fst = lowers := by decide
  rw [this]
  intro hm
  exact h ((cls_lo_iff c).2 hm)

theorem cls_lowerC_of_up {c : Char} (h : cls c = .up) : cls (lowerC c) = .lo := by
  have t : ∀ c ∈ uppers, cls (lowerC c) = .lo := by decide
  exact t c ((cls_up_iff c).1 h)

theorem cls_upperC_of_lo {c : Char} (h : cls c = .lo) : cls (upperC c) = .up := by
  have t : ∀ c ∈ lowers, cls (upperC c) = .up := by decide
  exact t c ((cls_lo_iff c).1 h)

theorem lowerC_upperC_of_lo {c : Char} (h : cls c = .lo) : lowerC (upperC c) = c := by
  have t : ∀ c ∈ lowers, lowerC (upperC c) = c := by decide
  exact t c ((cls_lo_iff c).1 h)

theorem lowerC_of_lo {c : Char} (h : cls c = .lo) : lowerC c = c :=
  lowerC_of_not_up (by rw [h]; decide)
theorem lowerC_of_dg {c : Char} (h : cls c = .dg) : lowerC c = c :=
  lowerC_of_not_up (by rw [h]; decide)
theorem lowerC_of_sym {c : Char} (h : cls c = .sym) : lowerC c = c :=
  lowerC_of_not_up (by rw [h]; decide)
theorem upperC_of_up {c : Char} (h : cls c = .up) : upperC c = c :=
  upperC_of_not_lo (by rw [h]; decide)
theorem upperC_of_dg {c : Char} (h : cls c = .dg) : upperC c = c :=
  upperC_of_not_lo (by rw [h]; decide)

theorem cls_underscore : cls '_' = .sym := by decide

/-- `lower()` sends capitals to lower-case letters and fixes everything else -/
theorem cls_lowerC (c : Char) :
    cls (lowerC c) = (match cls c with | .up => .lo | k => k) := by
  cases h : cls c
  · simp [cls_lowerC_of_up h]
  · simp [lowerC_of_lo h, h]
  · simp [lowerC_of_dg h, h]
  · simp [lowerC_of_sym h, h]

theorem lowerC_idem (c : Char) : lowerC (lowerC c) = lowerC c := by
  apply lowerC_of_not_up
  rw [cls_lowerC]
  cases cls c <;> simp

/-- `upper()` sends lower-case letters to capitals and fixes everything else -/
theorem cls_upperC (c : Char) :
    cls (upperC c) = (match cls c with | .lo => .up | k => k) := by
  cases h : cls c
  · simp [upperC_of_up h, h]
  · simp [cls_upperC_of_lo h]
  · simp [upperC_of_dg h, h]
  · simp [upperC_of_not_lo (c := c) (by rw [h]; decide), h]

end Bp.Casing
