import BpModel.Casing
import BpModel.Naming
import BpProofs.Casing
/-
  Lemmas for class names (`pascal_case` output) and enum member names.
-/
namespace Bp.Casing
open Bp.Naming

/-- the word the tokenizer state has accumulated so far -/
def stWord : St → List Char
  | .sym => []
  | .up pre l => pre ++ [l]
  | .lo cur => cur
  | .dg cur => cur

/-- the first word emitted begins with the first character already accumulated -/
theorem go_head : ∀ (s : List Char) (st : St) (x : Char) (t : List Char), stWord st = x :: t →
    ∃ w ws, go st s = (x :: w) :: ws := by
  intro s
  induction s with
  | nil =>
    intro st x t h
    cases st <;> simp only [stWord] at h
    · cases h
    · exact ⟨t, [], by simp [go, h]⟩
    · exact ⟨t, [], by simp [go, h]⟩
    · exact ⟨t, [], by simp [go, h]⟩
  | cons c s ih =>
    intro st x t h
    cases st with
    | sym => cases h
    | up pre l =>
      simp only [stWord] at h
      simp only [go]
      cases cls c <;> simp only
      · exact ih (.up (pre ++ [l]) c) x (t ++ [c]) (by simp [stWord, h])
      · cases pre with
        | nil =>
          simp only [List.nil_append, List.cons.injEq] at h
          simp only [emit]
          exact ih (.lo [l, c]) x [c] (by simp [stWord, h.1])
        | cons p pre =>
          simp only [List.cons_append, List.cons.injEq] at h
          exact ⟨pre, go (.lo [l, c]) s, by simp [emit, h.1]⟩
      · exact ih (.dg (pre ++ [l, c])) x (t ++ [c]) (by
          have : pre ++ [l, c] = (pre ++ [l]) ++ [c] := by simp
          simp [stWord, this, h])
      · exact ⟨t, _, by rw [h]⟩
    | lo cur =>
      simp only [stWord] at h
      subst h
      simp only [go]
      cases cls c <;> simp only
      · exact ⟨t, _, rfl⟩
      · exact ih (.lo (x :: t ++ [c])) x (t ++ [c]) (by simp [stWord])
      · exact ih (.dg (x :: t ++ [c])) x (t ++ [c]) (by simp [stWord])
      · exact ⟨t, _, rfl⟩
    | dg cur =>
      simp only [stWord] at h
      subst h
      simp only [go]
      cases cls c <;> simp only
      · exact ⟨t, _, rfl⟩
      · exact ⟨t, _, rfl⟩
      · exact ih (.dg (x :: t ++ [c])) x (t ++ [c]) (by simp [stWord])
      · exact ⟨t, _, rfl⟩

theorem tokens_dropWhile_sym : ∀ s : List Char, tokens (s.dropWhile (fun c => cls c = .sym)) = tokens s := by
  intro s
  induction s with
  | nil => rfl
  | cons c s ih =>
    by_cases h : cls c = .sym
    · rw [List.dropWhile_cons_of_pos (by simpa using h), ih, tokens_cons_sym s h]
    · rw [List.dropWhile_cons_of_neg (by simpa using h)]

/-- if the first letter-or-digit is a letter, the first word begins with that letter -/
theorem tokens_head_letter {s : List Char} (h : firstAlnumIsLetter s = true) :
    ∃ x w ws, tokens s = (x :: w) :: ws ∧ isLetter x = true := by
  unfold firstAlnumIsLetter at h
  rw [← tokens_dropWhile_sym]
  split at h
  · next c r heq =>
    rw [heq]
    simp only [isLetter_iff] at h
    rcases h with hc | hc
    · obtain ⟨w, ws, e⟩ := go_head r (.up [] c) c [] rfl
      exact ⟨c, w, ws, by simp [tokens, go, hc, e], by simp [isLetter, hc]⟩
    · obtain ⟨w, ws, e⟩ := go_head r (.lo [c]) c [] rfl
      exact ⟨c, w, ws, by simp [tokens, go, hc, e], by simp [isLetter, hc]⟩
  · cases h

theorem tok_not_sym {w : List Char} (h : Tok w) : ∀ c ∈ w, cls c ≠ .sym := by
  obtain ⟨_, u, l, d, rfl, hu, hl, hd⟩ := h
  intro c hc
  simp only [List.mem_append] at hc
  rcases hc with (hc | hc) | hc
  · rw [hu c hc]; decide
  · rw [hl c hc]; decide
  · rw [hd c hc]; decide

theorem capitalize_not_sym {w : List Char} (h : ∀ c ∈ w, cls c ≠ .sym) : ∀ c ∈ capitalize w, cls c ≠ .sym := by
  cases w with
  | nil => intro c hc; simp [capitalize] at hc
  | cons a w =>
    intro c hc
    simp only [capitalize, lowerW, List.mem_cons, List.mem_map] at hc
    rcases hc with rfl | ⟨b, hb, rfl⟩
    · rw [cls_upperC]
      have := h a (List.mem_cons_self ..)
      cases hca : cls a <;> simp_all
    · rw [cls_lowerC]
      have := h b (List.mem_cons_of_mem _ hb)
      cases hcb : cls b <;> simp_all

/-- `pascal_case` output is alphanumeric -/
theorem pascal_not_sym (s : List Char) : ∀ c ∈ pascal s, cls c ≠ .sym := by
  intro c hc
  simp only [pascal, List.mem_flatten, List.mem_map] at hc
  obtain ⟨l, ⟨w, hw, rfl⟩, hcl⟩ := hc
  exact capitalize_not_sym (tok_not_sym (tokens_tok s w hw)) c hcl

theorem pascal_head {s : List Char} (h : firstAlnumIsLetter s = true) :
    ∃ X r, pascal s = X :: r ∧ cls X = .up := by
  obtain ⟨x, w, ws, e, hx⟩ := tokens_head_letter h
  refine ⟨upperC x, lowerW w ++ (ws.map capitalize).flatten, by simp [pascal, e, capitalize], ?_⟩
  rw [cls_upperC]
  rcases (isLetter_iff x).1 hx with h | h <;> simp [h]

theorem pascal_ident {s : List Char} (h : firstAlnumIsLetter s = true) : pyIdent (pascal s) = true := by
  obtain ⟨X, r, e, hX⟩ := pascal_head h
  have hall := pascal_not_sym s
  rw [e] at hall ⊢
  simp only [pyIdent, Bool.and_eq_true, List.all_eq_true]
  refine ⟨by simp [identStart, hX], ?_⟩
  intro c hc
  exact identChar_of_ne_sym (hall c (List.mem_cons_of_mem _ hc))

theorem pascal_kw_cap {s : List Char} (h : firstAlnumIsLetter s = true) (hk : pascal s ∈ kw) :
    pascal s ∈ capKeywords := by
  obtain ⟨X, r, e, hX⟩ := pascal_head h
  unfold capKeywords
  rw [List.mem_filter]
  refine ⟨hk, ?_⟩
  rw [e]
  simp [hX]

/-! ### enum member names -/

theorem afterFirst_suffix (needle : List Char) : ∀ (hay r : List Char), afterFirst needle hay = some r →
    ∀ c ∈ r, c ∈ hay := by
  intro hay
  induction hay with
  | nil =>
    intro r h c hc
    simp only [afterFirst] at h
    split at h
    · cases h; cases hc
    · cases h
  | cons a t ih =>
    intro r h c hc
    simp only [afterFirst] at h
    split at h
    · cases h
      exact List.mem_of_mem_drop hc
    · exact List.mem_cons_of_mem _ (ih r h c hc)

theorem mem_dropWhile {α} (p : α → Bool) (l : List α) (x : α) (h : x ∈ l.dropWhile p) : x ∈ l :=
  (List.dropWhile_sublist p).subset h

theorem stripU_subset (s : List Char) : ∀ c ∈ stripU s, c ∈ s := by
  intro c hc
  simp only [stripU, rstripU, lstripU, List.mem_reverse] at hc
  have := mem_dropWhile _ _ _ hc
  rw [List.mem_reverse] at this
  exact mem_dropWhile _ _ _ this

theorem enumMember_valid (name enumName : List Char) (h : ∀ c ∈ name, identChar c = true) :
    pyIdent (pythonizeEnumMemberName name enumName) = true ∧ pythonizeEnumMemberName name enumName ∉ kw := by
  unfold pythonizeEnumMemberName
  simp only
  split
  · next rest heq =>
    apply sanitize_valid
    intro c hc
    exact h c (afterFirst_suffix _ _ _ heq c (stripU_subset _ c hc))
  · exact sanitize_valid _ h

end Bp.Casing
