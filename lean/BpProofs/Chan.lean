import BpModel.Chan
/-
  Helper lemmas for the AsyncChannel model: sums of per-task measures over the task table,
  how they change when one task is rewritten, and the specification of `_wakeup_next`.
  (Property statements live in Props/C12.lean.)
-/
namespace Bp.Chan

/-! ### sums of a per-task measure -/

def tsum (f : Task → Nat) : List Task → Nat
  | [] => 0
  | x :: xs => f x + tsum f xs

theorem tsum_append (f : Task → Nat) (a b : List Task) : tsum f (a ++ b) = tsum f a + tsum f b := by
  induction a with
  | nil => simp [tsum]
  | cons x xs ih => simp [tsum, ih]; omega

theorem tsum_set (f : Task → Nat) {ts : List Task} {t : Nat} {x : Task} (x' : Task) (h : ts[t]? = some x) :
    tsum f (ts.set t x') + f x = tsum f ts + f x' := by
  induction ts generalizing t with
  | nil => simp at h
  | cons y ys ih =>
    cases t with
    | zero => simp at h; subst h; simp [tsum]; omega
    | succ t => simp at h; have := ih h; simp [tsum]; omega

theorem tsum_pos {f : Task → Nat} {ts : List Task} (h : 0 < tsum f ts) : ∃ (t : Nat) (x : Task), ts[t]? = some x ∧ 0 < f x := by
  induction ts with
  | nil => simp [tsum] at h
  | cons y ys ih =>
    by_cases hy : 0 < f y
    · exact ⟨0, y, by simp, hy⟩
    · have : 0 < tsum f ys := by simp [tsum] at h; omega
      obtain ⟨t, x, h1, h2⟩ := ih this
      exact ⟨t + 1, x, by simpa using h1, h2⟩

theorem tsum_ge {f : Task → Nat} {ts : List Task} {t : Nat} {x : Task} (h : ts[t]? = some x) : f x ≤ tsum f ts := by
  induction ts generalizing t with
  | nil => simp at h
  | cons y ys ih =>
    cases t with
    | zero => simp at h; subst h; simp [tsum]
    | succ t => simp at h; have := ih h; simp [tsum]; omega

theorem tsum_zero {f : Task → Nat} {ts : List Task} (h : tsum f ts = 0) {t : Nat} {x : Task} (hx : ts[t]? = some x) : f x = 0 := by
  have := tsum_ge (f := f) hx; omega

/-! ### the measures -/

def ind (b : Bool) : Nat := if b then 1 else 0

/-- task is suspended on a pending getter (`g = true`) / putter future -/
def mPend (g : Bool) (x : Task) : Nat := if x.wait = .blocked g .pending then 1 else 0
/-- task has been woken (result set) and has not run yet -/
def mWok (g : Bool) (x : Task) : Nat := if x.wait = .blocked g .woken then 1 else 0
def Wait.inGet : Wait → Bool
  | .blocked true _ => true
  | _ => false
def Wait.isCancelled : Wait → Bool
  | .blocked _ .cancelled => true
  | _ => false
/-- task is inside `Queue.get()` (counted in `_waiting_receivers`) -/
def mInGet (x : Task) : Nat := if x.wait.inGet = true then 1 else 0
def owedOf : Code → Nat
  | .flusher (some r) => r
  | _ => 0
/-- sentinels a live `_flush_queue` task still has to put -/
def mOwed (x : Task) : Nat := if x.wait = .done then 0 else owedOf x.code
/-- a `_flush_queue` task that has not started and will start -/
def mFresh (x : Task) : Nat := if x.code = .flusher none ∧ x.wait = .ready ∧ x.mustCancel = false then 1 else 0
/-- a receiver that has finished -/
def mRecvDone (x : Task) : Nat := if x.code.isReceiver = true ∧ x.wait = .done then 1 else 0
/-- a cancellation is in flight for the task -/
def mCanc (x : Task) : Nat := if x.mustCancel = true ∨ x.wait.isCancelled = true then 1 else 0

/-- all delta equations of rewriting one task at once -/
theorem delta {ts : List Task} {t : Nat} {x : Task} (x' : Task) (h : ts[t]? = some x) :
    (∀ g, tsum (mPend g) (ts.set t x') + mPend g x = tsum (mPend g) ts + mPend g x') ∧
    (∀ g, tsum (mWok g) (ts.set t x') + mWok g x = tsum (mWok g) ts + mWok g x') ∧
    (tsum mInGet (ts.set t x') + mInGet x = tsum mInGet ts + mInGet x') ∧
    (tsum mOwed (ts.set t x') + mOwed x = tsum mOwed ts + mOwed x') ∧
    (tsum mFresh (ts.set t x') + mFresh x = tsum mFresh ts + mFresh x') ∧
    (tsum mRecvDone (ts.set t x') + mRecvDone x = tsum mRecvDone ts + mRecvDone x') ∧
    (tsum mCanc (ts.set t x') + mCanc x = tsum mCanc ts + mCanc x') :=
  ⟨fun g => tsum_set (mPend g) x' h, fun g => tsum_set (mWok g) x' h, tsum_set _ x' h, tsum_set _ x' h,
   tsum_set _ x' h, tsum_set _ x' h, tsum_set _ x' h⟩

/-! ### `nextAt`: the next sequence number of sender `a` -/

def nextAt (ts : List Task) (a : Nat) : Nat :=
  match ts[a]? with
  | some x => x.code.nextSeq
  | none => 0

theorem nextAt_set_le {ts : List Task} {t : Nat} {x x' : Task} (h : ts[t]? = some x)
    (hle : x.code.nextSeq ≤ x'.code.nextSeq) (a : Nat) : nextAt ts a ≤ nextAt (ts.set t x') a := by
  unfold nextAt
  by_cases hat : a = t
  · subst hat
    have hl : a < ts.length := by
      rcases Nat.lt_or_ge a ts.length with hl | hl
      · exact hl
      · rw [List.getElem?_eq_none hl] at h; cases h
    rw [h]; simp [hl, hle]
  · have : t ≠ a := fun e => hat e.symm
    simp [this]

theorem nextAt_set_self {ts : List Task} {t : Nat} {x : Task} (x' : Task) (h : ts[t]? = some x) :
    nextAt (ts.set t x') t = x'.code.nextSeq := by
  unfold nextAt
  have hl : t < ts.length := by
    rcases Nat.lt_or_ge t ts.length with hl | hl
    · exact hl
    · rw [List.getElem?_eq_none hl] at h; cases h
  simp [hl]

theorem nextAt_append_le (ts : List Task) (x : Task) (a : Nat) : nextAt ts a ≤ nextAt (ts ++ [x]) a := by
  unfold nextAt
  rcases Nat.lt_or_ge a ts.length with hl | hl
  · simp [List.getElem?_append_left hl]
  · simp [List.getElem?_eq_none hl]

/-! ### `_wakeup_next` -/

theorem wakeNext_spec (g : Bool) (dq : List Nat) (ts : List Task) :
    (∀ v ∈ (wakeNext g dq ts).1, v ∈ dq) ∧
    (((wakeNext g dq ts).2 = ts ∧ ∀ u ∈ dq, ∀ y, ts[u]? = some y → y.wait ≠ .blocked g .pending) ∨
     (∃ u y, u ∈ dq ∧ ts[u]? = some y ∧ y.wait = .blocked g .pending ∧
        (wakeNext g dq ts).2 = ts.set u { y with wait := .blocked g .woken } ∧
        ∀ v ∈ dq, v ≠ u → ∀ z, ts[v]? = some z → z.wait = .blocked g .pending → v ∈ (wakeNext g dq ts).1)) := by
  induction dq with
  | nil => simp [wakeNext]
  | cons u rest ih =>
    obtain ⟨ihA, ihB⟩ := ih
    cases hu : ts[u]? with
    | none =>
      simp only [wakeNext, hu]
      refine ⟨fun v hv => List.mem_cons_of_mem _ (ihA v hv), ?_⟩
      rcases ihB with ⟨h1, h2⟩ | ⟨u', y, h1, h2, h3, h4, h5⟩
      · left
        refine ⟨h1, ?_⟩
        intro v hv y hy
        rcases List.mem_cons.mp hv with rfl | hv
        · rw [hu] at hy; cases hy
        · exact h2 v hv y hy
      · right
        refine ⟨u', y, List.mem_cons_of_mem _ h1, h2, h3, h4, ?_⟩
        intro v hv hne z hz hp
        rcases List.mem_cons.mp hv with rfl | hv
        · rw [hu] at hz; cases hz
        · exact h5 v hv hne z hz hp
    | some y =>
      by_cases hp : y.wait = .blocked g .pending
      · simp only [wakeNext, hu, hp, if_true]
        refine ⟨fun v hv => List.mem_cons_of_mem _ hv, Or.inr ⟨u, y, List.mem_cons_self, hu, hp, rfl, ?_⟩⟩
        intro v hv hne z _ _
        rcases List.mem_cons.mp hv with rfl | hv
        · exact absurd rfl hne
        · exact hv
      · simp only [wakeNext, hu, hp, if_false]
        refine ⟨fun v hv => List.mem_cons_of_mem _ (ihA v hv), ?_⟩
        rcases ihB with ⟨h1, h2⟩ | ⟨u', y', h1, h2, h3, h4, h5⟩
        · left
          refine ⟨h1, ?_⟩
          intro v hv z hz
          rcases List.mem_cons.mp hv with rfl | hv
          · rw [hu] at hz; cases hz; exact hp
          · exact h2 v hv z hz
        · right
          refine ⟨u', y', List.mem_cons_of_mem _ h1, h2, h3, h4, ?_⟩
          intro v hv hne z hz hpz
          rcases List.mem_cons.mp hv with rfl | hv
          · rw [hu] at hz; cases hz; exact absurd hpz hp
          · exact h5 v hv hne z hz hpz

end Bp.Chan

namespace Bp.Chan

/-! ### `wake` on the whole system -/

@[simp] theorem wake_queue (g s) : (wake g s).queue = s.queue := by unfold wake Sys.setDq; cases g <;> rfl
@[simp] theorem wake_maxsize (g s) : (wake g s).maxsize = s.maxsize := by unfold wake Sys.setDq; cases g <;> rfl
@[simp] theorem wake_unfinished (g s) : (wake g s).unfinished = s.unfinished := by unfold wake Sys.setDq; cases g <;> rfl
@[simp] theorem wake_closed (g s) : (wake g s).closed = s.closed := by unfold wake Sys.setDq; cases g <;> rfl
@[simp] theorem wake_flushed (g s) : (wake g s).flushed = s.flushed := by unfold wake Sys.setDq; cases g <;> rfl
@[simp] theorem wake_waiting (g s) : (wake g s).waiting = s.waiting := by unfold wake Sys.setDq; cases g <;> rfl
@[simp] theorem wake_putLog (g s) : (wake g s).putLog = s.putLog := by unfold wake Sys.setDq; cases g <;> rfl
@[simp] theorem wake_recvLog (g s) : (wake g s).recvLog = s.recvLog := by unfold wake Sys.setDq; cases g <;> rfl
@[simp] theorem wake_preClose (g s) : (wake g s).preClose = s.preClose := by unfold wake Sys.setDq; cases g <;> rfl
@[simp] theorem wake_cancels (g s) : (wake g s).cancels = s.cancels := by unfold wake Sys.setDq; cases g <;> rfl
theorem wake_tasks (g s) : (wake g s).tasks = (wakeNext g (s.dq g) s.tasks).2 := by unfold wake Sys.setDq; cases g <;> rfl
theorem wake_dq_same (g s) : (wake g s).dq g = (wakeNext g (s.dq g) s.tasks).1 := by
  unfold wake Sys.setDq Sys.dq; cases g <;> rfl
theorem wake_dq_other (g s) : (wake g s).dq (!g) = s.dq (!g) := by
  unfold wake Sys.setDq Sys.dq; cases g <;> rfl

/-- every pending waiter is in its deque (so `_wakeup_next` finds it) -/
def G1 (s : Sys) : Prop :=
  ∀ (g : Bool) (t : Nat) (x : Task), s.tasks[t]? = some x → x.wait = .blocked g .pending → t ∈ s.dq g

structure WakeEff (g : Bool) (s s' : Sys) : Prop where
  len : s'.tasks.length = s.tasks.length
  sumPW : tsum (mPend g) s'.tasks + tsum (mWok g) s'.tasks = tsum (mPend g) s.tasks + tsum (mWok g) s.tasks
  wokUp : 0 < tsum (mPend g) s.tasks → tsum (mWok g) s'.tasks = tsum (mWok g) s.tasks + 1
  wokLe : tsum (mWok g) s.tasks ≤ tsum (mWok g) s'.tasks ∧ tsum (mWok g) s'.tasks ≤ tsum (mWok g) s.tasks + 1
  other : ∀ f : Task → Nat, (∀ y : Task, y.wait = .blocked g .pending → f { y with wait := .blocked g .woken } = f y) →
    tsum f s'.tasks = tsum f s.tasks
  g1 : G1 s'
  next : ∀ a, nextAt s'.tasks a = nextAt s.tasks a
  code : ∀ t : Nat, (s'.tasks[t]?).map Task.code = (s.tasks[t]?).map Task.code

theorem getElem?_lt {ts : List Task} {t : Nat} {x : Task} (h : ts[t]? = some x) : t < ts.length := by
  rcases Nat.lt_or_ge t ts.length with hl | hl
  · exact hl
  · rw [List.getElem?_eq_none hl] at h; cases h

theorem wake_eff (g : Bool) (s : Sys) (hG : G1 s) : WakeEff g s (wake g s) := by
  obtain ⟨hA, hB⟩ := wakeNext_spec g (s.dq g) s.tasks
  rcases hB with ⟨h1, h2⟩ | ⟨u, y, hu, hy, hp, h4, h5⟩
  · -- nobody woken
    have hnp : tsum (mPend g) s.tasks = 0 := by
      rcases Nat.eq_zero_or_pos (tsum (mPend g) s.tasks) with h | h
      · exact h
      · obtain ⟨t, x, hx, hpos⟩ := tsum_pos h
        have hw : x.wait = .blocked g .pending := by
          unfold mPend at hpos
          by_cases hh : x.wait = .blocked g .pending
          · exact hh
          · simp [hh] at hpos
        exact absurd hw (h2 t (hG g t x hx hw) x hx)
    have ht : (wake g s).tasks = s.tasks := by rw [wake_tasks, h1]
    refine ⟨by rw [ht], by rw [ht], by omega, by rw [ht]; omega, fun f _ => by rw [ht], ?_, by rw [ht]; simp, by rw [ht]; simp⟩
    intro g' t x hx hw
    rw [ht] at hx
    by_cases hg : g' = g
    · subst hg
      exact absurd hw (h2 t (hG g' t x hx hw) x hx)
    · have : g' = !g := by cases g <;> cases g' <;> simp_all
      subst this
      rw [wake_dq_other]; exact hG _ t x hx hw
  · have ht : (wake g s).tasks = s.tasks.set u { y with wait := .blocked g .woken } := by rw [wake_tasks, h4]
    have d := delta (ts := s.tasks) { y with wait := .blocked g .woken } hy
    obtain ⟨dP, dW, _⟩ := d
    have dPg := dP g
    have dWg := dW g
    have e1 : mPend g y = 1 := by simp [mPend, hp]
    have e2 : mPend g { y with wait := .blocked g .woken } = 0 := by simp [mPend]
    have e3 : mWok g y = 0 := by simp [mWok, hp]
    have e4 : mWok g { y with wait := .blocked g .woken } = 1 := by simp [mWok]
    rw [e1, e2] at dPg
    rw [e3, e4] at dWg
    refine ⟨by rw [ht]; simp, by rw [ht]; omega, fun _ => by rw [ht]; omega, by rw [ht]; omega, ?_, ?_, ?_, ?_⟩
    · intro f hf
      have := tsum_set f { y with wait := .blocked g .woken } hy
      rw [hf y hp] at this
      rw [ht]; omega
    · intro g' t x hx hw
      rw [ht] at hx
      by_cases htu : t = u
      · subst htu
        rw [List.getElem?_set_self (getElem?_lt hy)] at hx
        cases hx
        simp at hw
      · rw [List.getElem?_set_ne (fun e => htu e.symm)] at hx
        by_cases hg : g' = g
        · subst hg
          rw [wake_dq_same]
          exact h5 t (hG g' t x hx hw) htu x hx hw
        · have : g' = !g := by cases g <;> cases g' <;> simp_all
          subst this
          rw [wake_dq_other]; exact hG _ t x hx hw
    · intro a
      rw [ht]
      by_cases hau : a = u
      · subst hau
        rw [nextAt_set_self _ hy]
        simp [nextAt, hy]
      · simp [nextAt, List.getElem?_set_ne (fun e => hau e.symm)]
    · intro t
      rw [ht]
      by_cases htu : t = u
      · subst htu
        rw [List.getElem?_set_self (getElem?_lt hy), hy]; rfl
      · rw [List.getElem?_set_ne (fun e => htu e.symm)]

theorem WakeEff.others {g : Bool} {s s' : Sys} (h : WakeEff g s s') :
    tsum (mPend (!g)) s'.tasks = tsum (mPend (!g)) s.tasks ∧ tsum (mWok (!g)) s'.tasks = tsum (mWok (!g)) s.tasks ∧
    tsum mInGet s'.tasks = tsum mInGet s.tasks ∧ tsum mOwed s'.tasks = tsum mOwed s.tasks ∧
    tsum mFresh s'.tasks = tsum mFresh s.tasks ∧ tsum mRecvDone s'.tasks = tsum mRecvDone s.tasks ∧
    tsum mCanc s'.tasks = tsum mCanc s.tasks := by
  refine ⟨h.other _ ?_, h.other _ ?_, h.other _ ?_, h.other _ ?_, h.other _ ?_, h.other _ ?_, h.other _ ?_⟩
  · intro y hy; cases g <;> simp [mPend, hy]
  · intro y hy; cases g <;> simp [mWok, hy]
  · intro y hy; cases g <;> simp [mInGet, Wait.inGet, hy]
  · intro y hy; simp [mOwed, hy]
  · intro y hy; simp [mFresh, hy]
  · intro y hy; simp [mRecvDone, hy]
  · intro y hy; simp [mCanc, Wait.isCancelled, hy]

end Bp.Chan
