import BpProofs.ChanStep
/- small lemmas used by the property statements of Props/C12.lean -/
namespace Bp.Chan

theorem count_le_one_of_pairwise {l : List Item} (h : l.Pairwise SendOrd) (a b : Nat) : l.count (.data a b) ≤ 1 := by
  induction l with
  | nil => simp
  | cons x xs ih =>
    rw [List.pairwise_cons] at h
    have ih' := ih h.2
    by_cases hx : x = .data a b
    · subst hx
      have : xs.count (.data a b) = 0 := by
        rw [List.count_eq_zero]
        intro hmem
        have := h.1 _ hmem
        simp [SendOrd] at this
      simp [this]
    · simp only [List.count_cons, beq_iff_eq, hx, if_false, Nat.add_zero]; exact ih'

theorem quiescent_wait {s : Sys} (hq : quiescent s = true) {t : Nat} {x : Task} (hx : s.tasks[t]? = some x) :
    x.wait = .done ∨ ∃ g, x.wait = .blocked g .pending := by
  have hl := getElem?_lt hx
  simp only [quiescent, List.all_eq_true, List.mem_range] at hq
  have := hq t hl
  simp only [runnable, waitOf, hx, Option.map_some] at this
  cases hw : x.wait with
  | ready => simp [hw] at this
  | done => exact Or.inl rfl
  | blocked g f =>
    cases f with
    | pending => exact Or.inr ⟨g, rfl⟩
    | woken => simp [hw] at this
    | cancelled => simp [hw] at this

theorem tsum_zero_of {f : Task → Nat} {ts : List Task} (h : ∀ (t : Nat) (x : Task), ts[t]? = some x → f x = 0) : tsum f ts = 0 := by
  apply tsum_eq_zero_of_forall
  intro x hx
  obtain ⟨t, ht, rfl⟩ := List.getElem_of_mem hx
  exact h t _ (List.getElem?_eq_getElem ht)

end Bp.Chan
