import BpProofs.Chan
/-
  The invariant of the AsyncChannel model and its preservation by every atomic action
  (`micro`), hence by every scheduler step (`step`) and every run (`run`).
-/
namespace Bp.Chan

/-- per-sender send order on the put log -/
def SendOrd : Item → Item → Prop
  | .data a b, .data c d => a = c → b < d
  | _, _ => True

/-- the numbers the arithmetic invariants talk about -/
structure Abs where
  ql : Nat      -- qsize
  tw : Nat      -- number of data items in front of the first sentinel
  dq : Nat      -- number of data items in the queue
  pl : Nat      -- data items put so far
  rl : Nat      -- data items received so far
  unf : Nat
  waiting : Nat
  maxsize : Nat
  cancels : Nat
  pcN : Nat     -- data items put before the first close()
  closed : Nat
  flushed : Nat
  pG : Nat
  wG : Nat
  pP : Nat
  wP : Nat
  inGet : Nat
  owed : Nat
  fresh : Nat
  rDone : Nat
  canc : Nat

def abs (s : Sys) : Abs :=
  { ql := s.queue.length, tw := (s.queue.takeWhile Item.isData).length, dq := (s.queue.filter Item.isData).length,
    pl := s.putLog.length, rl := s.recvLog.length, unf := s.unfinished, waiting := s.waiting,
    maxsize := s.maxsize, cancels := s.cancels, pcN := s.preClose.getD 0,
    closed := ind s.closed, flushed := ind s.flushed,
    pG := tsum (mPend true) s.tasks, wG := tsum (mWok true) s.tasks,
    pP := tsum (mPend false) s.tasks, wP := tsum (mWok false) s.tasks,
    inGet := tsum mInGet s.tasks, owed := tsum mOwed s.tasks, fresh := tsum mFresh s.tasks,
    rDone := tsum mRecvDone s.tasks, canc := tsum mCanc s.tasks }

/-- the arithmetic invariants -/
structure NumInv (a : Abs) : Prop where
  /-- `_unfinished_tasks` = qsize: `task_done()` never raises -/
  unfin : a.unf = a.ql
  /-- `_waiting_receivers` = number of receivers inside `get()` -/
  waitingEq : a.waiting = a.inGet
  /-- earmark: while a getter is pending, every queued item is earmarked for a woken getter -/
  earG : 0 < a.pG → a.ql ≤ a.wG
  /-- the same for putters: while a putter is pending, every free slot is earmarked -/
  earP : 0 < a.pP → 0 < a.maxsize ∧ a.maxsize ≤ a.ql + a.wP
  /-- closed but not yet flushed: a `_flush_queue` task is waiting to start -/
  fresh : a.closed = 1 → a.flushed = 0 → 0 < a.fresh
  flClosed : a.flushed = 1 → a.closed = 1
  /-- before the flush there is no sentinel, queued or owed -/
  noSent : a.flushed = 0 → a.owed = 0 ∧ a.tw = a.ql
  /-- flush arithmetic: after the flush every receiver inside `get()` is covered by a queued
      item or a sentinel still to be put -/
  cover : a.flushed = 1 → a.waiting ≤ a.ql + a.owed
  preLe : a.closed = 1 → a.pcN ≤ a.pl
  /-- the items put before close that are still queued sit in front of every sentinel -/
  d1 : a.closed = 1 → a.pcN - a.rl ≤ a.tw
  /-- without cancellation: once a receiver has finished, every pre-close item still queued is
      matched by a receiver inside `get()` -/
  d2 : a.cancels = 0 → 0 < a.rDone → a.closed = 1 → a.pcN - a.rl ≤ a.waiting
  d3 : a.cancels = 0 → a.closed = 0 → a.rDone = 0
  noCanc : a.cancels = 0 → a.canc = 0
  b1 : a.closed ≤ 1
  b2 : a.flushed ≤ 1

/-- the structural invariants -/
structure SInv (s : Sys) : Prop where
  /-- global FIFO: what was put = what was received, then what is still queued -/
  fifo : s.putLog = s.recvLog.map Prod.snd ++ s.queue.filter Item.isData
  /-- ids in the put log are below the sender's next sequence number -/
  uniq : ∀ a b, Item.data a b ∈ s.putLog → b < nextAt s.tasks a
  ord : s.putLog.Pairwise SendOrd
  g1 : G1 s
  preCl : s.closed = true ↔ s.preClose.isSome = true
  /-- only receivers are ever inside `get()` -/
  getRecv : ∀ (t : Nat) (x : Task), s.tasks[t]? = some x → x.wait.inGet = true → x.code.isReceiver = true
  /-- `_flush_queue` tasks are never cancelled and exist only after `close()` -/
  fl : ∀ (t : Nat) (x : Task), s.tasks[t]? = some x → x.code.isFlusher = true → mCanc x = 0 ∧ s.closed = true

structure Inv (s : Sys) : Prop where
  st : SInv s
  nm : NumInv (abs s)

theorem ind_le (b : Bool) : ind b ≤ 1 := by cases b <;> simp [ind]
@[simp] theorem ind_true : ind true = 1 := rfl
@[simp] theorem ind_false : ind false = 0 := rfl

/-- list facts that hold of every state -/
theorem abs_facts (s : Sys) : (abs s).tw ≤ (abs s).ql ∧ (abs s).dq ≤ (abs s).ql := by
  refine ⟨?_, List.length_filter_le _ _⟩
  simp only [abs]
  exact (List.takeWhile_sublist _).length_le

theorem abs_facts' {s : Sys} (_h : Inv s) : (abs s).tw ≤ (abs s).ql ∧ (abs s).dq ≤ (abs s).ql := abs_facts s

theorem fifo_len {s : Sys} (h : SInv s) : (abs s).pl = (abs s).rl + (abs s).dq := by
  have := congrArg List.length h.fifo
  simpa [abs] using this

/-- Close `NumInv (abs s')` from `h : Inv s` and the (in)equalities in the context that relate the
    numbers of `s'` to those of `s`.  Each field gets only the old facts it can depend on, which
    keeps every `omega` call small. -/
macro "num_close " h:term : tactic => `(tactic| (
  have b1 := ($h).nm.b1; have b2 := ($h).nm.b2; have e1 := ($h).nm.unfin; have e2 := ($h).nm.waitingEq
  have l1 := fifo_len ($h).st; have l2 := abs_facts' $h
  simp only [abs] at b1 b2 e1 e2 l1 l2
  constructor
  · (try simp only [abs, Sys.setTask, ind_true, ind_false, wake_queue, wake_maxsize, wake_unfinished, wake_closed, wake_flushed, wake_waiting, wake_putLog, wake_recvLog, wake_preClose, wake_cancels]) <;> (first | omega | (intros; trivial) | fail "num_close: field unfin")
  · (try simp only [abs, Sys.setTask, ind_true, ind_false, wake_queue, wake_maxsize, wake_unfinished, wake_closed, wake_flushed, wake_waiting, wake_putLog, wake_recvLog, wake_preClose, wake_cancels]) <;> (first | omega | (intros; trivial) | fail "num_close: field waitingEq")
  · have i1 := ($h).nm.earG; simp only [abs] at i1
    (try simp only [abs, Sys.setTask, ind_true, ind_false, wake_queue, wake_maxsize, wake_unfinished, wake_closed, wake_flushed, wake_waiting, wake_putLog, wake_recvLog, wake_preClose, wake_cancels]) <;> (first | omega | (intros; trivial) | fail "num_close: field earG")
  · have i1 := ($h).nm.earP; simp only [abs] at i1
    (try simp only [abs, Sys.setTask, ind_true, ind_false, wake_queue, wake_maxsize, wake_unfinished, wake_closed, wake_flushed, wake_waiting, wake_putLog, wake_recvLog, wake_preClose, wake_cancels]) <;> (first | omega | (intros; trivial) | fail "num_close: field earP")
  · have i1 := ($h).nm.fresh; simp only [abs] at i1
    (try simp only [abs, Sys.setTask, ind_true, ind_false, wake_queue, wake_maxsize, wake_unfinished, wake_closed, wake_flushed, wake_waiting, wake_putLog, wake_recvLog, wake_preClose, wake_cancels]) <;> (first | omega | (intros; trivial) | fail "num_close: field fresh")
  · have i1 := ($h).nm.flClosed; simp only [abs] at i1
    (try simp only [abs, Sys.setTask, ind_true, ind_false, wake_queue, wake_maxsize, wake_unfinished, wake_closed, wake_flushed, wake_waiting, wake_putLog, wake_recvLog, wake_preClose, wake_cancels]) <;> (first | omega | (intros; trivial) | fail "num_close: field flClosed")
  · have i1 := ($h).nm.noSent; simp only [abs] at i1
    (try simp only [abs, Sys.setTask, ind_true, ind_false, wake_queue, wake_maxsize, wake_unfinished, wake_closed, wake_flushed, wake_waiting, wake_putLog, wake_recvLog, wake_preClose, wake_cancels]) <;> (first | omega | (intros; trivial) | fail "num_close: field noSent")
  · have i1 := ($h).nm.cover; have i2 := ($h).nm.noSent; have i3 := ($h).nm.flClosed; simp only [abs] at i1 i2 i3
    (try simp only [abs, Sys.setTask, ind_true, ind_false, wake_queue, wake_maxsize, wake_unfinished, wake_closed, wake_flushed, wake_waiting, wake_putLog, wake_recvLog, wake_preClose, wake_cancels]) <;> (first | omega | (intros; trivial) | fail "num_close: field cover")
  · have i1 := ($h).nm.preLe; simp only [abs] at i1
    (try simp only [abs, Sys.setTask, ind_true, ind_false, wake_queue, wake_maxsize, wake_unfinished, wake_closed, wake_flushed, wake_waiting, wake_putLog, wake_recvLog, wake_preClose, wake_cancels]) <;> (first | omega | (intros; trivial) | fail "num_close: field preLe")
  · have i1 := ($h).nm.d1; have i2 := ($h).nm.noSent; have i3 := ($h).nm.flClosed; simp only [abs] at i1 i2 i3
    (try simp only [abs, Sys.setTask, ind_true, ind_false, wake_queue, wake_maxsize, wake_unfinished, wake_closed, wake_flushed, wake_waiting, wake_putLog, wake_recvLog, wake_preClose, wake_cancels]) <;> (first | omega | (intros; trivial) | fail "num_close: field d1")
  · have i1 := ($h).nm.d2; have i2 := ($h).nm.d1; have i3 := ($h).nm.d3; have i4 := ($h).nm.noCanc; simp only [abs] at i1 i2 i3 i4
    (try simp only [abs, Sys.setTask, ind_true, ind_false, wake_queue, wake_maxsize, wake_unfinished, wake_closed, wake_flushed, wake_waiting, wake_putLog, wake_recvLog, wake_preClose, wake_cancels]) <;> (first | omega | (intros; trivial) | fail "num_close: field d2")
  · have i1 := ($h).nm.d3; have i2 := ($h).nm.flClosed; have i3 := ($h).nm.noSent; simp only [abs] at i1 i2 i3
    (try simp only [abs, Sys.setTask, ind_true, ind_false, wake_queue, wake_maxsize, wake_unfinished, wake_closed, wake_flushed, wake_waiting, wake_putLog, wake_recvLog, wake_preClose, wake_cancels]) <;> (first | omega | (intros; trivial) | fail "num_close: field d3")
  · have i1 := ($h).nm.noCanc; simp only [abs] at i1
    (try simp only [abs, Sys.setTask, ind_true, ind_false, wake_queue, wake_maxsize, wake_unfinished, wake_closed, wake_flushed, wake_waiting, wake_putLog, wake_recvLog, wake_preClose, wake_cancels]) <;> (first | omega | (intros; trivial) | fail "num_close: field noCanc")
  · (try simp only [abs, Sys.setTask, ind_true, ind_false, wake_queue, wake_maxsize, wake_unfinished, wake_closed, wake_flushed, wake_waiting, wake_putLog, wake_recvLog, wake_preClose, wake_cancels]) <;> (first | omega | (intros; trivial) | fail "num_close: field b1")
  · (try simp only [abs, Sys.setTask, ind_true, ind_false, wake_queue, wake_maxsize, wake_unfinished, wake_closed, wake_flushed, wake_waiting, wake_putLog, wake_recvLog, wake_preClose, wake_cancels]) <;> (first | omega | (intros; trivial) | fail "num_close: field b2")))

theorem takeWhile_append_len (p : Item → Bool) (q : List Item) (it : Item) :
    (q.takeWhile p).length ≤ ((q ++ [it]).takeWhile p).length ∧
    ((q.takeWhile p).length = q.length → p it = true → ((q ++ [it]).takeWhile p).length = q.length + 1) ∧
    (p it = false → ((q ++ [it]).takeWhile p).length = (q.takeWhile p).length) := by
  induction q with
  | nil => cases h : p it <;> simp [List.takeWhile, h]
  | cons y ys ih =>
    cases hy : p y
    · simp [List.takeWhile, hy]
    · simp [List.takeWhile, hy]
      obtain ⟨i1, i2, i3⟩ := ih
      exact ⟨i1, i2, i3⟩

end Bp.Chan
